#!/usr/bin/env python3
"""Rewrites the prose of DESIGN.md section 10 (between its heading and the seed table) with numbers taken
from seeded/*/meta.json, so that text and table cannot drift apart."""
import json, os, collections
metas = {}
for d in sorted(os.listdir('/verif/seeded')):
    p = f'/verif/seeded/{d}/meta.json'
    if os.path.exists(p):
        metas[d] = json.load(open(p))
n = len(metas)
rounds = collections.defaultdict(list)
for k, m in metas.items():
    rounds[m['round']].append(k)
obsolete = sorted(k for k, m in metas.items() if 'obsolete_on_current_tree' in m)
own = sorted(k for k, m in metas.items() if m.get('detected_by_own_property') and k not in obsolete)
neigh = sorted(k for k, m in metas.items() if m.get('detected') and not m.get('detected_by_own_property') and k not in obsolete)
undet = sorted(k for k, m in metas.items() if not m.get('detected') and k not in obsolete)
missed = {r: sorted(k for k in ks if 'missed_at_first' in metas[k]) for r, ks in rounds.items()}
runs = sum(len(m['checks_run_against_it']) for m in metas.values())
runs1 = sum(1 for m in metas.values() for c in m['checks_run_against_it'] if c['exit'] == 1)
allfeat = sum(1 for m in metas.values() if any('all_features_suite' in l for l in m['confirmed_by_me']['log']))
missed_txt = ', '.join(f"{len(missed[r])} of {len(rounds[r])} in round {r}" for r in sorted(rounds))
text = f"""## 10. Seeded changes: which checks catch which

{n} changes to quick-xml were written by {n // 2} fresh sub-agents (two each) in nine rounds: round 1 — one agent
per property (seeds `-A`, `-B`); round 2 — a second agent for C02, C03, C05, C06, C09, C12, C13, C14, C15, C18, C19,
C20 (seeds `-C`, `-D`), told only that "other engineers have already covered the most obvious mechanism" and to
look at secondary code paths, rarely used entry points, async variants, configuration interactions and recovery
paths; round 3 — the same for the remaining eight properties (their `-C`, `-D`); round 4 — a third agent for the
twelve properties of round 2 (seeds `-E`, `-F`), told to dig deeper still (interactions of two features or
switches, state carried across calls, boundary values of counters and buffers, recovery after an error, rarely
used entry points and their async twins, differences between the borrowing and the buffering implementation);
round 5 — the same for the eight properties of round 3 (their `-E`, `-F`); round 6 — one more agent for every
property (seeds `-G`, `-H`), asked for changes that are *different in kind*: reached only through an unusual but
legal way of calling the library, through the interaction with a different feature of the crate, or at boundary
values; round 7 (session 3) — again one agent for every property (seeds `-I`, `-J`), told what six rounds had
covered and pointed at five directions hardly used before: *scale* (lengths, counts and depths beyond an internal
buffer, chunk or counter), *long-range state* (something remembered from much earlier, objects used for a second
document or after an error), *hand-written documents* the crate's own serializer never produces (namespace
prefixes, `xsi:nil`, mixed content, CR LF), *less common types and entry points* (borrowed targets, tuples, maps,
enum representations, deserializers driven by hand), and *two cooperating sites*; round 8 (session 3) — one more
agent for the eight properties on the serde and writer side (C06, C07, C09, C13, C14, C15, C19, C20; seeds `-K`,
`-L`), pointed at *lexical forms of values*, *serializer / deserializer objects configured or driven by hand*
(builder methods, several values from one deserializer, a custom `EntityResolver`, `event_buffer_size`), *enum
representations and colliding names*, *the same data in a different position*, and *output that the crate's own
round trip still accepts*; round 9 (session 3) — one more agent for the twelve properties on the reader side (C01–C05,
C08, C10–C12, C16–C18; seeds `-M`, `-N`), told what seven rounds incl. the scale workload had covered and pointed
at *rarely used public API on the same data* (caller buffers that are not empty, `get_mut` / `into_inner` /
`stream()` mixed with event reading, the `Event` and `BytesStart` conversions, `with_checks`, the generic
`resolve`), *configuration changed at an unusual moment*, *exact alignment* of a construct with the end of the
input or of a piece, *bytes outside ASCII and outside UTF-8*, and *what is reported next to the event*
(positions, decoder, configuration). Each agent saw only the text of one property and its own scratch git worktree under
`/tmp` — nothing from `/verif`. They were asked for realistic slips (off-by-one in a rare neighbourhood, missing
branch, state not carried over, wrong order, two sites that disagree) that compile, keep the pinned
default-feature suite green (and the all-features suite) and need something specific to manifest. I confirmed
every one myself in its scratch worktree (`tools/confirm_seed.sh`: patch applies; default-feature suite 837/837
with the patch; the demo fails with the patch; the demo passes without it; additionally the all-features suite
for {allfeat} of the {n} — every seed of rounds 3 to 9 and every seed that touches serde, encoding or writer code;
three seeds, C15-F, C15-G and C15-I, fail three, two and one all-features tests and are kept because the pinned
suite is the default-feature one; each `CONFIRM.txt` says which suites were run) and then ran the quick check(s)
against it: rounds 1 to 6 by applying the patch to `/repo`, running `./check`, and reverting (`tools/mutest.sh`,
`tools/run_seeded.sh`); rounds 7 to 9, and the re-runs after the repairs F13 and F14, in scratch lanes that do
not touch `/repo` (`tools/mutest_scratch.sh`, section 9). Each kept change lives in `/verif/seeded/<id>/`
(`patch.diff`, `demo.rs`, the author's `NOTES.md`, my `CONFIRM.txt`, `meta.json`); `seeded/RESULTS.txt` holds,
per (seed, check) pair, the raw first line of the most recent run. None of them is committed in `/repo`; the
scratch worktrees are removed. Five seeds (C05-B, C05-C, C19-B, C19-D, C19-F) touched lines that a later fix (F9,
F11) rewrote; they were ported to the repaired tree (same slip, same trigger), re-confirmed there, and the
original kept next to the port. Four seeds became *obsolete* through the repairs of session 3 and are kept as
records only ({', '.join(obsolete)}): each was confirmed and detected on the tree it was written for, and each is
either harmless or no longer applicable on the current tree (their `meta.json` says why). After F13 and F14 every
seed whose patch touches `src/de/mod.rs` or `src/de/simple_type.rs` was run again on the repaired tree; the other
seeds of rounds 1 to 6 keep their result from the last complete run (the monitors have only gained workloads and
oracles since). The prompts are `tools/seed-prompt.txt` plus the per-round guidance quoted above.

**Result: of the {n - len(obsolete)} changes that still apply and break something on the current tree,
{len(own) + len(neigh)} are detected: {len(own)} by the quick check of the property they were written for,
{len(neigh)} only by the check of the neighbouring property whose statement they break ({', '.join(neigh)}), and
{len(undet)} by none{(' (' + ', '.join(undet) + ')') if undet else ''} ({runs1} of {runs} check runs exit 1, counting the neighbouring properties
that were also tried).** The neighbour cases are all of one kind: the change sits in a call or a document that the
named property's statement does not cover —

* C01-G, C01-N, C08-H, C16-H change `read_to_end` (its failure path, its span, its use for an ancestor); C01, C08
  and C16 speak about `read_event`. C12, whose statement they break, reports all four (C16 also reports C01-G and
  C01-N through its configuration probe). C08-M is in the synchronous `Read` side of `Reader::stream()`; C03's
  raw-read mode reports it. C02-G needs a source that answers `Interrupted` (C18's statement; C18 reports it).
  C08-G is in the async reader's `stream()` (C08 is about the borrowing reader; C02 and C03 report it). C06-K
  only affects a `char` list item that is a blank, which is outside C06's documented round-trip domain; C13's
  payload non-interference reports it.
* C20-G (namespace prefixes) and C20-H (`xsi:nil`), the two changes that no check saw after round 6, are now
  reported by C20 itself: it interleaves hand-written presentations of the contiguous document as well
  (section 9), which is also how known finding F12 came to light.

Misses at the first run, i.e. with the monitors as they stood when the seed arrived (or, for ten seeds of round 7
four of round 8 and several of round 9, as predicted from the agent's summary and strengthened before the first run): {missed_txt}.
Every miss led to the strengthening named in the last column of the table (each re-run afterwards). The agents'
notes about the *unchanged* tree also led to five of the genuine defects of section 6 (F8, F9, F10, F11, F13) and
to observations of section 6.1. In addition the harness's own 33 calibration mutants (`selftest/mutants/`,
generated by `tools/make_mutants.py` from the "must catch" lists of section 5 and from the entry points added
later) are all caught (`selftest/mutants/RESULTS.txt`).

"""
p = '/verif/DESIGN.md'
s = open(p).read()
a = s.index('## 10. Seeded changes: which checks catch which')
b = s.index('<!-- SEED-TABLE-BEGIN -->')
s = s[:a] + text + s[b:]
open(p, 'w').write(s)
print('section 10 prose rewritten:', n, 'seeds,', len(own), 'own,', len(neigh), 'neighbour,', len(undet), 'undetected,', len(obsolete), 'obsolete')
