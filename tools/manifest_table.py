NOTES = ("All checks: ./check <ID> <quick|thorough>; exit 0 held on everything observed, 1 VIOLATION (with replay file), "
         "2 build failure, 3 inconclusive (a required observation counter stayed zero, a worker died irreproducibly, watchdog). "
         "Known findings: /verif/known_findings.json. VERIF_SEED selects the random part; the exhaustive parts ignore it.")
NOT_BUILT = {}

prop("C01", "exploration",
     "Runtime monitoring with a reference model: the real slice reader runs in lock-step with an independent index-based tokenizer on every byte string up to length 6/7 over the 13 markup bytes, every sequence of up to 4/5 markup atoms, all 128 configurations on a smaller enumeration, plus grammar documents, mutants, truncations at every offset and the repository corpus. Held on what was observed; exhaustive only inside the stated alphabets and lengths.",
     "Trusted: the reference tokenizer R_tok (harness/src/refmodel/tok.rs), rustc/std. Empty Text events are ignored (C16), DoubleHyphen error offsets are not compared.",
     "runtime monitor, reference-model oracle (lock-step differential against R_tok)")
prop("C08", "exploration",
     "Runtime monitoring with a reconstruction oracle: for every successful read the input bytes between the positions reported before and after the call must equal the markup rebuilt from the event, spans must tile from 0 to the input length, and Writer output must equal the spans; slice and buffered (piece size 1 / random) sources; same input space as C01 plus BOM inputs.",
     "Trusted: the 40-line reconstruct(event) function, the harness ChunkedRead adapter. Positions are literal input offsets.",
     "runtime monitor, span-reconstruction and tiling oracle, read-write round trip")
