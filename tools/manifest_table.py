NOTES = ("All checks: ./check <ID> <quick|thorough>; exit 0 held on everything observed, 1 VIOLATION (with replay file under /verif/replays/<ID>/), "
         "2 harness or quick-xml does not build, 3 inconclusive (a required observation counter stayed zero, a worker died irreproducibly, watchdog). "
         "Known findings: /verif/known_findings.json (F6 known; F1-F5, F7-F11 fixed in /repo). VERIF_SEED selects the random part; the exhaustive parts ignore it. "
         "Every check is runtime monitoring: the real quick-xml code (path dependency on /repo, rebuilt from its working tree) is executed and an oracle at the API boundary judges every execution.")
NOT_BUILT = {}
TB = "Trusted: rustc/std, the harness adapters (harness/src/sources.rs), "

prop("C01", "exploration",
     "Runtime monitoring with a reference model: the real reader (borrowing, and for the sampled inputs also buffering) runs in lock-step with an independent index-based tokenizer (R_tok) on every byte string up to length 6/7 over the 13 markup bytes, every sequence of up to 4/5 markup atoms, all 128 configurations on a smaller enumeration, plus grammar documents, mutants, truncations at every offset and the repository corpus. Held on what was observed; exhaustive only inside the stated alphabets and lengths.",
     TB + "the reference tokenizer R_tok (harness/src/refmodel/tok.rs). An empty Text event is accepted only at the exact sites of known finding F6 (judged by C16); error positions are observed, not judged.",
     "runtime monitor: lock-step differential against a reference tokenizer (R_tok)")
prop("C02", "exploration",
     "Runtime relational monitoring over schedules owned by the harness: the slice trace is compared entry by entry (events, errors, positions) with the buffered trace over every cut set (all 2^(n-1) for short inputs, piece sizes 1/2/3/7 and random cuts beyond) and with the async trace under Pending scripts (all scripts with <=2 Pendings per piece for <=4 pieces); raw stream() reads (Read and BufRead side, async with a re-polled ReadBuf) are interleaved between events and the event buffer is also reused without clearing. Cooperative schedules are enumerated deterministically, not provoked by stress.",
     TB + "the slice reader as baseline (judged by C01).",
     "runtime monitor: relational comparison of three source kinds under enumerated chunkings and Pending scripts")
prop("C03", "exploration",
     "Runtime totality monitoring: every read call and every payload accessor runs under catch_unwind with assertions on the call bound (2*len+3), sticky Eof, position monotonicity and error-position order; all byte strings of length <=2 over 256 values, length 3 over a 48-class set, enumerations and millions of random/mutated inputs; Reader and NsReader; slice, buffered and async sources; read_to_end / read_text calls after any event for any open element; raw stream() reads; scale documents (lengths, counts and depths at 32..8192, DOCTYPEs with hundreds of unbalanced '<') in long pieces; a buffered source that delivers more bytes after Eof was returned (Eof must stay final); raw reads through the synchronous side of stream() (read into oversized buffers, read_exact that cannot be satisfied, read_to_end) between events: the position advances by what was returned and is the input length at Eof. Thorough tier repeats the workload on a plain-release build and under ASan, valgrind memcheck and Miri.",
     TB + "termination is judged by the logical call bound, never by wall-clock time.",
     "runtime monitor: catch_unwind + invariant assertions; sanitizer layers (Miri, ASan, valgrind) in the thorough tier")
prop("C04", "exploration",
     "Runtime monitoring with a reference model of the open-element stack, in lock-step, over every tag sequence up to length 6/7 x all 16 settings of the four switches and every single-switch flip at every call index for sequences up to length 4/5, plus random multi-flip histories on longer documents, incl. names that are not valid UTF-8; error positions are observed, not judged.",
     TB + "R_tok's open-stack rules.",
     "runtime monitor: lock-step differential against R_tok's open-element stack under configuration-flip histories")
prop("C05", "exploration",
     "Runtime monitoring with a scope-stack reference model (R_ns) driven by consumer call histories: after every Start/Empty/End and after every skip, resolve_element/resolve_attribute for the event's names and a fixed probe set, the set from prefixes(), the result of read_resolved_event and has_nil are compared with the model; all skip/read_text choices (3^k) for small documents (directly after the start tag, after a child event, and of an ancestor from inside a descendant), random histories beyond; slice, buffered, async; expand-empty on/off.",
     TB + "R_tok/R_attr as tools for token streams and attribute lists.",
     "runtime monitor: reference scope model over consumer call histories")
prop("C06", "exploration",
     "Runtime round-trip monitoring: values of 30 derive types covering every documented mapping row (and the less common serializer protocols collect_str and serialize_key+serialize_value) are serialized under the 36 serializer configurations and deserialized back; equality with the original is the oracle. Exhaustive single/double character sweeps in 8 string positions x 36 configurations. A second layer (novl) repeats the workload on a harness built without quick-xml's overlapped-lists feature.",
     TB + "serde derive; the domain restrictions listed in the evidence file's assumptions are taken from the crate documentation.",
     "runtime monitor: serialize/deserialize round trip with equality oracle")
prop("C07", "exploration",
     "Runtime totality monitoring of the deserializer: token-level mutants, truncations at every byte and token soup for about 150 target types and both entry points run under catch_unwind, plus documents in legacy encodings with names outside ASCII; a stall detector on logical progress reports cases that do not return and every worker caps its address space so that a runaway allocation ends as a reported death. A second layer (novl) repeats the workload without the overlapped-lists feature. Thorough tier repeats on plain-release, ASan and Miri builds. Also: from_str through a Deserializer with an event buffer limit of 1..=12, other spellings of values in the mutator, and up to four values in a row from one Deserializer (from_str and from_reader) until the first error; calls made after an error are counted as an observation, not judged (DESIGN 6.1).",
     TB + "the stall detector thresholds (30 s / 90 s without a finished case).",
     "runtime monitor: catch_unwind + stall detector over mutated documents; sanitizer layers in the thorough tier")
prop("C08", "exploration",
     "Runtime monitoring with a reconstruction oracle: for every successful read the input bytes between the positions reported before and after the call must equal the markup rebuilt from the event, spans must tile from 0 to the input length, and Writer output (into a sink that takes 1, 2, 3 or any number of bytes per call) must equal the spans; slice and buffered sources (event buffer also reused without clearing); same input space as C01 plus BOM inputs.",
     TB + "the 40-line reconstruct(event) function. Positions are literal input offsets.",
     "runtime monitor: span reconstruction and tiling oracle, read-write round trip")
prop("C09", "exploration",
     "Runtime round-trip monitoring against a model of the builder calls: call sequences with hostile payloads are written through four writer paths (sync/async write_event, sync/async ElementWriter; also into sinks that take short writes, answer Pending, or refuse one write call; also on start tags that still borrow their content), the byte strings compared, read back and compared with the model (names, unescaped attribute values and texts, CDATA pieces, declarations).",
     TB + "the model of calls in harness/src/monitors/c09.rs; documented preconditions of the constructors are respected by the generator.",
     "runtime monitor: write-read round trip against a call model; sync/async writer equivalence")
prop("C10", "exploration",
     "Runtime monitoring with round-trip and reference oracles: all strings up to length 6/7 over a 13-symbol alphabet and atom sequences up to 4/5 for the three escape levels and for unescape against a 40-line reference unescaper; EVERY code point 0..=0x110020 in 8 valid and 16 malformed spellings; entity names of every byte length up to 80; a custom and a total resolver; random Unicode strings.",
     TB + "the reference unescaper.",
     "runtime monitor: escape/unescape round trip + reference unescaper, exhaustive over code points")
prop("C11", "exploration",
     "Runtime monitoring with a reference model of the attribute grammar and its documented recovery points: all tag contents up to 7/9 symbols over 8 attribute-significant bytes x XML/HTML x duplicate checks on/off, plus generated attribute lists with injected faults; with_checks re-asserted between items; the relation 'set_name does not change the attributes'.",
     TB + "R_attr (harness/src/refmodel/attr.rs) encodes the recovery positions documented on AttrError.",
     "runtime monitor: differential against a reference attribute parser (R_attr)")
prop("C12", "exploration",
     "Runtime monitoring on reader clones: at every Start event of every generated document read_to_end / read_to_end_into / read_to_end_into_async / read_text is called on a clone; span, the whole remaining event trace behind the skipped element (against the uncloned run), configuration restoration and text are compared with R_tok spans and an independent depth match; scale documents (long names, values and texts, nesting and sibling counts up to 8192) in long pieces; truncations exercise the failure path; the enclosing element is also skipped from inside each child.",
     TB + "R_tok token spans.",
     "runtime monitor: clone-and-skip differential against token spans")
prop("C13", "exploration",
     "Runtime monitoring of serializer output: every Ok document is read with all checks on, every name validated by an independent XML 1.1 Name validator, and for family values a non-interference check compares the markup skeleton and every payload slot of the hostile document with a markup-free twin generated from the same seed; 63 extra shapes outside the round-trip domain, arbitrary root names, every entry point (to_string, to_writer, to_utf8_io_writer, Writer::write_serializable) and sinks that stop accepting data.",
     TB + "the reader as a tool; the Name validator written from the XML 1.1 productions.",
     "runtime monitor: well-formedness via the reader, independent Name validator, non-interference (twin documents)")
prop("C14", "exploration",
     "Runtime relational monitoring: from_str vs from_reader over ChunkedRead (piece sizes 1,2,3,7, whole, random cut sets) on valid, mutated, truncated and soup documents for about 150 owned target types (and a second layer without the overlapped-lists feature); Ok values must be equal, otherwise both must fail. Also: several values in a row from one Deserializer::from_str / from_reader over documents written one after the other: both entry points must agree on every result up to and including the first error.",
     TB + "error values are not compared.",
     "runtime monitor: relational comparison of two deserializer entry points under chunkings")
prop("C15", "exploration",
     "Runtime metamorphic monitoring: 20 information-preserving rewrites are applied to the serializer's output, and to hand-written presentations of it in which absent optional children are present with xsi:nil=\"true\" or a piece of a text is a reference to an entity declared in the document's own DOCTYPE (read through Deserializer::from_str_with_resolver / with_resolver with a resolver that captures DOCTYPE declarations) (every site for documents of <=12 tokens, random compositions beyond), and the rewritten document must deserialize to the same value.",
     TB + "the element naming convention of the family as site table; R_tok/R_attr as tools.",
     "runtime monitor: metamorphic rewrites with value-equality oracle")
prop("C16", "exploration",
     "Runtime relational monitoring: the real reader's trace under each of the 128 configurations is compared with the documented transformation of its own neutral trace (expansion, trimming, name trimming, comment and name checks, positions); exhaustive over byte strings up to length 5/6 x 128 configurations; a probe checks that no read call (incl. a failing read_to_end) leaves the configuration different from what the caller set. Known finding F6 is matched by an exact signature.",
     TB + "the transformation T_c in harness/src/monitors/c16.rs.",
     "runtime monitor: relational comparison under the documented configuration transformation")
prop("C17", "exploration",
     "Runtime relational monitoring over all 36 ASCII-compatible encoding_rs encodings: generated documents with representable characters in every construct are encoded, labelled and read (slice and buffered); decoded payloads must equal the originals; malformed sequences (confirmed by encoding_rs) must be rejected by decode/unescape; the CDATA-to-text conversions, a failing first refill, short byte-order-mark inputs, payloads of 400 to 1200 characters, decode_into against decode on every payload, every pair of a first and a later declaration (the decoder never changes at the later one), the deserializer over documents with Cyrillic names and space-separated lists in legacy encodings, the encoding state machine paths and the repository's encoding corpus are exercised. Thorough tier adds Miri and ASan.",
     TB + "encoding_rs as oracle for representability and malformedness.",
     "runtime monitor: transcoding relation against the UTF-8 original; sanitizer layers in the thorough tier")
prop("C18", "fault_enumeration",
     "Runtime fault enumeration at the BufRead/AsyncBufRead boundary: for every (document, configuration, cut set) explored, EVERY refill call index is used as the fault point, once with Interrupted (trace must be unchanged) and once with another error kind (prefix equal, Err(Io) with the injected kind from the call that consumed the fault, not reported twice, and whatever is returned afterwards is Eof or the fault-free continuation); multi-interrupt scripts; sync and async.",
     TB + "fault injection delivers the error from exactly one refill call and the data unchanged afterwards.",
     "runtime monitor: exhaustive single-fault enumeration over refill calls with fault-free trace as oracle")
prop("C19", "exploration",
     "Runtime relational monitoring: every event-kind sequence up to length 5/6 is written plain and indented (3 characters x widths 0..9) with the sink length sampled before each event; the indented piece must be [newline + indent] + plain piece with the prefix only where allowed; async equality; read-back equality; long/deep/unbalanced random sequences; explicit write_indent; serde: indented vs plain token streams and deserialized values for the family, also through Writer::write_serializable inside an open element.",
     TB + "the reader and R_tok as tools for read-back.",
     "runtime monitor: per-event relational comparison of plain and indenting writers; serde indentation relation")
prop("C20", "exploration",
     "Runtime metamorphic monitoring: for generated values of 15 shapes (two/three lists, scalars and optional fields, same-named nested children, $value lists, text content, nested structs, a flattened member, a map with list values; five of them one level below a wrapper) all order-preserving interleavings of the child elements x every event-buffer limit are deserialized; result must be the original value or TooManyEvents, never Ok below the lower bound B of events to hold, monotone in the limit; random and two-level interleavings for larger sizes; reader entry point. The same for hand-written presentations of the contiguous document (namespace prefixes, xsi:nil elements for absent optional fields, unknown children and attributes, comments, CDATA), accepted when the presentation still gives the value. Known finding F12 (xsi:nil on a buffered element with the xsi prefix declared on the container itself) is reported as KNOWN-FINDING by exact signature.",
     TB + "B is a lower bound only (tight in >99% of the explored cases).",
     "runtime monitor: metamorphic interleavings with value-equality, lower-bound and monotonicity oracles")
