#!/usr/bin/env python3
"""Validate MANIFEST.json and every evidence file against the given schemas (uses the tooling venv)."""
import json, sys, glob, jsonschema
ok = True
m = json.load(open('/verif/MANIFEST.json'))
jsonschema.validate(m, json.load(open('/root/.vp/MANIFEST.schema.json')))
print('MANIFEST.json valid:', len(m['checks']), 'checks')
es = json.load(open('/root/.vp/EVIDENCE.schema.json'))
for c in m['checks']:
    f = c['evidence_file']
    try:
        e = json.load(open(f))
        jsonschema.validate(e, es)
        print(f, 'valid', e['tier'], e['coverage']['evaluations'], e['coverage']['distinct_nontrivial'], 'violations', e.get('violations'))
    except Exception as ex:
        ok = False
        print(f, 'INVALID', str(ex)[:200])
sys.exit(0 if ok else 1)
