#!/bin/bash
# Runs every seeded change under /verif/seeded against the quick check of its own property
# (plus extra properties given in seeded/<id>/also.txt). Output: seeded/RESULTS.txt
cd /verif
: > seeded/RESULTS.txt
for d in seeded/C??-?; do
    id=$(basename $d); prop=${id%-*}
    extra=""; [ -f $d/also.txt ] && extra=$(cat $d/also.txt)
    tools/mutest.sh $d/patch.diff $prop $extra >> seeded/RESULTS.txt 2>&1
done
echo DONE >> seeded/RESULTS.txt
