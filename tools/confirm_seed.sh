#!/bin/bash
# tools/confirm_seed.sh <worktree> <variant-dir>   e.g. /tmp/seed-C05 /tmp/seed-C05/seeded/A
# Independently confirms a seeded change in its scratch worktree:
#   1. patch applies, 2. default-feature suite passes with it, 3. demo FAILS with it,
#   4. demo PASSES without it.  Writes <variant-dir>/CONFIRM.txt and leaves the worktree clean.
WT="$1"; V="$2"
cd "$WT" || exit 2
export CARGO_NET_OFFLINE=true
git checkout -q -- . ; rm -f tests/seeded_demo.rs
feat=$(head -1 "$V/demo.rs" | sed -n 's#^// *features: *##p' | tr -d ' ')
fflag=""; [ -n "$feat" ] && fflag="--features $feat"
out="$V/CONFIRM.txt"; : > "$out"
if ! git apply --check "$V/patch.diff" 2>>"$out"; then echo "RESULT patch_does_not_apply" >> "$out"; exit 1; fi
git apply "$V/patch.diff"
echo "files: $(git diff --stat | tail -1)" >> "$out"
suite=$(cargo test --workspace --no-fail-fast --offline 2>&1 | grep -E "^test result" | awk '{p+=$4; f+=$6} END {print "passed="p" failed="f}')
echo "default_suite_with_patch: $suite" >> "$out"
if [ "${ALLFEAT:-0}" = "1" ]; then
  suite2=$(cargo test --all-features --no-fail-fast --offline 2>&1 | grep -E "^test result" | awk '{p+=$4; f+=$6} END {print "passed="p" failed="f}')
  echo "all_features_suite_with_patch: $suite2" >> "$out"
fi
cp "$V/demo.rs" tests/seeded_demo.rs
d1=$(cargo test $fflag --test seeded_demo --offline 2>&1 | grep -E "^test result|^error(\[|:)" | tail -3 | tr '\n' ' ')
echo "demo_with_patch: $d1" >> "$out"
git checkout -q -- src
d2=$(cargo test $fflag --test seeded_demo --offline 2>&1 | grep -E "^test result|^error(\[|:)" | tail -3 | tr '\n' ' ')
echo "demo_without_patch: $d2" >> "$out"
rm -f tests/seeded_demo.rs; git checkout -q -- .
ok=1
echo "$suite" | grep -q "failed=0" || ok=0
echo "$d1" | grep -q "FAILED\|failed; [1-9]\|[1-9][0-9]* failed" || ok=0
echo "$d1" | grep -q "test result: FAILED" || ok=0
echo "$d2" | grep -q "test result: ok" || ok=0
[ $ok = 1 ] && echo "RESULT confirmed" >> "$out" || echo "RESULT not_confirmed" >> "$out"
