#!/usr/bin/env python3
"""tools/merge_results.py <new-log>...  merges lane logs (lines `<seed> <check> exit=<n> <detail>`) into
seeded/RESULTS.txt: a (seed, check) pair that appears in a new log replaces the older line."""
import re, sys
path = '/verif/seeded/RESULTS.txt'
pat = re.compile(r'(C\d\d-[A-Z])(?:/patch.diff)? (C\d\d) exit=(\d+)(.*)')
rows = {}
order = []
def take(line):
    m = pat.match(line)
    if not m:
        return
    k = (m.group(1), m.group(2))
    if m.group(3) == '2':          # inconclusive build problems are not results
        return
    if k not in rows:
        order.append(k)
    rows[k] = f"{m.group(1)}/patch.diff {m.group(2)} exit={m.group(3)}{m.group(4).rstrip()}"
for l in open(path):
    take(l)
for f in sys.argv[1:]:
    for l in open(f, errors='replace'):
        take(l)
order.sort()
with open(path, 'w') as out:
    for k in order:
        out.write(rows[k] + '\n')
    out.write('DONE\n')
print(len(order), 'rows;', sum(1 for k in order if ' exit=1' in rows[k]), 'with exit=1')
