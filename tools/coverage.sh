#!/bin/bash
# tools/coverage.sh [tier]  -- which regions of /repo/src do the checks actually execute?
# Builds the harness with -Cinstrument-coverage into a scratch target directory, runs every
# check of the given tier (default quick) with evidence redirected to a scratch root, merges the
# profiles and writes the per-file summary to design-notes/coverage.txt. Scratch data is removed.
# For the lines of one file: llvm-cov show <binary> -instr-profile=<profdata> /repo/src/<file>.
set -e
TIER=${1:-quick}
V=$(cd "$(dirname "$0")/.." && pwd)
S=$(mktemp -d /tmp/qxcov.XXXXXX)
trap 'rm -rf "$S"' EXIT
B=$(rustc +nightly --print sysroot)/lib/rustlib/x86_64-unknown-linux-gnu/bin
mkdir -p $S/root/evidence $S/root/replays $S/prof
cp $V/known_findings.json $V/properties.jsonl $S/root/
(cd $V/harness && LLVM_PROFILE_FILE=$S/prof/build-%p.profraw CARGO_NET_OFFLINE=true RUSTFLAGS="-Cinstrument-coverage" CARGO_TARGET_DIR=$S/target cargo +nightly build --release --offline -q 2>/dev/null)
for i in 01 02 03 04 05 06 07 08 09 10 11 12 13 14 15 16 17 18 19 20; do
  VERIF_ROOT=$S/root VERIF_SKIP_LAYERS=plain,asan,valgrind,miri,fuzz LLVM_PROFILE_FILE=$S/prof/%m-%p.profraw $S/target/release/qxcheck run C$i $TIER 2>&1 | tail -1
done
rm -f $S/prof/build-*.profraw; $B/llvm-profdata merge -sparse $S/prof/*.profraw -o $S/cov.profdata
{
  echo "# coverage of /repo/src by the primary layer of all twenty $TIER checks ($(git -C /repo rev-parse --short HEAD), $(date -u +%F))"
  $B/llvm-cov report $S/target/release/qxcheck -instr-profile=$S/cov.profdata --ignore-filename-regex='(\.cargo|rustc|/harness/|rustlib)' 2>/dev/null \
    | awk 'NR>2 && NF>=10 {printf "%-36s regions %5s missed %5s %8s | functions %4s missed %4s %8s | lines %5s missed %5s %8s\n", $1,$2,$3,$4,$5,$6,$7,$8,$9,$10}'
} > $V/design-notes/coverage.txt
cat $V/design-notes/coverage.txt
