#!/usr/bin/env python3
"""Writes /verif/MANIFEST.json from the table below (kept next to the code so that
the manifest is always regenerated, never hand-edited)."""
import json, os, subprocess
ROOT = os.path.dirname(os.path.dirname(os.path.abspath(__file__)))

BUILT = {}   # id -> dict(level, text, note, technique, design_ref)
def prop(id, level, text, note, technique):
    BUILT[id] = dict(level=level, text=text, note=note, technique=technique)

exec(open(os.path.join(ROOT, "tools", "manifest_table.py")).read())

props = [json.loads(l) for l in open(os.path.join(ROOT, "properties.jsonl"))]
checks, na = [], []
for p in props:
    i = p["id"]
    if i in BUILT:
        b = BUILT[i]
        checks.append({
            "property_id": i,
            "quick_cmd": f"./check {i} quick",
            "thorough_cmd": f"./check {i} thorough",
            "evidence_file": f"/verif/evidence/{i}.json",
            "replay_cmd_template": "./check replay {path}",
            "engine": "qxcheck",
            "level_claimed": {"category": b["level"], "text": b["text"], "design_ref": f"DESIGN.md section 5, {i}"},
            "level_note": b["note"],
            "technique": b["technique"],
        })
    else:
        na.append({"property_id": i, "reason": NOT_BUILT.get(i, "monitor not built yet in this snapshot of /verif; no claim is made")})

manifest = {
    "version": 1,
    "setup_cmd": "cd /verif/harness && CARGO_NET_OFFLINE=true cargo build --release --offline && CARGO_NET_OFFLINE=true cargo build --release --offline --no-default-features --target-dir target-novl",
    "hooks": {
        "guard": "--cfg quick_xml_verif",
        "enable": "no source hooks are needed: every monitor observes quick-xml at its public API and injects schedules/faults through the BufRead/AsyncBufRead/Write objects it passes in; the harness builds /repo as a cargo path dependency with features serialize,encoding,async-tokio,overlapped-lists",
        "baseline_off_cmd": "cd /repo && cargo test --workspace --no-fail-fast --offline",
        "source_commits": [],
        "add_only": True,
    },
    "engines": [
        {"name": "qxcheck", "path": "/verif/harness", "serves_properties": sorted(BUILT.keys()),
         "kind_free_text": "Rust monitor binary: runs the real quick-xml (path dependency on /repo) under enumerated, generated and mutated workloads, with reference-model, relational and round-trip oracles at the API boundary; 16 worker processes; optional Miri / ASan / valgrind layers"}
    ],
    "checks": checks,
    "not_applicable": na,
    "notes": NOTES,
}
json.dump(manifest, open(os.path.join(ROOT, "MANIFEST.json"), "w"), indent=1)
print("MANIFEST.json:", len(checks), "checks,", len(na), "not claimed")
