#!/usr/bin/env python3
"""Prints the numbers quoted in DESIGN.md section 10 from seeded/*/meta.json."""
import json, os, collections
by_round = collections.defaultdict(lambda: collections.Counter())
tot = collections.Counter()
runs = collections.Counter()
for d in sorted(os.listdir('/verif/seeded')):
    p = f'/verif/seeded/{d}/meta.json'
    if not os.path.exists(p):
        continue
    m = json.load(open(p)); r = m['round']
    own = m.get('detected_by_own_property'); det = m.get('detected')
    obs = 'obsolete_on_current_tree' in m
    kind = 'obsolete' if obs else 'own' if own else 'neighbour' if det else 'undetected'
    by_round[r][kind] += 1; tot[kind] += 1
    if 'missed_at_first' in m:
        by_round[r]['missed_first'] += 1; tot['missed_first'] += 1
    for c in m['checks_run_against_it']:
        runs['all'] += 1; runs['exit1'] += (c['exit'] == 1)
    by_round[r]['n'] += 1; tot['n'] += 1
for r in sorted(by_round):
    print('round', r, dict(by_round[r]))
print('total', dict(tot), 'check runs', dict(runs))
for d in sorted(os.listdir('/verif/seeded')):
    p = f'/verif/seeded/{d}/meta.json'
    if os.path.exists(p):
        m = json.load(open(p))
        if not m.get('detected_by_own_property'):
            print(' not-own:', d, 'detected' if m.get('detected') else 'UNDETECTED', 'obsolete' if 'obsolete_on_current_tree' in m else '')
