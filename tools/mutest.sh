#!/bin/bash
# tools/mutest.sh <patch.diff> <ID> [ID...]
# Applies a patch to /repo's working tree, runs the quick checks for the given properties,
# and ALWAYS reverts /repo afterwards. Prints one line per check: <patch> <ID> exit=<code>.
set -u
PATCH="$(realpath "$1")"; shift
cd /repo || exit 2
if ! git diff --quiet; then echo "refusing: /repo working tree is not clean"; exit 2; fi
revert() { git -C /repo checkout -- . ; }
trap revert EXIT
if ! git apply "$PATCH"; then echo "$(basename "$PATCH") does-not-apply"; exit 2; fi
cd /verif
for id in "$@"; do
    out=$(VERIF_SEED=${VERIF_SEED:-0} ./check "$id" quick 2>&1); code=$?
    first=$(echo "$out" | grep -m1 -A1 "^VIOLATION" | tail -1 | cut -c1-220)
    echo "$(basename "$(dirname "$PATCH")")/$(basename "$PATCH") $id exit=$code $first"
done
