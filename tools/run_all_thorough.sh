#!/bin/bash
# runs every thorough check once, sequentially; prints one line per property with its duration
cd "$(dirname "$0")/.."
for i in 01 02 03 04 05 06 07 08 09 10 11 12 13 14 15 16 17 18 19 20; do
  s=$(date +%s)
  out=$(./check C$i thorough 2>&1); code=$?
  e=$(date +%s)
  echo "C$i exit=$code $((e-s))s $(echo "$out" | grep -E "^C$i thorough|INCONCLUSIVE|VIOLATION" | head -3 | tr '\n' ' ' | cut -c1-300)"
done
