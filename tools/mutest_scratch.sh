#!/bin/bash
# tools/mutest_scratch.sh <repo-worktree> <patch.diff> <scratch-root> <ID> [ID...]
# Like mutest.sh, but without touching /repo: the patch is applied to a scratch git worktree of
# /repo, and the quick checks are run from a copy of /verif's harness (sources synced on every call,
# build output kept per scratch root) whose path dependency points at that worktree.
set -u
WT="$1"; PATCH="$(realpath "$2")"; SR="$3"; shift 3
mkdir -p "$SR/evidence"
# the committed state of /verif (never a half-edited working tree)
git -C /verif archive HEAD harness check known_findings.json | tar -x -C "$SR"
sed -i "s|path = \"/repo\"|path = \"$WT\"|" "$SR/harness/Cargo.toml"
git -C "$WT" checkout -q -- . 2>/dev/null
if ! git -C "$WT" apply "$PATCH"; then echo "$(basename "$(dirname "$PATCH")") does-not-apply"; exit 2; fi
trap 'git -C "$WT" checkout -q -- .' EXIT
for id in "$@"; do
    out=$(cd "$SR" && QX_REPO="$WT" VERIF_SEED=${VERIF_SEED:-0} ./check "$id" quick 2>&1); code=$?
    first=$(echo "$out" | grep -m1 -A1 "^VIOLATION" | tail -1 | cut -c1-260)
    [ -z "$first" ] && first=$(echo "$out" | grep -m1 "^INCONCLUSIVE" | cut -c1-200)
    echo "$(basename "$(dirname "$PATCH")") $id exit=$code $first"
done
