#!/usr/bin/env python3
"""Writes seeded/<id>/meta.json from the table below + CONFIRM.txt + RESULTS.txt."""
import json, os, re
S = {
 "C01-A": ("emit_bang: the `starts_with(b\"!--\")` guard of the Comment arm dropped", "input `<!-` + a non-'-' byte + a later `-->` (e.g. `<!-x-->`): an invented Comment instead of UnclosedComment"),
 "C01-B": ("emit_text: whitespace-only text left untouched instead of trimmed to empty under trim_text_end", "trim_text_end=true, trim_text_start=false and a whitespace-only text run"),
 "C02-A": ("buffered skip_whitespace no longer loops to the next fill_buf piece", "trim_text_start and a whitespace run that crosses a piece boundary (buffered/async only)"),
 "C02-B": ("BangType::parse split-terminator checks merged into a helper that accepts a false terminator", "comment containing `->` (or CDATA containing `]>`) with a piece starting right after a '-' / ']' of the same construct"),
 "C03-A": ("comment length guard lost for the split-terminator branches", "`<!-->` or `<!--->` delivered with a chunk boundary before the `->`/`>`: slice-index panic in emit_bang"),
 "C03-B": ("terminal-state transition moved: syntax errors raised after the closing '>' was found are no longer terminal", "`<?>rest`, `<![cdata[x]]>rest`, `<!-x--><a/>`: events keep coming after a syntax error"),
 "C04-A": ("emit_end fast path accepts an end tag that starts with the expected name followed by whitespace", "default config and `</a b>` or `</tag attr=\">\">` closing `<a>`/`<tag>`"),
 "C04-B": ("mismatched end tag no longer pops the element it was compared against", "two open elements of different names, a mismatched end, caller continues, another end tag"),
 "C05-A": ("NamespaceResolver::pop truncates by buffer offset and drops a still-open zero-length `xmlns=\"\"` entry", "element whose last declaration is xmlns=\"\" under a default namespace, a descendant with own declaration ends, then an unprefixed name is resolved"),
 "C05-B": ("skip helpers set pending_pop=true then pop(): an already owed pop swallows the skipped element's scope (ported to the tree after the F9 fix; the original against the F1 fix is patch_against_F1_fix.diff)", "history: Start(X), read a child so the last event is Empty/End, then read_to_end(X), then resolve outside X"),
 "C06-A": ("SimpleSeq constructor always uses the text escaping rule: list items in attributes no longer escape '\"'", "Vec/tuple in an @attribute, an item containing '\"', quote level Partial or Minimal"),
 "C06-B": ("write_wrapped uses the checked into_simple_type_serializer: an element after a text item in a $value list is rejected", "$value sequence where a text item is directly followed by an element with a non-empty primitive payload"),
 "C07-A": ("`continue` after consuming a DOCTYPE during text merging removed", "two DOCTYPEs in a row between two text pieces inside a string field: unreachable!() in read_text"),
 "C07-B": ("parent xsi:nil cached; should_skip_subtree true for any event: skip_next_tree() runs on a Text event", "element with xsi:nil=\"true\" (right namespace) that still has text, deserialized into a struct with `$value: Option<_>`"),
 "C08-A": ("slice read_text: remaining input taken before `*position += self.len()`", "input ending in character data: last Text has an empty span and the final position is short"),
 "C08-B": ("emit_bang Comment guard became `buf[1] == b'-'` (off by one)", "`<!-a-->`: Comment(\"\") returned for a span whose markup differs"),
 "C09-A": ("CDataIterator: `]]>` check guarded by `gt > 2` instead of `>= 2`", "BytesCData::escaped content that begins with `]]>`"),
 "C09-B": ("BytesStart::set_name hand-written overwrite appends the surplus of a longer name at the end of the buffer", "attributes pushed first, then set_name with a strictly longer name"),
 "C10-A": ("partial_escape fast path needle set omits '>'", "string with '>' but no '<' or '&' (e.g. `a > b`, `x]]>y`)"),
 "C10-B": ("parse_number strips every leading 'x' instead of one", "reference with two or more 'x' before hex digits: `&#xx30;` gives a character"),
 "C11-A": ("after Duplicated the resume state uses key_end+1 instead of the '=' offset", "duplicate checking on, repeated key with whitespace before and after its '='"),
 "C11-B": ("skip_value stops only at a literal space", "unquoted value (or duplicate with unquoted value) ended by TAB/CR/LF"),
 "C12-A": ("read_to_end!: error exit uses `?` and no longer restores trim_text_start", "trim_text_start=true and a read_to_end/read_text that fails inside an inner event"),
 "C12-B": ("read_to_end!: names compared through Deref: BytesStart derefs to the whole tag content", "skipped element contains a same-named descendant whose start tag has attributes or whitespace"),
 "C13-A": ("is_xml11_name_char: `'-' | '.' | '0'..='9'` collapsed into `'-'..='9'`, admitting '/'", "root / key / variant name containing '/' after the first character"),
 "C13-B": ("SimpleSeq::new hard-codes QuoteTarget::Text (active quote not escaped in attribute lists)", "xs:list in an attribute with an item containing '\"' at Partial or Minimal level"),
 "C14-A": ("Deserializer::with_resolver (from_reader) also sets trim_text_start", "string value made of several pieces where a later text piece starts with whitespace (CDATA + text, text + comment + text)"),
 "C14-B": ("BangType::parse split branches merged with an index slip: a '>' that is the first byte of a chunk ends CDATA/comment early", "CDATA or comment containing '>' and a piece boundary exactly before it (from_reader only)"),
 "C15-A": ("StartTrimmer drops every whitespace-only Text, not only directly after markup", "whitespace run of a text value isolated between two comments / CDATA sections"),
 "C15-B": ("drain_text pushes continuing CDATA through unescape", "CDATA section that is not the first piece of its text and contains '&'"),
 "C16-A": ("buffered skip_whitespace no longer loops after consuming whitespace", "trim_text_start on a BufRead source with leading whitespace straddling a chunk boundary"),
 "C16-B": ("unmatched end tags bypass trim_markup_names_in_closing_tags", "allow_unmatched_ends + trim_markup_names and a stray end tag with whitespace before '>'"),
 "C17-A": ("Init: a consumed BOM stores BomDetected unconditionally, so Reader::from_str loses its Explicit(UTF-8) lock", "from_str of a string starting with U+FEFF whose declaration names a non-UTF-8 encoding"),
 "C17-B": ("decode() fast path borrows any well-formed UTF-8 as is for ASCII-compatible encodings", "non-UTF-8 declared encoding and a payload with high bytes that happens to be well-formed UTF-8"),
 "C18-A": ("read_with: Interrupted arm merged after `*position += read`: consumed bytes counted twice", "Interrupted at the second or later refill of a tag / PI spanning several buffers"),
 "C18-B": ("read_text: `Err(_) if read > 0 => break`: partial Text, then Eof, the I/O error is never reported", "non-interrupt error at the second or later refill of a text node"),
 "C19-A": ("Text branch: `next_should_line_break = e.is_empty()`", "indenting writer: Text/CData, then an empty Text, then markup: line break glued to the character data"),
 "C19-B": ("Seq::serialize_element: write_indent = !last.is_text() (differs for SensitiveNothing)", "indent on and a $value sequence where a text item is followed by an item that writes nothing (None / empty Vec) and then an element"),
 "C20-A": ("start_replay 'optimisation' pushes skipped events to the front one by one, reversing them", "nested list skips a foreign child while the enclosing list holds a skipped sibling and the item comes from the replay queue"),
 "C20-B": ("skip_event limit check `>=` became `>`", "limit exactly one below the number of events that must be held"),
}
MISSED_FIRST = {"C05-B": "C05 only skipped directly after a Start; histories now also skip the rest of an element after a child event",
                "C07-B": "no target type with `$value: Option<_>` and no xsi:nil on elements with text; added the optional-content family and an attribute-insertion mutation",
                "C16-A": "C16 only ran the slice reader (C02 caught it); C16 now also runs the configured side on a buffered source with 1-byte / random pieces",
                "C17-A": "from_str was only checked without a leading U+FEFF; now also with BOM + declaration",
                "C19-B": "no shape whose $value items write nothing; added MixedOpt / MixedTuple serialize-only shapes to the serde half",
                "C20-A": "children of nested struct items were kept contiguous; added two-level interleavings and the OvlDeep shape"}
MISSED_FIRST.update({
 "C02-C": "Reader::stream() (raw bytes between events) was not exercised; C02/C03 histories now issue raw stream reads (sync and async, partially filled ReadBuf) and compare bytes and positions",
 "C03-D": "same gap as C02-C: raw stream() reads with a re-polled ReadBuf were not driven; added mode ReaderAsyncStream",
 "C09-C": "the async element builder on an indenting writer was not driven; C09 now runs sync and async ElementWriter with new_line on indenting writers",
 "C12-D": "Start events were mapped to model tokens by position and silently skipped on a mismatch (INCONCLUSIVE); they are now mapped by order and a position mismatch is reported",
 "C13-C": "only to_string was driven; C13 now goes through every serializer entry point (to_writer, to_utf8_io_writer, write_serializable) with sinks that stop accepting data, and requires an error when output was cut",
 "C13-D": "map keys never differed only in the number of leading '@'; key pool now has \"@a\", \"@@a\" ... and output attribute names must be unique",
 "C15-C": "unknown blobs never contained a same-named child with attributes; 8 blobs now, incl. same-named nesting with attributes / spacing",
 "C15-D": "no rewrite changed the spacing inside tags and no target had `$value` next to ordinary fields; added the tag_spacing rewrite and the ValuePlus type",
 "C20-C": "no shape had an element containing a same-named child that must be skipped twice; added OvlRec",
})
ROUND3 = {"C01", "C04", "C07", "C08", "C10", "C11", "C16", "C17"}
MISSED_FIRST.update({
 "C01-D": "C01 ignored every empty Text event (left to C16, which did catch this one); C01 now accepts an empty Text only at the exact sites of known finding F6 and reports any other as an invented event",
 "C08-D": "the Writer only ever wrote into a Vec; C08 now writes into a sink that takes 1/2/3/any bytes per write call, and C09 writes every event sequence into short sinks (sync, and async with Pending) and compares with the Vec output",
 "C17-C": "payload generators excluded U+FEFF and the monitor demanded that no event contains it; U+FEFF is now generated as payload content (first/last/inner) where the encoding has it, and only the document's own mark must be removed",
})
MISSED_FIRST.update({
 "C06-F": "no mixed $value list whose element items have text content of their own (struct variant with $text / primitive $value, newtype around a struct); added family type HasMixed2",
 "C09-E": "start tags were always built on an owned buffer; edits (set_name first of all) now also run on start tags that borrow their content, as events from a reader do",
 "C13-E": "name pools had no name with a legal non-ASCII first character followed by an illegal one; added to the key, root and variant pools",
 "C14-E": "no skipped element that declares / re-binds xsi before a sibling with xsi:nil (C05 caught the change through the buffered NsReader); added such atoms and a dedicated mutation to the C07/C14 document mutator",
 "C15-F": "no type with named children and an optional $text, and unknown children were never inserted in their pretty-printed form (whitespace around them); added the o_ content model, type OptTextEl, the unknown_child_spaced rewrite and text-first unknown blobs",
 "C18-F": "events returned after the I/O error were only counted; they are now judged: Eof, or exactly what the fault-free run returns from the failed call on",
 "C20-F": "no shape whose container has text content between the list items; added OvlText (the text is one more sibling of one event)",
})
MISSED_FIRST.update({
 "C04-E": "tag names were always valid UTF-8; random documents now also use names that are not (and differ), so that byte-for-byte comparison matters",
 "C07-F": "no whitespace-only piece of its own next to a DOCTYPE inside a text; added such insertions and fixed regression shapes",
 "C08-E": "no byte that looks like whitespace to is_ascii_whitespace but is not XML whitespace; added form feed / vertical tab / NEL documents to the terminator pool (C01 caught it through a PI target)",
 "C08-F": "the buffered readers' event buffer was cleared before every call; it is now also reused without clearing (C02, C08, C16, C18 traces)",
 "C10-E": "signs were only generated directly behind '&#' / '&#x'; added signs behind leading zeros",
 "C16-E": "C16 never called read_to_end (C12 caught the change); C16 now runs a configuration probe: after every call, also a failing read_to_end, the configuration must be what the caller set",
 "C17-E": "C17 injected no I/O faults (C18 caught the change); C17 now also reads every chunked document with a failing first refill and reads on",
 "C17-F": "the CDATA -> text conversions (escape / partial_escape / minimal_escape) were not called; their unescape() must give the section's string",
})
MISSED_FIRST.update({
 "C01-H": "C01 ran the borrowing reader only (C02 and C16 caught the change); the sampled inputs now also go through the buffering reader in lock-step with the model",
 "C03-G": "skip calls were made only directly after a start tag; they are now also made after texts, end tags, comments ... for any element that is still open",
 "C05-G": "attributes were always separated by one space; tabs, line breaks and spaces around '=' added",
 "C06-G": "maps always reached the serializer through serialize_entry; added a map type that uses serialize_key + serialize_value (type Protocols)",
 "C06-H": "u128 appeared as element content only; added u128 attributes and xs:list items above i128::MAX",
 "C07-H": "all documents were UTF-8; added documents in windows-1251 / koi8-r with element and attribute names outside ASCII (the stall detector pins the hang)",
 "C09-H": "sinks never failed; added a sink that refuses one write call: the events written afterwards must still arrive as their own bytes",
 "C10-G": "the custom resolver answered for five names only; added a resolver that answers for every name (character references stay the library's business)",
 "C10-H": "no long entity names; added names of every byte length up to 80 in ASCII, 2-, 3- and 4-byte characters",
 "C11-G": "with_checks was only called before the iteration; it is now also called (with the same value) between items",
 "C11-H": "attribute iteration was never run on a renamed start tag (C09 caught the change); added the relation 'set_name does not change the attributes'",
 "C12-G": "the enclosing element was never skipped from inside a child (C05 and C07 caught the change); added, with names that are suffixes of each other",
 "C13-G": "no value reached the serializer through collect_str; added the Shown type in attribute, element, text, list and $text-variant positions",
 "C13-H": "the limited sink reported 'full' with an error only; it now also does so by accepting 0 bytes, like &mut [u8]",
 "C15-H": "the harness was always built with quick-xml's overlapped-lists feature, so the other variant of the deserializer's skip code was not even compiled; added the novl layer",
 "C17-G": "for inputs with a byte-order mark the first piece was at least 4 bytes; now also exactly the mark, the mark alone, the mark plus one byte",
 "C17-H": "C17 did not go through the deserializer; added documents with Cyrillic names in four legacy encodings compared with their UTF-8 original",
})
# a change that breaks a neighbouring property's statement in a call the property's own workload does not make
NOT_OWN = {
 "C01-G": "the change is in read_to_end (its failure path does not restore trim_text_start); C01's statement is about read_event. Detected by C12 and C16, whose statements it breaks",
 "C02-G": "the change only shows when the source returns Interrupted; C02's statement has no faults. Detected by C18, whose statement it breaks",
 "C08-G": "the change is in the async reader's stream(); C08's statement is about the borrowing reader. Detected by C02 and C03",
 "C08-H": "the change is in read_to_end's span; C08 does not call it. Detected by C12, whose statement it breaks",
 "C16-H": "the change is in read_to_end called for an ancestor from inside an expanded empty child; C16's probe calls read_to_end for the element just opened. Detected by C12",
}
TITLE7 = {
 "C04-I": "with name checks off, start tags are no longer recorded once 256 elements are open",
 "C04-J": "names in MismatchedEndTag / UnmatchedEndTag are built with from_utf8_lossy instead of the reader's decoder",
}
# round 7: strengthenings that the misses led to
MISSED_FIRST.update({
 "C02-J": "no cut set had pieces of 32 bytes or more inside one attribute value; C02 now adds cut sets with pieces of 8..160 bytes and, for the scale documents, pieces of 31/32/33/64/128/1024/8192 bytes (predicted from the agent's summary and strengthened before the first run)",
 "C03-I": "no DOCTYPE with hundreds of unbalanced '<'; the scale workload (gen::scale_docs: lengths, counts and depths at and around 32..8192) has that kind (strengthened before the first run)",
 "C03-J": "every source had a fixed length; C03 now has a buffered source that reports end of input and delivers more bytes once Eof / a syntax error has been returned (strengthened before the first run)",
 "C04-I": "nesting never went past a few dozen; C04 now runs the deep scale documents under every setting with the name check switched off and on again at several depths (strengthened before the first run)",
 "C06-J": "no type had element names that are prefixes of one another; NamePrefix family type added (t_n list, t_nx, t_nxy list, t_nxyz)",
 "C08-I": "written-back markup never had a delimiter + content length of exactly 118..128 bytes; the scale workload now has every size 108..136 for every kind, and events are written by reference and by value in turn (strengthened before the first run)",
 "C09-I": "the short-write sinks only implemented write(); ShortSink now has a real write_vectored that stops inside any of the buffers (strengthened before the first run)",
 "C09-J": "the element builder was only used at depth 0; it now also runs below 62..129 open elements of an indenting writer, where indent + additional indent crosses 128 bytes (strengthened before the first run)",
 "C11-I": "attribute names were at most 5 bytes; generated lists now repeat keys of 63..130 bytes",
 "C11-J": "CR never stood directly behind an unquoted value or between attributes; separators now include CR and CR LF",
 "C12-J": "only the first event behind a skipped element was compared; now the whole remaining trace of the clone must equal the uncloned run's (open-element stack damage shows at the parent's end tag)",
 "C15-J": "C15 had no document with xsi:nil (the only place where the deserializer looks at namespaces); its base documents now also come with xsi:nil elements for absent optional children, and an unknown child inserted in front of one exposes the change. C05, whose statement (what stays in scope after NsReader::read_to_end) it breaks as well, reports it too",
 "C17-I": "the state-machine probe only had a first declaration that changes the encoding; it now runs every (first label incl. UTF-8 with and without BOM, second label) pair on slice and buffered sources",
 "C17-J": "payloads were at most 5 characters (an attempt at long ones stopped at ~200); now one document in 25 has payloads of 400..1200 characters, and decode_into must agree with decode on every payload",
 "C19-I": "no $text variant that is a tuple stood in a $value list; TextListVar serialize-only shapes added (strengthened before the first run)",
 "C19-J": "no Serialize impl opened a sequence of unknown length without writing an item; NoItems / Filtered (collect_seq over a filtering iterator) shapes added (strengthened before the first run)",
 "C20-G": "not detected in round 6 (no document with namespace prefixes went through the overlapped-lists code); C20 now also interleaves hand-written presentations of the contiguous document: prefixed names, xsi:nil elements, unknown children and attributes, comments, CDATA (accepted when the decorated contiguous form still gives the value)",
 "C20-H": "not detected in round 6 (no xsi:nil element was ever buffered); same strengthening as C20-G, plus the wrapped shapes that declare the xsi prefix on an ancestor (on the container itself the unchanged tree already fails: known finding F12)",
 "C20-J": "no container was a map or a struct with a flattened member; WrapOvlFlat and WrapOvlMap shapes added (strengthened before the first run)",
})
MISSED_FIRST.update({
 "C06-L": "no type had a struct variant with a $value list of its own inside a $value list; recursive Tree family type added (predicted from the agent's summary, strengthened before the first run)",
 "C07-K": "C07 never set an event buffer limit; a quarter of its from_str calls now go through a Deserializer with event_buffer_size 1..=12 (strengthened before the first run; C20 reports the change too)",
 "C14-K": "no document spelled a boolean as 1 / 0; the token mutator now also replaces a text by another spelling of the same value (1/0/True, sign, leading zero, exponent, blanks, NBSP) (strengthened before the first run)",
 "C15-K": "no check used a deserializer with a custom EntityResolver; C15 now rewrites base documents in which a piece of a text is a reference to a DOCTYPE-declared entity and judges them through Deserializer::from_str_with_resolver / with_resolver (strengthened before the first run)",
})
MISSED_FIRST.update({
 "C03-N": "no check read through the synchronous Read side of Reader::stream(); C03 mode reader.sync_with_stream_reads added: read into buffers larger than what is left, read_exact that cannot be satisfied, read_to_end, between events; the position must advance by exactly the bytes obtained and never pass the input length (predicted from the agent's summary, strengthened before the first run)",
 "C04-N": "no check looked at stream() between the two events of an expanded empty element; C04 histories (and C16's configured runs) now look at stream() without reading after some of their calls (strengthened before the first run)",
 "C05-N": "the scope was compared with the model only at start, empty and end events; it is now also compared while the reader stands on a text, comment, PI, ... or Eof (strengthened before the first run)",
 "C12-N": "no skipped element had content that begins with U+FEFF; pool documents added (strengthened before the first run)",
 "C16-M": "no text ended in a form feed; form feed, vertical tab, NEL and U+2028 are now text bits of the shared document grammar (strengthened before the first run)",
 "C02-M": "no text began with a form feed under trim_text_start on a buffered source; same grammar extension as C16-M (strengthened before the first run)",
})
MISSED_FIRST.update({
 "C18-N": "missed at the first run: C18 always emptied the caller's event buffer before a call; every third faulted run is now repeated with a buffer that is not cleared between calls and must give the same trace (events, errors, positions)",
})
NOT_OWN.update({
 "C01-N": "the change is in read_to_end (its failure path does not restore trim_text_start), like C01-G; C01's statement is about read_event. C12 and C16, whose statements it breaks, report it",
 "C08-M": "the change is in the synchronous Read side of Reader::stream() (a read_exact that cannot be satisfied leaves the position behind); C08 speaks about the events of the borrowing reader. Missed by every check at the first run; C03's new raw-read mode now requires the position at Eof to be the input length and reports it",
 "C06-K": "the change only affects a `char` list item that is a blank; list items with whitespace are outside C06's round-trip domain (documented: list items never contain whitespace), so C06 does not generate them. C13, whose statement (no payload can change the structure; the payload found at a list-item slot is the one put there) it breaks, reports it",
})
OBSOLETE = {
 "C15-I": "confirmed and detected by C15 on the tree it was written for (53ee924); it only made the defective Content::Owned arm of ListIter reachable, and that arm was repaired as F13 (5256764): on the repaired tree the change is harmless (its own demo passes with it, CONFIRM-on-repaired-tree-5256764.txt)",
 "C15-F": "round 4, detected by C15 on the trees up to 5256764. The change drops the `continue` for a text that trimming made empty, arguing that whitespace after markup is already dropped by the start trimmer; that was false after a skipped element, which is what its demo used. The repair F14 (5c98377) makes the argument true, so on the current tree the change is harmless (its own demo passes with it, CONFIRM-on-repaired-tree-5c98377.txt)",
 "C14-D": "round 2, detected by C14 on the trees up to 5256764: it added a start-trimmer reset to IoReader::read_to_end only. The repair F14 (5c98377) adds that reset to both readers, so the patch no longer applies and the difference it created cannot exist any more",
 "C14-J": "written against 5256764: it added the start-trimmer reset to IoReader::read_to_end only. The repair F14 (5c98377) adds that reset to both readers, so the patch no longer applies and the difference it created cannot exist; detected by C14 on the tree it was written for",
}
# rounds two to seven: change / needs are taken from the agent's NOTES.md
def from_notes(d):
    t = open(d + '/NOTES.md').read()
    title = t.split('\n', 1)[0].lstrip('# ').strip()
    title = re.sub(r'^(Seed [AB] \(C\d\d(, [^)]*)?\)|C\d\d */ *seed [AB]|Seed [AB])\s*[-—:]+\s*', '', title)
    title = re.sub(r'^(Seed(ed change)? [AB] \(C\d\d(, [^)]*)?\)|C\d\d */ *(seed )?[AB]|Seed(ed change)? [AB]( \(property C\d\d\))?)\s*[-—:]*\s*', '', title)
    title = re.sub(r'^[AB] — ', '', title)
    m = re.search(r'## What is needed[^\n]*\n(.*?)(\n## |\Z)', t, re.S)
    needs = re.sub(r'\s+', ' ', m.group(1)).strip()[:600] if m else ''
    return title, needs
for d in sorted(os.listdir('/verif/seeded')):
    if re.fullmatch(r'C\d\d-[C-N]', d):
        S[d] = from_notes('/verif/seeded/' + d)
        if d in TITLE7:
            S[d] = (TITLE7[d], S[d][1])
res = {}
if os.path.exists('/verif/seeded/RESULTS.txt'):
    for l in open('/verif/seeded/RESULTS.txt'):
        m = re.match(r'(C\d\d-[A-N])(?:/patch.diff)? (C\d\d) exit=(\d+)(.*)', l)
        if m:
            res.setdefault(m.group(1), []).append({"check": m.group(2), "exit": int(m.group(3)), "first_detail": m.group(4).strip()[:240]})
for k, (change, needs) in S.items():
    d = '/verif/seeded/' + k
    conf = open(d + '/CONFIRM.txt').read().strip().split('\n') if os.path.exists(d + '/CONFIRM.txt') else []
    meta = {
        "property": k[:3], "variant": k[4:], "round": 9 if k[4:] in "MN" else 8 if k[4:] in "KL" else 7 if k[4:] in "IJ" else 6 if k[4:] in "GH" else (5 if k[:3] in ROUND3 else 4) if k[4:] in "EF" else (3 if k[:3] in ROUND3 else 2) if k[4:] in "CD" else 1, "written_by": "fresh sub-agent given only the property text and a scratch worktree (nothing from /verif)",
        "change": change, "needs_to_manifest": needs,
        "confirmed_by_me": {"how": "tools/confirm_seed.sh in the scratch worktree: patch applies; default-feature suite passes with it (all-features too where ALLFEAT=1); demo fails with it; demo passes without it", "log": conf},
        "checks_run_against_it": res.get(k, []),
        "detected": any(r["exit"] == 1 for r in res.get(k, [])),
    }
    if os.path.exists(d + "/patch_against_F1_fix.diff") or os.path.exists(d + "/patch_against_4312626.diff"):
        meta["ported"] = "patch.diff is the same change ported to the tree after fix 02ce051 (F9) and re-confirmed there; patch_against_F1_fix.diff is the agent's original"
    own = [r for r in res.get(k, []) if r["check"] == k[:3]]
    meta["detected_by_own_property"] = any(r["exit"] == 1 for r in own)
    if k in NOT_OWN:
        meta["not_detected_by_own_property"] = NOT_OWN[k]
    if k in MISSED_FIRST:
        meta["missed_at_first"] = MISSED_FIRST[k]
    if k in OBSOLETE:
        meta["obsolete_on_current_tree"] = OBSOLETE[k]
    json.dump(meta, open(d + '/meta.json', 'w'), indent=1)
print(len(S), "meta files;", sum(1 for k in S if any(r['exit']==1 for r in res.get(k, []))), "detected")
