#!/bin/bash
# runs every calibration mutant against the checks expected to catch it; output: selftest/mutants/RESULTS.txt
cd /verif
: > selftest/mutants/RESULTS.txt
while read -r name props; do
    tools/mutest.sh selftest/mutants/$name.diff $props >> selftest/mutants/RESULTS.txt 2>&1
done < selftest/mutants/EXPECTED.txt
echo DONE >> selftest/mutants/RESULTS.txt
