#!/usr/bin/env python3
"""Regenerates the table of section 10 of DESIGN.md (between the SEED-TABLE markers) from seeded/*/meta.json."""
import json, os, re
rows = []
for d in sorted(os.listdir('/verif/seeded')):
    mp = '/verif/seeded/%s/meta.json' % d
    if not os.path.exists(mp):
        continue
    m = json.load(open(mp))
    caught = [r["check"] for r in m["checks_run_against_it"] if r["exit"] == 1]
    notcaught = [r["check"] for r in m["checks_run_against_it"] if r["exit"] != 1]
    note = "missed at first: " + m["missed_at_first"] if "missed_at_first" in m else "caught at first run"
    if "not_detected_by_own_property" in m:
        note = "not by the check of its own property: " + m["not_detected_by_own_property"]
    if notcaught:
        note += "; also tried without detection (not the seed's own property): " + ", ".join(notcaught)
    if "ported" in m:
        note += "; ported to the tree after F9"
    if "obsolete_on_current_tree" in m:
        note = "obsolete on the current tree: " + m["obsolete_on_current_tree"]
    esc = lambda t: t.replace('|', '\\|').replace('\n', ' ')
    rows.append("| %s | %s | %s | %s | %s |" % (d, esc(m["change"]), esc(m["needs_to_manifest"][:420]), ", ".join(caught) or "—", esc(note)))
table = "| seed | change | needs to manifest | caught by | note |\n|---|---|---|---|---|\n" + "\n".join(rows) + "\n"
p = '/verif/DESIGN.md'
s = open(p).read()
a, b = "<!-- SEED-TABLE-BEGIN -->\n", "<!-- SEED-TABLE-END -->\n"
if a in s:
    s = s[:s.index(a) + len(a)] + table + s[s.index(b):]
else:
    i = s.index("| seed | change | needs to manifest | caught by | note |")
    j = s.index("\nObservations from the misses")
    s = s[:i] + a + table + b + s[j:]
open(p, 'w').write(s)
print(len(rows), "rows")
