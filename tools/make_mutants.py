#!/usr/bin/env python3
"""Generates the harness's own calibration mutants (selftest/mutants/*.diff) from textual replacements
against /repo's HEAD. Each entry: name, file, old, new, properties expected to catch it."""
import subprocess, os, sys
M = [
 ("r01_comment_len", "src/reader/mod.rs", "if buf.len() + i > 4 {", "if buf.len() + i > 3 {", "C01"),
 ("r02_doctype_balance", "src/reader/mod.rs", "                        *balance -= 1;\n", "", "C01"),
 ("r03_split_comment_1", "src/reader/mod.rs", "if i == 1 && buf.ends_with(b\"-\") && chunk[0] == b'-' {", "if i == 1 && buf.ends_with(b\"--\") && chunk[0] == b'-' {", "C02"),
 ("r04_split_cdata_2", "src/reader/mod.rs", "if i == 0 && buf.ends_with(b\"]]\") {", "if i == 0 && buf.ends_with(b\"]]]\") {", "C02"),
 ("r05_text_markup_first", "src/reader/buffered_reader.rs", "Some(0) if read == 0 => {", "Some(0) => {", "C02"),
 ("r06_interrupt_skipws", "src/reader/buffered_reader.rs", """                            Ok(())
                        }
                    }
                    Err(ref e) if e.kind() == io::ErrorKind::Interrupted => continue,""", """                            Ok(())
                        }
                    }""", "C18"),
 ("r07_interrupt_peek", "src/reader/buffered_reader.rs", """                    Ok(n) => Ok(n.first().cloned()),
                    Err(ref e) if e.kind() == io::ErrorKind::Interrupted => continue,""", """                    Ok(n) => Ok(n.first().cloned()),""", "C18"),
 ("r08_io_error_swallowed", "src/reader/buffered_reader.rs", """                    Err(e) => {
                        *position += read;
                        return ReadTextResult::Err(e);
                    }""", """                    Err(_) => break,""", "C18"),
 ("r09_restore_trim_on_err", "src/reader/mod.rs", """                Err(e) => {
                    $self.config_mut().trim_text_start = trim;
                    return Err(e);
                }""", """                Err(e) => {
                    return Err(e);
                }""", "C12"),
 ("r10_span_after_end", "src/reader/mod.rs", """                    if depth == 0 {
                        $self.config_mut().trim_text_start = trim;
                        break start..end;""", """                    if depth == 0 {
                        $self.config_mut().trim_text_start = trim;
                        break start..$self.buffer_position();""", "C12"),
 ("r11_expand_payload", "src/reader/state.rs", """                self.opened_buffer.extend(event.name().as_ref());
                Event::Start(event)
            } else {
                Event::Empty(event)""", """                self.opened_buffer.extend(event.local_name().as_ref());
                Event::Start(event)
            } else {
                Event::Empty(event)""", "C16 C04"),
 ("r12_decl_xmlx", "src/reader/state.rs", "if content.starts_with(b\"xml\") && (len == 3 || is_whitespace(content[3])) {", "if content.starts_with(b\"xml\") && (len == 3 || !content[3].is_ascii_alphanumeric()) {", "C01"),
 ("r13_trim_names_all_ws", "src/reader/state.rs", """            } else {
                content
            }
        } else {
            content
        };""", """            } else {
                &content[..0]
            }
        } else {
            content
        };""", "C01 C16"),
 ("r14_eof_not_sticky_after_illformed", "src/reader/mod.rs", "            Err(Error::IllFormed(_)) => {}\n            Err(_) | Ok(Event::Eof) => $self.state.state = ParseState::Done,", "            Err(Error::IllFormed(_)) => {}\n            Err(Error::Syntax(SyntaxError::UnclosedTag)) => {}\n            Err(_) | Ok(Event::Eof) => $self.state.state = ParseState::Done,", "C03 C01"),
 ("a01_unquoted_recover", "src/events/attributes.rs", "                self.state = State::SkipValue(s);\n                return Some(Err(AttrError::UnquotedValue(s)));", "                self.state = State::Next(s);\n                return Some(Err(AttrError::UnquotedValue(s)));", "C11"),
 ("a02_dup_check_html_keyonly", "src/events/attributes.rs", "            self.check_for_duplicates(slice, key).map(Attr::Empty)", "            Ok(Attr::Empty(key))", "C11"),
 ("e01_zero_charref", "src/escape.rs", "    if code == 0 {\n        return Err(ParseCharRefError::IllegalCharacter(code));\n    }", "", "C10"),
 ("e02_sign", "src/escape.rs", "        Some(b'+') | Some(b'-') => Err(ParseCharRefError::UnexpectedSign),", "        Some(b'-') => Err(ParseCharRefError::UnexpectedSign),", "C10"),
 ("w01_indent_after_cdata", "src/writer.rs", """            Event::CData(e) => {
                next_should_line_break = false;
                self.write(b"<![CDATA[")?;""", """            Event::CData(e) => {
                self.write(b"<![CDATA[")?;""", "C19"),
 ("w02_async_comment", "src/writer/async_tokio.rs", "Event::Comment(e) => self.write_wrapped_async(b\"<!--\", &e, b\"-->\").await,", "Event::Comment(e) => self.write_wrapped_async(b\"<!--\", &e, b\"->\").await,", "C09 C19"),
 ("w03_set_name_len", "src/events/mod.rs", "        bytes.splice(..self.name_len, name.iter().cloned());\n        self.name_len = name.len();", "        bytes.splice(..self.name_len, name.iter().cloned());", "C09"),
 ("w04_cdata_split", "src/events/mod.rs", "                let (slice, rest) = self.unprocessed.split_at(gt);", "                let (slice, rest) = self.unprocessed.split_at(gt + 1);", "C09"),
 ("n01_pop_level", "src/name.rs", "match self.bindings.iter().rposition(|n| n.level <= current_level) {", "match self.bindings.iter().rposition(|n| n.level < current_level) {", "C05"),
 ("n02_prefixiter_override", "src/name.rs", """            if self.resolver.bindings[self.bindings_cursor..]
                .iter()
                .any(|ne| prefix == ne.prefix(&self.resolver.buffer))
            {
                continue; // Overridden
            }""", "", "C05"),
 ("s01_minimal_quote", "src/se/simple_type.rs", None, None, "C13 C06"),
 ("d01_limit_off_by_one", "src/de/mod.rs", "            if self.write.len() >= max.get() {", "            if self.write.len() > max.get() {", "C20"),
 ("d02_replay_order", "src/de/mod.rs", """            let mut read = self.write.split_off(checkpoint);
            read.append(&mut self.read);
            self.read = read;""", """            let mut read = self.write.split_off(checkpoint);
            self.read.append(&mut read);""", "C20"),
 ("d03_trim_every_piece", "src/de/mod.rs", """                PayloadEvent::Text(mut e) => {
                    if self.current_event_is_last_text() {
                        // FIXME: Actually, we should trim after decoding text, but now we trim before
                        e.inplace_trim_end();
                    }""", """                PayloadEvent::Text(mut e) => {
                    {
                        // FIXME: Actually, we should trim after decoding text, but now we trim before
                        e.inplace_trim_end();
                    }""", "C15"),
 ("d04_ioreader_buf", "src/de/mod.rs", None, None, "C14"),
 ("x01_decode_with_replacement", "src/encoding.rs", """    encoding
        .decode_without_bom_handling_and_without_replacement(bytes)
        .ok_or(EncodingError::Other(encoding))""", """    Ok(encoding.decode_without_bom_handling(bytes).0)""", "C17"),
 ("s01_stream_consume_offset", "src/reader/mod.rs", "        self.inner.consume(amt);\n        *self.offset += amt as u64;\n", "        self.inner.consume(amt);\n", "C02"),
 ("s02_async_stream_consume_offset", "src/reader/async_tokio.rs", "        this.inner.consume(amt);\n        *this.offset += amt as u64;\n", "        this.inner.consume(amt);\n", "C02 C03"),
 ("w05_write_indent_no_newline", "src/writer.rs", "        if let Some(ref i) = self.indent {\n            self.writer.write_all(b\"\\n\")?;\n            self.writer.write_all(i.current())?;\n        }\n        Ok(())\n    }\n\n    /// Write an arbitrary serializable type", "        if let Some(ref i) = self.indent {\n            self.writer.write_all(i.current())?;\n        }\n        Ok(())\n    }\n\n    /// Write an arbitrary serializable type", "C19"),
 ("w07_write_serializable_root", "src/writer.rs", "Serializer::with_root(&mut fmt, Some(tag_name))?;", "Serializer::with_root(&mut fmt, None)?;", "C13"),
 ("x02_refine_xml_detected", "src/reader/mod.rs", "            Self::Implicit(_) | Self::BomDetected(_) => true,\n            Self::Explicit(_) | Self::XmlDetected(_) => false,", "            Self::Implicit(_) | Self::BomDetected(_) | Self::XmlDetected(_) => true,\n            Self::Explicit(_) => false,", "C17"),
]
os.makedirs('/verif/selftest/mutants', exist_ok=True)
table = []
for name, f, old, new, props in M:
    if old is None:
        continue
    path = os.path.join('/repo', f)
    src = open(path).read()
    if src.count(old) != 1:
        print("SKIP", name, "old text occurs", src.count(old), "times")
        continue
    open(path, 'w').write(src.replace(old, new))
    d = subprocess.run(['git', '-C', '/repo', 'diff'], capture_output=True, text=True).stdout
    subprocess.run(['git', '-C', '/repo', 'checkout', '--', '.'])
    open('/verif/selftest/mutants/%s.diff' % name, 'w').write(d)
    table.append((name, props))
open('/verif/selftest/mutants/EXPECTED.txt', 'w').write(''.join('%s %s\n' % t for t in table))
print(len(table), 'mutants written')
