use serde::Deserialize;
#[derive(Debug, Deserialize, PartialEq)]
struct A {
    #[serde(rename = "@l")]
    l: Vec<String>,
    #[serde(rename = "$text", default)]
    t: Vec<String>,
}
fn main() {
    let utf8 = "<?xml version=\"1.0\" encoding=\"windows-1251\"?><a l=\"альфа бета гамма дельта\">раз два три четыре</a>";
    let plain = "<a l=\"альфа бета гамма дельта\">раз два три четыре</a>";
    let r0: Result<A, _> = quick_xml::de::from_str(plain);
    println!("utf8 from_str: {:?}", r0);
    let (bytes, _, _) = encoding_rs::WINDOWS_1251.encode(utf8);
    let r: Result<A, _> = quick_xml::de::from_reader(&bytes[..]);
    println!("cp1251 from_reader: {:?}", r);
}
