use serde::{Deserialize, Serialize};
#[derive(Serialize, Deserialize, Debug, PartialEq)]
#[serde(rename = "r")]
struct ListText {
    #[serde(default)]
    item: Vec<String>,
    #[serde(rename = "$text", default)]
    t: String,
}
#[derive(Serialize, Deserialize, Debug, PartialEq)]
#[serde(rename = "r")]
struct TextList2 {
    #[serde(rename = "$text", default)]
    t: String,
    #[serde(default)]
    item: Vec<String>,
}
#[derive(Serialize, Deserialize, Debug, PartialEq)]
#[serde(rename = "r")]
struct ListNumText {
    #[serde(default)]
    item: Vec<u32>,
    #[serde(rename = "$text", default)]
    t: String,
}
#[derive(Serialize, Deserialize, Debug, PartialEq)]
#[serde(rename = "r")]
struct ElemText {
    a: String,
    #[serde(rename = "$text", default)]
    t: String,
}
fn main() {
    let v = ListText { item: vec!["a".into(), "b".into()], t: "tail".into() };
    let x = quick_xml::se::to_string(&v).unwrap();
    println!("{} -> {:?}", x, quick_xml::de::from_str::<ListText>(&x));
    let v = TextList2 { t: "head".into(), item: vec!["a".into(), "b".into()] };
    let x = quick_xml::se::to_string(&v).unwrap();
    println!("{} -> {:?}", x, quick_xml::de::from_str::<TextList2>(&x));
    let v = ListNumText { item: vec![1, 2], t: "tail".into() };
    let x = quick_xml::se::to_string(&v).unwrap();
    println!("{} -> {:?}", x, quick_xml::de::from_str::<ListNumText>(&x));
    let v = ElemText { a: "x".into(), t: "tail".into() };
    let x = quick_xml::se::to_string(&v).unwrap();
    println!("{} -> {:?}", x, quick_xml::de::from_str::<ElemText>(&x));
}
