#![no_main]
//! libFuzzer target: the c07 monitor as fuzz body. A discrepancy or a panic inside quick-xml aborts the
//! process; libFuzzer saves the input, which ./check replays through the same oracle.
use libfuzzer_sys::fuzz_target;

fuzz_target!(|data: &[u8]| {
    if let Err(d) = qxverif::monitors::c07::fuzz_entry(data) {
        eprintln!("QXVERIF-VIOLATION {}", d);
        std::process::abort();
    }
});
