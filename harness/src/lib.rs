//! qxverif — runtime monitors for the quick-xml properties C01..C20 (library part, shared by
//! the `qxcheck` binary and the libFuzzer targets under fuzz/).

pub mod ctx;
pub mod family;
pub mod gen;
pub mod monitors;
pub mod obs;
pub mod refmodel;
pub mod rng;
pub mod runner;
pub mod sources;

pub fn verif_root() -> String {
    std::env::var("VERIF_ROOT").unwrap_or_else(|_| "/verif".to_string())
}
pub fn repo_root() -> String {
    std::env::var("QX_REPO").unwrap_or_else(|_| "/repo".to_string())
}
