//! The serde value family: derive(Serialize, Deserialize) types covering every row of
//! the documented XML<->Rust mapping, value generators, and type-erased operations.
//!
//! Element naming convention (used by the C15 rewriter as its site table):
//!   s_*  element whose content is element-only and whose type ignores unknown children/attributes (struct)
//!   k_*  element-only content where every child is data (map): whitespace/comments may be added, unknown children may not
//!   x_*  struct element with attributes and text-only content ($text)
//!   t_*  leaf element with text-only content (primitive / string)
//!   m_*  element with mixed content ($value list with text items): nothing may be added between children except comments/PIs
//!   u_*  element without content (unit / unit variant)

use crate::rng::Rng;
use crate::sources::ChunkedRead;
use quick_xml::de::Deserializer;
use quick_xml::se::{QuoteLevel, Serializer};
use quick_xml::DeError;
use serde::de::DeserializeOwned;
use serde::{Deserialize, Serialize};
use std::any::Any;
use std::collections::BTreeMap;
use std::fmt::Debug;
use std::num::NonZeroUsize;

// ---------------------------------------------------------------------------
// serializer configuration
// ---------------------------------------------------------------------------

#[derive(Clone, Debug, PartialEq)]
pub struct SerCfg {
    /// 0 Full, 1 Partial, 2 Minimal
    pub level: u8,
    pub indent: Option<(char, usize)>,
    pub expand: bool,
    pub root: Option<String>,
}
impl SerCfg {
    pub fn plain() -> Self {
        SerCfg {
            level: 1,
            indent: None,
            expand: false,
            root: None,
        }
    }
    pub fn to_json(&self) -> serde_json::Value {
        serde_json::json!({"level": self.level, "indent": self.indent.map(|(c, n)| (c.to_string(), n)), "expand": self.expand, "root": self.root})
    }
    pub fn from_json(v: &serde_json::Value) -> Self {
        SerCfg {
            level: v["level"].as_u64().unwrap_or(1) as u8,
            indent: v["indent"].as_array().map(|a| (a[0].as_str().unwrap_or(" ").chars().next().unwrap_or(' '), a[1].as_u64().unwrap_or(2) as usize)),
            expand: v["expand"].as_bool().unwrap_or(false),
            root: v["root"].as_str().map(|s| s.to_string()),
        }
    }
    /// all 36 combinations: 3 quote levels x indent {none, 2 spaces, 1 tab} x expand x root {type name, renamed}
    pub fn all() -> Vec<SerCfg> {
        let mut v = Vec::new();
        for level in 0..3u8 {
            for indent in [None, Some((' ', 2usize)), Some(('\t', 1usize))] {
                for expand in [false, true] {
                    for root in [None, Some("s_renamed".to_string())] {
                        v.push(SerCfg {
                            level,
                            indent,
                            expand,
                            root,
                        });
                    }
                }
            }
        }
        v
    }
}

pub fn ser_with<T: Serialize + ?Sized>(v: &T, cfg: &SerCfg) -> Result<String, String> {
    let mut out = String::new();
    {
        let mut s = Serializer::with_root(&mut out, cfg.root.as_deref()).map_err(|e| e.to_string())?;
        s.set_quote_level(match cfg.level {
            0 => QuoteLevel::Full,
            1 => QuoteLevel::Partial,
            _ => QuoteLevel::Minimal,
        });
        if let Some((c, n)) = cfg.indent {
            s.indent(c, n);
        }
        s.expand_empty_elements(cfg.expand);
        v.serialize(s).map_err(|e| e.to_string())?;
    }
    Ok(out)
}

// ---------------------------------------------------------------------------
// type-erased values and operations
// ---------------------------------------------------------------------------

pub trait Val: Any {
    fn ser(&self, cfg: &SerCfg) -> Result<String, String>;
    /// the other entry points of the serializer
    fn se_to_string(&self) -> Result<String, String>;
    fn se_to_writer(&self) -> Result<String, String>;
    fn se_to_io(&self, sink: &mut dyn std::io::Write) -> Result<(), String>;
    /// `Writer::write_serializable(tag, self)`, optionally inside an open element `<o_outer>` of an
    /// indenting writer; returns everything the writer received
    fn se_write_serializable(&self, tag: &str, indent: Option<(u8, usize)>, nested: bool) -> Result<String, String>;
    fn eq_val(&self, other: &dyn Val) -> bool;
    fn dbg(&self) -> String;
    fn as_any(&self) -> &dyn Any;
}
impl<T: Serialize + PartialEq + Debug + 'static> Val for T {
    fn ser(&self, cfg: &SerCfg) -> Result<String, String> {
        ser_with(self, cfg)
    }
    fn se_to_string(&self) -> Result<String, String> {
        quick_xml::se::to_string(self).map_err(|e| e.to_string())
    }
    fn se_to_writer(&self) -> Result<String, String> {
        let mut s = String::new();
        quick_xml::se::to_writer(&mut s, self).map(|_| s).map_err(|e| e.to_string())
    }
    fn se_to_io(&self, sink: &mut dyn std::io::Write) -> Result<(), String> {
        quick_xml::se::to_utf8_io_writer(sink, self).map(|_| ()).map_err(|e| e.to_string())
    }
    fn se_write_serializable(&self, tag: &str, indent: Option<(u8, usize)>, nested: bool) -> Result<String, String> {
        use quick_xml::events::{BytesEnd, BytesStart, Event};
        let mut w = match indent {
            None => quick_xml::Writer::new(Vec::new()),
            Some((c, n)) => quick_xml::Writer::new_with_indent(Vec::new(), c, n),
        };
        if nested {
            w.write_event(Event::Start(BytesStart::new("o_outer"))).map_err(|e| e.to_string())?;
        }
        w.write_serializable(tag, self).map_err(|e| e.to_string())?;
        if nested {
            w.write_event(Event::End(BytesEnd::new("o_outer"))).map_err(|e| e.to_string())?;
        }
        String::from_utf8(w.into_inner()).map_err(|e| e.to_string())
    }
    fn eq_val(&self, other: &dyn Val) -> bool {
        other.as_any().downcast_ref::<T>().map_or(false, |o| o == self)
    }
    fn dbg(&self) -> String {
        let s = format!("{:?}", self);
        if s.len() > 600 {
            format!("{}…", s.chars().take(600).collect::<String>())
        } else {
            s
        }
    }
    fn as_any(&self) -> &dyn Any {
        self
    }
}

#[derive(Clone, Debug, PartialEq)]
pub struct DeErr {
    pub kind: &'static str,
    pub msg: String,
}
fn de_err(e: DeError) -> DeErr {
    let kind = match &e {
        DeError::Custom(_) => "Custom",
        DeError::InvalidXml(_) => "InvalidXml",
        DeError::KeyNotRead => "KeyNotRead",
        DeError::UnexpectedStart(_) => "UnexpectedStart",
        DeError::UnexpectedEof => "UnexpectedEof",
        #[cfg(feature = "ovl")]
        DeError::TooManyEvents(_) => "TooManyEvents",
    };
    DeErr {
        kind,
        msg: e.to_string().chars().take(300).collect(),
    }
}

pub type DeResult = Result<Box<dyn Val>, DeErr>;

pub struct TypeOps {
    pub name: &'static str,
    /// generates a value of the round-trippable domain
    pub gen: Option<fn(&mut Rng) -> Box<dyn Val>>,
    pub de_str: fn(&str, Option<usize>) -> DeResult,
    pub de_reader: fn(ChunkedRead) -> DeResult,
    /// `n` values in a row from ONE `Deserializer::from_str` / `Deserializer::from_reader`
    pub de_str_many: fn(&str, usize) -> Vec<DeResult>,
    pub de_reader_many: fn(ChunkedRead, usize) -> Vec<DeResult>,
    /// `Deserializer::from_str_with_resolver` / `Deserializer::with_resolver` (bool = reader) with a resolver that
    /// knows the predefined entities and the ones a DOCTYPE declares
    pub de_resolver: fn(&str, bool) -> DeResult,
    /// which documented mapping rows this type exercises
    pub rows: &'static [&'static str],
}

fn de_str_impl<T: DeserializeOwned + Val>(s: &str, limit: Option<usize>) -> DeResult {
    let l = match limit {
        // the plain entry point
        None => return quick_xml::de::from_str::<T>(s).map(|v| Box::new(v) as Box<dyn Val>).map_err(de_err),
        Some(l) => l,
    };
    let mut de = Deserializer::from_str(s);
    #[cfg(feature = "ovl")]
    de.event_buffer_size(NonZeroUsize::new(l));
    #[cfg(not(feature = "ovl"))]
    let _ = (l, NonZeroUsize::new(1));
    T::deserialize(&mut de).map(|v| Box::new(v) as Box<dyn Val>).map_err(de_err)
}
/// `n & 0xFF` values in a row from one deserializer, stopping at the first error (what happens to a
/// deserializer that is used again after it returned an error is not stated anywhere) unless bit
/// 0x100 of `n` is set
/// An entity resolver as the crate's documentation sketches it: `<!ENTITY name "value">` declarations of every
/// DOCTYPE are captured, predefined entities are known from the start.
#[derive(Default)]
pub struct DtdResolver(pub BTreeMap<String, String>);
#[derive(Debug)]
pub struct DtdError;
impl std::fmt::Display for DtdError {
    fn fmt(&self, f: &mut std::fmt::Formatter) -> std::fmt::Result {
        f.write_str("bad DTD")
    }
}
impl std::error::Error for DtdError {}
impl quick_xml::de::EntityResolver for DtdResolver {
    type Error = DtdError;
    fn capture(&mut self, doctype: quick_xml::events::BytesText) -> Result<(), DtdError> {
        let t = String::from_utf8_lossy(&doctype).into_owned();
        let mut rest = t.as_str();
        while let Some(i) = rest.find("<!ENTITY") {
            rest = &rest[i + 8..];
            let r2 = rest.trim_start();
            let name_end = r2.find(|c: char| c.is_whitespace()).ok_or(DtdError)?;
            let name = &r2[..name_end];
            let r3 = r2[name_end..].trim_start();
            let q = r3.chars().next().ok_or(DtdError)?;
            if q != '"' && q != '\'' {
                return Err(DtdError);
            }
            let end = r3[1..].find(q).ok_or(DtdError)?;
            self.0.insert(name.to_string(), r3[1..1 + end].to_string());
            rest = &r3[1 + end..];
        }
        Ok(())
    }
    fn resolve(&self, entity: &str) -> Option<&str> {
        match entity {
            "lt" => Some("<"),
            "gt" => Some(">"),
            "amp" => Some("&"),
            "apos" => Some("'"),
            "quot" => Some("\""),
            _ => self.0.get(entity).map(|s| s.as_str()),
        }
    }
}
fn de_resolver_impl<T: DeserializeOwned + Val>(s: &str, reader: bool) -> DeResult {
    if reader {
        let mut de = Deserializer::with_resolver(ChunkedRead::new(s.as_bytes(), crate::sources::cuts_for_piece(s.len(), 3, 0)), DtdResolver::default());
        T::deserialize(&mut de).map(|v| Box::new(v) as Box<dyn Val>).map_err(de_err)
    } else {
        let mut de = Deserializer::from_str_with_resolver(s, DtdResolver::default());
        T::deserialize(&mut de).map(|v| Box::new(v) as Box<dyn Val>).map_err(de_err)
    }
}
fn de_str_many_impl<T: DeserializeOwned + Val>(s: &str, n: usize) -> Vec<DeResult> {
    let mut de = Deserializer::from_str(s);
    let mut out = Vec::new();
    for _ in 0..(n & 0xFF) {
        let r = T::deserialize(&mut de).map(|v| Box::new(v) as Box<dyn Val>).map_err(de_err);
        let stop = r.is_err() && n & 0x100 == 0;
        out.push(r);
        if stop {
            break;
        }
    }
    out
}
fn de_reader_many_impl<T: DeserializeOwned + Val>(r: ChunkedRead, n: usize) -> Vec<DeResult> {
    let mut de = Deserializer::from_reader(r);
    let mut out = Vec::new();
    for _ in 0..(n & 0xFF) {
        let r = T::deserialize(&mut de).map(|v| Box::new(v) as Box<dyn Val>).map_err(de_err);
        let stop = r.is_err() && n & 0x100 == 0;
        out.push(r);
        if stop {
            break;
        }
    }
    out
}
fn de_reader_impl<T: DeserializeOwned + Val>(r: ChunkedRead) -> DeResult {
    quick_xml::de::from_reader::<_, T>(r).map(|v| Box::new(v) as Box<dyn Val>).map_err(de_err)
}

macro_rules! ops {
    ($t:ty, $name:expr, gen = $gen:expr, rows = $rows:expr) => {
        TypeOps {
            name: $name,
            gen: Some(|r: &mut Rng| -> Box<dyn Val> {
                let f: fn(&mut Rng) -> $t = $gen;
                Box::new(f(r))
            }),
            de_str: de_str_impl::<$t>,
            de_reader: de_reader_impl::<$t>,
            de_str_many: de_str_many_impl::<$t>,
            de_reader_many: de_reader_many_impl::<$t>,
            de_resolver: de_resolver_impl::<$t>,
            rows: $rows,
        }
    };
    ($t:ty, $name:expr) => {
        TypeOps {
            name: $name,
            gen: None,
            de_str: de_str_impl::<$t>,
            de_reader: de_reader_impl::<$t>,
            de_str_many: de_str_many_impl::<$t>,
            de_reader_many: de_reader_many_impl::<$t>,
            de_resolver: de_resolver_impl::<$t>,
            rows: &[],
        }
    };
}

// ---------------------------------------------------------------------------
// string generators
// ---------------------------------------------------------------------------

/// hostile payload pool: markup characters, entity look-alikes, whitespace, control
/// characters, non-ASCII, long strings
pub const POOL: &[&str] = &[
    "", "x", "plain", "<", ">", "&", "'", "\"", "<a>", "</t_s>", "a<b>c", "&amp;", "&lt;", "&#x20;", "&#65;", "&bogus;", "& ;", "]]>", "]]", "]>", "--", "-->", "?>", "<?",
    "<![CDATA[", "<!--", "a b", "a  b", "a\tb", "a\nb", "a\rb", "a\r\nb", "\0", "\u{1}", "\u{7f}", "é", "日本", "😀", "\u{2028}", "\u{85}", "\u{a0}", "=", "/", "/>", "x='y'", "x=\"y\"",
    "true", "1", "null", "$text", "@a", "xmlns", "aaaaaaaaaaaaaaaaaaaaaaaaaaaaaaaaaaaaaaaaaaaaaaaaaaaaaaaaaaaaaaaaaaaaaaaaaaaaaaaaaaaaaaaaaaaaaaaaaaaaaaaaaaaaaaaa<&>'\"",
];
pub const WS_EDGES: &[&str] = &[" lead", "trail ", " both ", "\ttab", "nl\n", "\r", " ", "  ", "\n"];

pub fn is_xml_ws(c: char) -> bool {
    matches!(c, ' ' | '\t' | '\n' | '\r')
}

#[derive(Clone, Copy, PartialEq, Eq, Debug)]
pub enum Pos {
    /// attribute value: any string
    Attr,
    /// element text / $text: no leading or trailing XML whitespace
    Text,
    /// xs:list item: non-empty, no XML whitespace at all
    Item,
    /// text item of a mixed $value list: non-empty, no edge whitespace
    MixedText,
}

// Payload modes. `Domain` = the round-trippable domain (C06); `HostileRaw` = hostile payloads without
// any position filter (C13); `Benign` = same random draws, but every payload is replaced by a unique
// markup-free token of the same emptiness, and the (token, hostile payload) pairs are recorded.
thread_local! {
    static MODE: std::cell::Cell<u8> = std::cell::Cell::new(0);
    static PAIRS: std::cell::RefCell<Vec<(String, String)>> = std::cell::RefCell::new(Vec::new());
}
pub const MODE_DOMAIN: u8 = 0;
pub const MODE_HOSTILE_RAW: u8 = 1;
pub const MODE_BENIGN: u8 = 2;
pub fn set_mode(m: u8) {
    MODE.with(|c| c.set(m));
    PAIRS.with(|p| p.borrow_mut().clear());
}
pub fn take_pairs() -> Vec<(String, String)> {
    PAIRS.with(|p| std::mem::take(&mut *p.borrow_mut()))
}
/// first code point of the benign stand-ins for `char` payloads
pub const BENIGN_CHAR_BASE: u32 = 0x4E00;

pub fn gen_string(r: &mut Rng, pos: Pos) -> String {
    let mode = MODE.with(|c| c.get());
    let raw = gen_string_raw(r);
    match mode {
        MODE_HOSTILE_RAW => {
            PAIRS.with(|p| p.borrow_mut().push((String::new(), raw.clone())));
            raw
        }
        MODE_BENIGN => PAIRS.with(|p| {
            let mut p = p.borrow_mut();
            let tok = if raw.is_empty() { String::new() } else { format!("b{}", p.len()) };
            p.push((tok.clone(), raw));
            tok
        }),
        _ => filter_pos(raw, pos),
    }
}

fn filter_pos(mut s: String, pos: Pos) -> String {
    match pos {
        Pos::Attr => {}
        Pos::Text | Pos::MixedText => {
            s = s.trim_matches(is_xml_ws).to_string();
            if pos == Pos::MixedText && s.is_empty() {
                s = "m".to_string();
            }
        }
        Pos::Item => {
            s = s.chars().filter(|c| !is_xml_ws(*c)).collect();
            if s.is_empty() {
                s = "i".to_string();
            }
        }
    }
    s
}

fn gen_string_raw(r: &mut Rng) -> String {
    let s = match r.below(10) {
        0..=5 => r.pick(POOL).to_string(),
        6 => {
            let mut s = String::new();
            for _ in 0..2 + r.below(3) {
                s.push_str(*r.pick(POOL));
            }
            s
        }
        7 => r.pick(WS_EDGES).to_string(),
        8 => {
            // random unicode
            let n = r.below(12);
            (0..n).map(|_| char::from_u32(r.below(0x3000) as u32).filter(|c| *c != '\u{FEFF}').unwrap_or('q')).collect()
        }
        _ => format!("v{}", r.below(1000)),
    };
    s
}

pub fn gen_char(r: &mut Rng, pos: Pos) -> char {
    let mode = MODE.with(|c| c.get());
    let c = gen_char_raw(r, if mode == MODE_DOMAIN { pos } else { Pos::Attr });
    match mode {
        MODE_HOSTILE_RAW => {
            PAIRS.with(|p| p.borrow_mut().push((String::new(), c.to_string())));
            c
        }
        MODE_BENIGN => PAIRS.with(|p| {
            let mut p = p.borrow_mut();
            let tok = char::from_u32(BENIGN_CHAR_BASE + p.len() as u32).unwrap_or('c');
            p.push((tok.to_string(), c.to_string()));
            tok
        }),
        _ => c,
    }
}

fn gen_char_raw(r: &mut Rng, pos: Pos) -> char {
    loop {
        let c = match r.below(6) {
            0 => *r.pick(&['<', '>', '&', '\'', '"', ']', '-', '?', ';', '#']),
            1 => *r.pick(&[' ', '\t', '\n', '\r', '\0', '\u{7f}']),
            2 => (0x21 + r.below(0x5E) as u32) as u8 as char,
            3 => 'é',
            4 => char::from_u32(r.below(0x3000) as u32).unwrap_or('q'),
            _ => char::from_u32(r.below(0x110000) as u32).unwrap_or('z'),
        };
        if c == '\u{FEFF}' {
            continue;
        }
        if pos != Pos::Attr && is_xml_ws(c) {
            continue;
        }
        return c;
    }
}

pub fn gen_len(r: &mut Rng) -> usize {
    match r.below(8) {
        0 | 1 => 0,
        2 | 3 => 1,
        4 | 5 => 2,
        6 => 3 + r.below(4),
        _ => 17,
    }
}

fn gen_i<T: Copy>(r: &mut Rng, extremes: &[T], small: impl Fn(&mut Rng) -> T) -> T {
    if r.chance(1, 3) {
        *r.pick(extremes)
    } else {
        small(r)
    }
}

fn gen_f64(r: &mut Rng) -> f64 {
    match r.below(8) {
        0 => 0.0,
        1 => -0.0,
        2 => f64::MAX,
        3 => f64::MIN_POSITIVE,
        4 => f64::INFINITY,
        5 => f64::NEG_INFINITY,
        6 => (r.next() as i64 as f64) / 1024.0,
        _ => f64::from_bits(r.next()),
    }
    .pipe_finite()
}
trait PipeFinite {
    fn pipe_finite(self) -> Self;
}
impl PipeFinite for f64 {
    fn pipe_finite(self) -> f64 {
        if self.is_nan() {
            1.5
        } else {
            self
        }
    }
}
fn gen_f32(r: &mut Rng) -> f32 {
    let v = match r.below(6) {
        0 => 0.0,
        1 => f32::MAX,
        2 => f32::MIN_POSITIVE,
        3 => f32::INFINITY,
        4 => (r.next() as i32 as f32) / 64.0,
        _ => f32::from_bits(r.next() as u32),
    };
    if v.is_nan() {
        2.5
    } else {
        v
    }
}

pub fn gen_key(r: &mut Rng) -> String {
    let first = b"ABCXYZabcxyz_";
    let rest = b"abcXYZ019_.-";
    let mut s = String::new();
    s.push(*r.pick(first) as char);
    for _ in 0..r.below(6) {
        s.push(*r.pick(rest) as char);
    }
    s
}

// ---------------------------------------------------------------------------
// the family
// ---------------------------------------------------------------------------

#[derive(Serialize, Deserialize, Debug, PartialEq, Eq, PartialOrd, Ord, Clone, Copy)]
pub enum Unit3 {
    #[serde(rename = "u_A")]
    A,
    #[serde(rename = "u_B")]
    B,
    #[serde(rename = "u_Cc")]
    Cc,
}
fn gen_unit3(r: &mut Rng) -> Unit3 {
    *r.pick(&[Unit3::A, Unit3::B, Unit3::Cc])
}

/// T01 — attributes of every primitive kind
#[derive(Serialize, Deserialize, Debug, PartialEq, Clone)]
#[serde(rename = "s_attrs")]
pub struct Attrs {
    #[serde(rename = "@a_s")]
    pub s: String,
    #[serde(rename = "@a_n")]
    pub n: i32,
    #[serde(rename = "@a_b")]
    pub b: bool,
    #[serde(rename = "@a_c")]
    pub c: char,
    #[serde(rename = "@a_u")]
    pub u: Unit3,
    #[serde(rename = "@a_o", skip_serializing_if = "Option::is_none", default)]
    pub o: Option<String>,
    #[serde(rename = "@a_l")]
    pub l: Vec<String>,
    #[serde(rename = "@a_f")]
    pub f: f64,
    #[serde(rename = "@a_nums")]
    pub nums: Vec<u16>,
}
fn gen_attrs(r: &mut Rng) -> Attrs {
    Attrs {
        s: gen_string(r, Pos::Attr),
        n: gen_i(r, &[i32::MIN, i32::MAX, 0, -1], |r| r.next() as i32 % 1000),
        b: r.bool(),
        c: gen_char(r, Pos::Attr),
        u: gen_unit3(r),
        o: if r.bool() { Some(gen_string(r, Pos::Attr)) } else { None },
        l: (0..gen_len(r)).map(|_| gen_string(r, Pos::Item)).collect(),
        f: gen_f64(r),
        nums: (0..gen_len(r)).map(|_| r.next() as u16).collect(),
    }
}
fn gen_nonempty(r: &mut Rng, pos: Pos) -> String {
    let s = gen_string(r, pos);
    if s.is_empty() {
        "ne".to_string()
    } else {
        s
    }
}

#[derive(Serialize, Deserialize, Debug, PartialEq, Clone)]
#[serde(rename = "s_inner")]
pub struct Inner {
    #[serde(rename = "@a_id")]
    pub id: u8,
    pub t_v: String,
}
fn gen_inner(r: &mut Rng) -> Inner {
    Inner {
        id: r.next() as u8,
        t_v: gen_string(r, Pos::Text),
    }
}

/// T02 — child elements of every primitive kind, nested struct, unit
#[derive(Serialize, Deserialize, Debug, PartialEq, Clone)]
#[serde(rename = "s_elems")]
pub struct Elems {
    pub t_s: String,
    pub t_n: u64,
    pub t_b: bool,
    pub t_f: f32,
    pub t_c: char,
    pub t_i: i128,
    pub t_big: u128,
    pub t_small: i8,
    pub t_u: Unit3,
    pub u_unit: (),
    pub s_nested: Inner,
}
fn gen_elems(r: &mut Rng) -> Elems {
    Elems {
        t_s: gen_string(r, Pos::Text),
        t_n: gen_i(r, &[0, u64::MAX, 1], |r| r.next() % 100000),
        t_b: r.bool(),
        t_f: gen_f32(r),
        t_c: gen_char(r, Pos::Text),
        t_i: gen_i(r, &[i128::MIN, i128::MAX, 0, -1], |r| r.next() as i64 as i128),
        t_big: gen_i(r, &[u128::MAX, 0], |r| r.next() as u128),
        t_small: gen_i(r, &[i8::MIN, i8::MAX, 0], |r| r.next() as i8),
        t_u: gen_unit3(r),
        u_unit: (),
        s_nested: gen_inner(r),
    }
}

/// T03 — optional attributes and elements, skipped when absent
#[derive(Serialize, Deserialize, Debug, PartialEq, Clone, Default)]
#[serde(rename = "s_opt")]
pub struct Opt {
    #[serde(rename = "@a_o", skip_serializing_if = "Option::is_none", default)]
    pub ao: Option<u32>,
    #[serde(skip_serializing_if = "Option::is_none", default)]
    pub t_a: Option<String>,
    #[serde(skip_serializing_if = "Option::is_none", default)]
    pub t_b: Option<u8>,
    #[serde(skip_serializing_if = "Option::is_none", default)]
    pub s_c: Option<Inner>,
    pub t_last: String,
}
fn gen_opt(r: &mut Rng) -> Opt {
    Opt {
        ao: if r.bool() { Some(r.next() as u32) } else { None },
        t_a: if r.bool() { Some(gen_string(r, Pos::Text)) } else { None },
        t_b: if r.bool() { Some(r.next() as u8) } else { None },
        s_c: if r.bool() { Some(gen_inner(r)) } else { None },
        t_last: gen_string(r, Pos::Text),
    }
}

/// T04 — element lists
#[derive(Serialize, Deserialize, Debug, PartialEq, Clone, Default)]
#[serde(rename = "s_lists")]
pub struct Lists {
    #[serde(default)]
    pub t_item: Vec<String>,
    #[serde(default)]
    pub t_num: Vec<i32>,
    #[serde(default)]
    pub s_rec: Vec<Inner>,
    pub t_tail: String,
}
fn gen_lists(r: &mut Rng) -> Lists {
    Lists {
        t_item: (0..gen_len(r)).map(|_| gen_string(r, Pos::Text)).collect(),
        t_num: (0..gen_len(r)).map(|_| r.next() as i32).collect(),
        s_rec: (0..gen_len(r).min(4)).map(|_| gen_inner(r)).collect(),
        t_tail: gen_string(r, Pos::Text),
    }
}

/// T05 — $text content (string), with attribute
#[derive(Serialize, Deserialize, Debug, PartialEq, Clone)]
#[serde(rename = "x_text")]
pub struct TextStr {
    #[serde(rename = "@a_k")]
    pub k: String,
    #[serde(rename = "$text", default)]
    pub t: String,
}
fn gen_textstr(r: &mut Rng) -> TextStr {
    TextStr {
        k: gen_string(r, Pos::Attr),
        t: gen_string(r, Pos::Text),
    }
}

/// A type whose strings borrow from the input where they can (`Cow<'de, str>`, map with `&'de str`-like keys as
/// `Cow`): the deserializer then hands out input slices, its own buffer or owned strings depending on
/// whether a value had to be unescaped. It is compared through its owned twin `BorrowTwin`.
#[derive(Deserialize, Debug)]
#[serde(rename = "s_borrow")]
pub struct Borrowing<'a> {
    #[serde(rename = "@a_c", borrow)]
    pub a: std::borrow::Cow<'a, str>,
    #[serde(rename = "@a_list", borrow, default)]
    pub al: Vec<std::borrow::Cow<'a, str>>,
    #[serde(borrow)]
    pub t_c: std::borrow::Cow<'a, str>,
    #[serde(borrow, default)]
    pub t_items: Vec<std::borrow::Cow<'a, str>>,
    #[serde(borrow)]
    pub k_map: BTreeMap<std::borrow::Cow<'a, str>, std::borrow::Cow<'a, str>>,
    #[serde(borrow)]
    pub x_t: BorrowingText<'a>,
}
#[derive(Deserialize, Debug)]
pub struct BorrowingText<'a> {
    #[serde(rename = "$text", borrow, default)]
    pub t: std::borrow::Cow<'a, str>,
}
#[derive(Serialize, Deserialize, Debug, PartialEq, Clone)]
#[serde(rename = "s_borrow")]
pub struct BorrowTwin {
    #[serde(rename = "@a_c")]
    pub a: String,
    #[serde(rename = "@a_list", default)]
    pub al: Vec<String>,
    pub t_c: String,
    #[serde(default)]
    pub t_items: Vec<String>,
    pub k_map: BTreeMap<String, String>,
    pub x_t: BorrowTwinText,
}
#[derive(Serialize, Deserialize, Debug, PartialEq, Clone)]
pub struct BorrowTwinText {
    #[serde(rename = "$text", default)]
    pub t: String,
}
impl<'a> Borrowing<'a> {
    fn twin(self) -> BorrowTwin {
        BorrowTwin {
            a: self.a.into_owned(),
            al: self.al.into_iter().map(|c| c.into_owned()).collect(),
            t_c: self.t_c.into_owned(),
            t_items: self.t_items.into_iter().map(|c| c.into_owned()).collect(),
            k_map: self.k_map.into_iter().map(|(k, v)| (k.into_owned(), v.into_owned())).collect(),
            x_t: BorrowTwinText { t: self.x_t.t.into_owned() },
        }
    }
}
fn gen_borrowtwin(r: &mut Rng) -> BorrowTwin {
    BorrowTwin {
        a: gen_string(r, Pos::Attr),
        al: (0..gen_len(r).min(4)).map(|_| gen_nonempty(r, Pos::Item)).collect(),
        t_c: gen_string(r, Pos::Text),
        t_items: (0..gen_len(r).min(4)).map(|_| gen_string(r, Pos::Text)).collect(),
        k_map: gen_map(r),
        x_t: BorrowTwinText { t: gen_string(r, Pos::Text) },
    }
}
/// from_str borrows; the reader entry point needs an owned type
fn de_str_borrowing(s: &str, limit: Option<usize>) -> DeResult {
    let v: Result<Borrowing, DeError> = match limit {
        None => quick_xml::de::from_str(s),
        Some(l) => {
            let mut de = Deserializer::from_str(s);
            #[cfg(feature = "ovl")]
            de.event_buffer_size(NonZeroUsize::new(l));
            #[cfg(not(feature = "ovl"))]
            let _ = l;
            Borrowing::deserialize(&mut de)
        }
    };
    v.map(|b| Box::new(b.twin()) as Box<dyn Val>).map_err(de_err)
}

/// T06 — $text number
#[derive(Serialize, Deserialize, Debug, PartialEq, Clone)]
#[serde(rename = "x_num")]
pub struct TextNum {
    #[serde(rename = "$text")]
    pub n: i64,
}

/// T07 — $text xs:list
#[derive(Serialize, Deserialize, Debug, PartialEq, Clone)]
#[serde(rename = "x_list")]
pub struct TextList {
    #[serde(rename = "@a_k", default)]
    pub k: Vec<String>,
    #[serde(rename = "$text", default)]
    pub l: Vec<String>,
}
fn gen_textlist(r: &mut Rng) -> TextList {
    TextList {
        k: (0..gen_len(r)).map(|_| gen_string(r, Pos::Item)).collect(),
        l: (0..gen_len(r)).map(|_| gen_string(r, Pos::Item)).collect(),
    }
}

/// A recursive document tree: a struct variant that itself has a `$value` list of the same enum, so the same
/// variant occurs as the root's child and as an item of a `$value` list at every deeper level
#[derive(Serialize, Deserialize, Debug, PartialEq, Clone)]
pub enum Node {
    #[serde(rename = "s_group")]
    Group {
        #[serde(rename = "@a_name")]
        name: String,
        #[serde(rename = "$value", default)]
        children: Vec<Node>,
    },
    #[serde(rename = "t_leaf")]
    Leaf(String),
    #[serde(rename = "u_mark")]
    Mark,
    #[serde(rename = "s_pair")]
    Pair {
        #[serde(rename = "@a_k")]
        k: u8,
        t_v: String,
    },
}
#[derive(Serialize, Deserialize, Debug, PartialEq, Clone)]
#[serde(rename = "s_tree")]
pub struct Tree {
    #[serde(rename = "@a_k")]
    pub k: u8,
    #[serde(rename = "$value", default)]
    pub nodes: Vec<Node>,
    }
fn gen_node(r: &mut Rng, depth: usize) -> Node {
    match r.below(if depth >= 3 { 3 } else { 5 }) {
        0 => Node::Leaf(gen_string(r, Pos::Text)),
        1 => Node::Mark,
        2 => Node::Pair { k: r.next() as u8, t_v: gen_string(r, Pos::Text) },
        _ => Node::Group { name: gen_string(r, Pos::Attr), children: (0..r.below(4)).map(|_| gen_node(r, depth + 1)).collect() },
    }
}
fn gen_tree(r: &mut Rng) -> Tree {
    Tree { k: r.next() as u8, nodes: (0..gen_len(r).min(4)).map(|_| gen_node(r, 0)).collect() }
}

/// the element choices used by $value
#[derive(Serialize, Deserialize, Debug, PartialEq, Clone)]
pub enum Choice {
    #[serde(rename = "u_unit")]
    Unit,
    #[serde(rename = "t_new")]
    Newtype(String),
    #[serde(rename = "s_struct")]
    Struct {
        #[serde(rename = "@a_x")]
        x: u8,
        t_y: String,
    },
    #[serde(rename = "t_num")]
    Num(i16),
}
fn gen_choice(r: &mut Rng) -> Choice {
    match r.below(4) {
        0 => Choice::Unit,
        1 => Choice::Newtype(gen_string(r, Pos::Text)),
        2 => Choice::Struct {
            x: r.next() as u8,
            t_y: gen_string(r, Pos::Text),
        },
        _ => Choice::Num(r.next() as i16),
    }
}

/// T08 — $value single choice
#[derive(Serialize, Deserialize, Debug, PartialEq, Clone)]
#[serde(rename = "s_choice")]
pub struct HasChoice {
    #[serde(rename = "@a_k")]
    pub k: u8,
    #[serde(rename = "$value")]
    pub c: Choice,
}

/// T09 — $value list of element choices
#[derive(Serialize, Deserialize, Debug, PartialEq, Clone)]
#[serde(rename = "s_choices")]
pub struct HasChoices {
    #[serde(rename = "$value", default)]
    pub items: Vec<Choice>,
}

/// element and text choices for mixed content
#[derive(Serialize, Deserialize, Debug, PartialEq, Clone)]
pub enum Mixed {
    #[serde(rename = "u_br")]
    Br,
    #[serde(rename = "t_em")]
    Em(String),
    #[serde(rename = "$text")]
    Text(String),
}

/// T10 — mixed $value list (elements and text, never two adjacent text items)
#[derive(Serialize, Deserialize, Debug, PartialEq, Clone)]
#[serde(rename = "m_mixed")]
pub struct HasMixed {
    #[serde(rename = "@a_k")]
    pub k: String,
    #[serde(rename = "$value", default)]
    pub items: Vec<Mixed>,
}
fn gen_mixed(r: &mut Rng) -> HasMixed {
    let n = gen_len(r).min(7);
    let mut items = Vec::new();
    for _ in 0..n {
        let last_text = matches!(items.last(), Some(Mixed::Text(_)));
        let it = match r.below(3) {
            0 => Mixed::Br,
            1 => Mixed::Em(gen_string(r, Pos::Text)),
            _ if last_text => Mixed::Br,
            _ => Mixed::Text(gen_string(r, Pos::MixedText)),
        };
        items.push(it);
    }
    HasMixed {
        k: gen_string(r, Pos::Attr),
        items,
    }
}

/// T11 — top-level enum (externally tagged: the variant is the root element)
#[derive(Serialize, Deserialize, Debug, PartialEq, Clone)]
pub enum Top {
    #[serde(rename = "u_top")]
    Unit,
    #[serde(rename = "t_top")]
    Newtype(String),
    #[serde(rename = "s_top")]
    Struct {
        #[serde(rename = "@a_k")]
        k: u8,
        t_a: String,
        #[serde(default)]
        t_l: Vec<u8>,
    },
}
fn gen_top(r: &mut Rng) -> Top {
    match r.below(3) {
        0 => Top::Unit,
        1 => Top::Newtype(gen_string(r, Pos::Text)),
        _ => Top::Struct {
            k: r.next() as u8,
            t_a: gen_string(r, Pos::Text),
            t_l: (0..gen_len(r)).map(|_| r.next() as u8).collect(),
        },
    }
}

/// T12 — newtype struct
#[derive(Serialize, Deserialize, Debug, PartialEq, Clone)]
#[serde(rename = "t_newtype")]
pub struct NewT(pub String);

/// T13 — struct with a tuple field (fixed-size element list) and unit-enum element
#[derive(Serialize, Deserialize, Debug, PartialEq, Clone)]
#[serde(rename = "s_tuple")]
pub struct HasTuple {
    pub t_pair: (String, u8),
    pub t_e: Unit3,
    pub t_z: u8,
}

/// T14 — map with name-like keys
#[derive(Serialize, Deserialize, Debug, PartialEq, Clone)]
#[serde(rename = "s_map")]
pub struct HasMap {
    #[serde(rename = "@a_k")]
    pub k: u8,
    pub k_m: BTreeMap<String, String>,
}
fn gen_map(r: &mut Rng) -> BTreeMap<String, String> {
    let mut m = BTreeMap::new();
    for _ in 0..gen_len(r).min(6) {
        m.insert(gen_key(r), gen_string(r, Pos::Text));
    }
    m
}

/// T15 — deep nesting, lists of structs containing lists
#[derive(Serialize, Deserialize, Debug, PartialEq, Clone)]
#[serde(rename = "s_deep")]
pub struct Deep {
    #[serde(rename = "@a_k")]
    pub k: String,
    #[serde(default)]
    pub s_lists: Vec<Lists>,
    pub s_opt: Opt,
    pub x_text: TextStr,
    #[serde(default)]
    pub m_mixed: Vec<HasMixed>,
}
fn gen_deep(r: &mut Rng) -> Deep {
    Deep {
        k: gen_string(r, Pos::Attr),
        s_lists: (0..r.below(3)).map(|_| gen_lists(r)).collect(),
        s_opt: gen_opt(r),
        x_text: gen_textstr(r),
        m_mixed: (0..r.below(3)).map(|_| gen_mixed(r)).collect(),
    }
}

/// T16 — numeric extremes as attributes and elements
#[derive(Serialize, Deserialize, Debug, PartialEq, Clone)]
#[serde(rename = "s_nums")]
pub struct Nums {
    #[serde(rename = "@a_i8")]
    pub a: i8,
    #[serde(rename = "@a_u64")]
    pub b: u64,
    #[serde(rename = "@a_i128")]
    pub c: i128,
    #[serde(rename = "@a_f32")]
    pub d: f32,
    #[serde(rename = "@a_u128")]
    pub e: u128,
    #[serde(rename = "@a_bigs")]
    pub f: Vec<u128>,
    pub t_i16: i16,
    pub t_u32: u32,
    pub t_i64: i64,
    pub t_u128: u128,
    pub t_f64: f64,
    pub t_u8s: Vec<u8>,
}
fn gen_nums(r: &mut Rng) -> Nums {
    Nums {
        a: gen_i(r, &[i8::MIN, i8::MAX], |r| r.next() as i8),
        b: gen_i(r, &[u64::MAX, 0], |r| r.next()),
        c: gen_i(r, &[i128::MIN, i128::MAX], |r| r.next() as i128),
        d: gen_f32(r),
        e: gen_i(r, &[u128::MAX, i128::MAX as u128 + 1, 0], |r| (r.next() as u128) << 64 | r.next() as u128),
        f: (0..gen_len(r).min(3)).map(|_| gen_i(r, &[u128::MAX, i128::MAX as u128 + 1], |r| (r.next() as u128) << 70)).collect(),
        t_i16: gen_i(r, &[i16::MIN, i16::MAX], |r| r.next() as i16),
        t_u32: gen_i(r, &[u32::MAX, 0], |r| r.next() as u32),
        t_i64: gen_i(r, &[i64::MIN, i64::MAX], |r| r.next() as i64),
        t_u128: gen_i(r, &[u128::MAX], |r| (r.next() as u128) << 64 | r.next() as u128),
        t_f64: gen_f64(r),
        t_u8s: (0..1 + gen_len(r)).map(|_| r.next() as u8).collect(),
    }
}

/// element and attribute names that are prefixes of one another: a list `t_n`, then a single `t_nx`,
/// then a list `t_nxy` (names must be compared whole, never by prefix)
#[derive(Serialize, Deserialize, Debug, PartialEq, Clone)]
#[serde(rename = "s_nameprefix")]
pub struct NamePrefix {
    #[serde(rename = "@a_n")]
    pub a_n: u8,
    #[serde(rename = "@a_nx", default)]
    pub a_nx: String,
    #[serde(default)]
    pub t_n: Vec<String>,
    pub t_nx: String,
    #[serde(default)]
    pub t_nxy: Vec<u32>,
    #[serde(skip_serializing_if = "Option::is_none", default)]
    pub t_nxyz: Option<String>,
}
fn gen_nameprefix(r: &mut Rng) -> NamePrefix {
    NamePrefix {
        a_n: r.next() as u8,
        a_nx: gen_string(r, Pos::Attr),
        t_n: (0..gen_len(r).min(4)).map(|_| gen_string(r, Pos::Text)).collect(),
        t_nx: gen_string(r, Pos::Text),
        t_nxy: (0..gen_len(r).min(4)).map(|_| r.next() as u32 % 100).collect(),
        t_nxyz: if r.bool() { Some(gen_nonempty(r, Pos::Text)) } else { None },
    }
}

/// T17 — element list and text content in one element (element list row + $text row)
#[derive(Serialize, Deserialize, Debug, PartialEq, Clone)]
#[serde(rename = "m_listtext")]
pub struct ListText {
    #[serde(rename = "@a_k")]
    pub k: u8,
    #[serde(default)]
    pub t_item: Vec<String>,
    #[serde(default)]
    pub t_num: Vec<i32>,
    #[serde(rename = "$text", default)]
    pub t: String,
}
fn gen_listtext(r: &mut Rng) -> ListText {
    ListText {
        k: r.next() as u8,
        t_item: (0..gen_len(r).min(4)).map(|_| gen_string(r, Pos::Text)).collect(),
        t_num: (0..gen_len(r).min(3)).map(|_| r.next() as i32).collect(),
        t: gen_string(r, Pos::Text),
    }
}

/// T18 — a `$value` choice next to ordinary element fields
#[derive(Serialize, Deserialize, Debug, PartialEq, Clone)]
#[serde(rename = "s_valueplus")]
pub struct ValuePlus {
    #[serde(rename = "@a_k")]
    pub k: u8,
    pub t_title: String,
    #[serde(rename = "$value")]
    pub c: Choice,
    pub t_tail: u32,
}

// ---- shapes for overlapped lists (C20) ------------------------------------

#[derive(Serialize, Deserialize, Debug, PartialEq, Clone, Default)]
#[serde(rename = "s_ovl2")]
pub struct Ovl2 {
    #[serde(default)]
    pub t_a: Vec<String>,
    #[serde(default)]
    pub t_b: Vec<u32>,
}
#[derive(Serialize, Deserialize, Debug, PartialEq, Clone, Default)]
#[serde(rename = "s_ovl3")]
pub struct Ovl3 {
    #[serde(default)]
    pub t_a: Vec<String>,
    #[serde(default)]
    pub t_b: Vec<u32>,
    #[serde(default)]
    pub t_c: Vec<String>,
}
#[derive(Serialize, Deserialize, Debug, PartialEq, Clone, Default)]
#[serde(rename = "s_ovlscalar")]
pub struct OvlScalar {
    #[serde(rename = "@a_k", default)]
    pub k: u8,
    #[serde(default)]
    pub t_a: Vec<String>,
    pub t_one: String,
    #[serde(default)]
    pub t_b: Vec<u32>,
    #[serde(skip_serializing_if = "Option::is_none", default)]
    pub t_opt: Option<String>,
}
/// two lists and the text content of the element: the text is one more sibling that can stand anywhere
#[derive(Serialize, Deserialize, Debug, PartialEq, Clone, Default)]
#[serde(rename = "m_ovltext")]
pub struct OvlText {
    #[serde(rename = "@a_k", default)]
    pub k: u8,
    #[serde(default)]
    pub t_a: Vec<String>,
    #[serde(default)]
    pub t_b: Vec<u32>,
    #[serde(rename = "$text", default)]
    pub t: String,
}
/// list items that are structs containing a child named like an outer list
#[derive(Serialize, Deserialize, Debug, PartialEq, Clone, Default)]
#[serde(rename = "s_item")]
pub struct OvlItem {
    #[serde(default)]
    pub t_b: Vec<u32>,
    pub t_v: String,
}
#[derive(Serialize, Deserialize, Debug, PartialEq, Clone, Default)]
#[serde(rename = "s_ovlsame")]
pub struct OvlSame {
    #[serde(default)]
    pub s_item: Vec<OvlItem>,
    #[serde(default)]
    pub t_b: Vec<u32>,
}
/// list items that are structs with two lists of their own (inner interleavings)
#[derive(Serialize, Deserialize, Debug, PartialEq, Clone, Default)]
#[serde(rename = "s_item2")]
pub struct OvlItem2 {
    #[serde(default)]
    pub t_a: Vec<String>,
    #[serde(default)]
    pub t_b: Vec<u32>,
}
#[derive(Serialize, Deserialize, Debug, PartialEq, Clone, Default)]
#[serde(rename = "s_ovldeep")]
pub struct OvlDeep {
    #[serde(default)]
    pub t_c: Vec<String>,
    #[serde(default)]
    pub s_item2: Vec<OvlItem2>,
    #[serde(default)]
    pub t_d: Vec<u32>,
}
/// three lists whose middle items contain a child with the item's own name
#[derive(Serialize, Deserialize, Debug, PartialEq, Clone, Default)]
pub struct OvlLeaf {
    #[serde(rename = "@a_id", default)]
    pub id: u8,
}
#[derive(Serialize, Deserialize, Debug, PartialEq, Clone, Default)]
pub struct OvlNode {
    #[serde(rename = "@a_id", default)]
    pub id: u8,
    #[serde(default)]
    pub t_b: Vec<OvlLeaf>,
}
#[derive(Serialize, Deserialize, Debug, PartialEq, Clone, Default)]
#[serde(rename = "s_ovlrec")]
pub struct OvlRec {
    #[serde(default)]
    pub t_a: Vec<String>,
    #[serde(default)]
    pub t_b: Vec<OvlNode>,
    #[serde(default)]
    pub t_c: Vec<String>,
}
/// a $value enum list next to a named list
#[derive(Serialize, Deserialize, Debug, PartialEq, Clone)]
pub enum OvlChoice {
    #[serde(rename = "t_p")]
    P(String),
    #[serde(rename = "u_q")]
    Q,
}
#[derive(Serialize, Deserialize, Debug, PartialEq, Clone, Default)]
#[serde(rename = "s_ovlvalue")]
pub struct OvlValue {
    #[serde(default)]
    pub t_a: Vec<String>,
    #[serde(rename = "$value", default)]
    pub items: Vec<OvlChoice>,
}
/// two lists next to two optional fields (a struct and a string): hand-written documents may carry
/// them as `xsi:nil="true"` elements whose content has to be dropped
#[derive(Serialize, Deserialize, Debug, PartialEq, Clone, Default)]
#[serde(rename = "s_ovlopt")]
pub struct OvlOpt {
    #[serde(default)]
    pub t_a: Vec<String>,
    #[serde(skip_serializing_if = "Option::is_none", default)]
    pub s_item2: Option<OvlItem2>,
    #[serde(default)]
    pub t_b: Vec<u32>,
    #[serde(skip_serializing_if = "Option::is_none", default)]
    pub t_opt: Option<String>,
}
/// lists and `$text` in a struct with a flattened member (serde then asks for a map, not a struct)
#[derive(Serialize, Deserialize, Debug, PartialEq, Clone, Default)]
pub struct OvlExtra {
    #[serde(rename = "@a_id", default)]
    pub id: String,
}
#[derive(Serialize, Deserialize, Debug, PartialEq, Clone, Default)]
#[serde(rename = "m_ovlflat")]
pub struct OvlFlat {
    #[serde(flatten)]
    pub extra: OvlExtra,
    #[serde(default)]
    pub t_a: Vec<String>,
    #[serde(default)]
    pub t_b: Vec<u32>,
    #[serde(rename = "$text", default)]
    pub t: String,
}
/// a shape one level down: hand-written documents declare their namespace prefixes on the wrapper, i.e.
/// on an ancestor of the container whose children are interleaved
#[derive(Serialize, Deserialize, Debug, PartialEq, Clone, Default)]
#[serde(rename = "s_ovlwrap")]
pub struct OvlWrap<T> {
    pub w_inner: T,
}
/// nested struct with its own lists
#[derive(Serialize, Deserialize, Debug, PartialEq, Clone, Default)]
#[serde(rename = "s_ovlnested")]
pub struct OvlNested {
    #[serde(default)]
    pub t_a: Vec<String>,
    pub s_ovl2: Ovl2,
    #[serde(default)]
    pub t_c: Vec<String>,
}

// ---- types outside the round-trip domain (C07 targets, C13 sources) -------

#[derive(Serialize, Deserialize, Debug, PartialEq, Clone)]
#[serde(rename = "s_ignored")]
pub struct WithIgnored {
    pub t_a: String,
    #[serde(default)]
    pub s_any: ignored::Ign,
    #[serde(default)]
    pub t_z: Option<u8>,
}

#[derive(Serialize, Deserialize, Debug, PartialEq, Clone)]
#[serde(rename = "u_unitstruct")]
pub struct UnitStruct;

#[derive(Serialize, Deserialize, Debug, PartialEq, Clone)]
#[serde(rename = "s_optnoskip")]
pub struct OptNoSkip {
    pub t_a: Option<String>,
    #[serde(rename = "@a_b")]
    pub b: Option<u8>,
    pub s_c: Option<Inner>,
}

pub mod ignored {
    //! A field of type IgnoredAny (serde's own type has no PartialEq / Serialize)
    use serde::de::{Deserialize, Deserializer, IgnoredAny};
    #[derive(Debug, Clone, Default)]
    pub struct Ign;
    impl PartialEq for Ign {
        fn eq(&self, _: &Ign) -> bool {
            true
        }
    }
    impl<'de> Deserialize<'de> for Ign {
        fn deserialize<D: Deserializer<'de>>(d: D) -> Result<Ign, D::Error> {
            IgnoredAny::deserialize(d).map(|_| Ign)
        }
    }
    impl serde::Serialize for Ign {
        fn serialize<S: serde::Serializer>(&self, s: S) -> Result<S::Ok, S::Error> {
            s.serialize_unit()
        }
    }
}

// ---------------------------------------------------------------------------
// registry
// ---------------------------------------------------------------------------

/// The round-trippable family (C06 domain).

/// T19 — xs:list / element lists of the non-string primitives (bool, char, unit enum, float) and a tuple
/// in attribute position (rows of the atomic serializer / deserializer)
#[derive(Serialize, Deserialize, Debug, PartialEq, Clone)]
#[serde(rename = "s_listkinds")]
pub struct ListKinds {
    #[serde(rename = "@a_bools")]
    pub bools: Vec<bool>,
    #[serde(rename = "@a_chars")]
    pub chars: Vec<char>,
    #[serde(rename = "@a_units")]
    pub units: Vec<Unit3>,
    #[serde(rename = "@a_f32s")]
    pub f32s: Vec<f32>,
    #[serde(rename = "@a_pair")]
    pub pair: (u8, bool, Unit3),
    #[serde(default)]
    pub t_flag: Vec<bool>,
    #[serde(default)]
    pub t_ch: Vec<char>,
    pub t_w: Wrap,
}
/// newtype struct around a string, used in attribute, element and text positions
#[derive(Serialize, Deserialize, Debug, PartialEq, Clone, Default)]
pub struct Wrap(pub String);

fn gen_listkinds(r: &mut Rng) -> ListKinds {
    ListKinds {
        bools: (0..gen_len(r)).map(|_| r.bool()).collect(),
        chars: (0..gen_len(r)).map(|_| gen_char(r, Pos::Item)).collect(),
        units: (0..gen_len(r)).map(|_| gen_unit3(r)).collect(),
        f32s: (0..gen_len(r).min(4)).map(|_| gen_f32(r)).collect(),
        pair: (r.next() as u8, r.bool(), gen_unit3(r)),
        t_flag: (0..gen_len(r).min(5)).map(|_| r.bool()).collect(),
        t_ch: (0..gen_len(r).min(5)).map(|_| gen_char(r, Pos::Text)).collect(),
        t_w: Wrap(gen_string(r, Pos::Text)),
    }
}

/// T20 — `$text` content typed as a unit enum / bool / char / newtype, next to typed attributes
#[derive(Serialize, Deserialize, Debug, PartialEq, Clone)]
#[serde(rename = "x_textenum")]
pub struct TextEnum {
    #[serde(rename = "@a_w")]
    pub w: Wrap,
    #[serde(rename = "@a_ob", skip_serializing_if = "Option::is_none", default)]
    pub ob: Option<bool>,
    #[serde(rename = "$text")]
    pub t: Unit3,
}
#[derive(Serialize, Deserialize, Debug, PartialEq, Clone)]
#[serde(rename = "x_textbool")]
pub struct TextBool {
    #[serde(rename = "@a_u")]
    pub u: Unit3,
    #[serde(rename = "$text")]
    pub t: bool,
}
#[derive(Serialize, Deserialize, Debug, PartialEq, Clone)]
#[serde(rename = "x_textchar")]
pub struct TextChar {
    #[serde(rename = "@a_c")]
    pub c: char,
    #[serde(rename = "$text")]
    pub t: char,
}
#[derive(Serialize, Deserialize, Debug, PartialEq, Clone)]
#[serde(rename = "x_textwrap")]
pub struct TextWrap {
    #[serde(rename = "@a_k")]
    pub k: u8,
    // an empty text is no node at all (as for TextStr)
    #[serde(rename = "$text", default)]
    pub t: Wrap,
}
/// `$text: Option<String>`: `None` is skipped, `Some` is never empty in the domain (an absent text is `None`)
#[derive(Serialize, Deserialize, Debug, PartialEq, Clone)]
#[serde(rename = "x_textopt")]
pub struct TextOpt {
    #[serde(rename = "@a_k")]
    pub k: u8,
    #[serde(rename = "$text", skip_serializing_if = "Option::is_none", default)]
    pub t: Option<String>,
}
fn gen_textopt(r: &mut Rng) -> TextOpt {
    let t = if r.bool() { Some(gen_string(r, Pos::MixedText)) } else { None };
    TextOpt { k: r.next() as u8, t }
}

/// T21 — maps whose keys are not strings but still spell XML names: bool, unit enum, char
#[derive(Serialize, Deserialize, Debug, PartialEq, Clone)]
#[serde(rename = "s_typedkeys")]
pub struct TypedKeys {
    #[serde(rename = "@a_k")]
    pub k: u8,
    pub k_b: BTreeMap<bool, String>,
    pub k_u: BTreeMap<Unit3, u8>,
    pub k_c: BTreeMap<char, Wrap>,
}
fn gen_typedkeys(r: &mut Rng) -> TypedKeys {
    let mut k_b = BTreeMap::new();
    for _ in 0..r.below(3) {
        k_b.insert(r.bool(), gen_string(r, Pos::Text));
    }
    let mut k_u = BTreeMap::new();
    for _ in 0..r.below(4) {
        k_u.insert(gen_unit3(r), r.next() as u8);
    }
    let mut k_c = BTreeMap::new();
    for _ in 0..r.below(4) {
        k_c.insert(*r.pick(&['a', 'Z', '_', 'q', 'é', '日']), Wrap(gen_string(r, Pos::Text)));
    }
    TypedKeys { k: r.next() as u8, k_b, k_u, k_c }
}


/// T22 — text content first, element lists (possibly empty) after it
#[derive(Serialize, Deserialize, Debug, PartialEq, Clone)]
#[serde(rename = "m_textfirst")]
pub struct TextFirst {
    #[serde(rename = "@a_k")]
    pub k: u8,
    #[serde(rename = "$text", default)]
    pub t: String,
    #[serde(default)]
    pub t_item: Vec<String>,
    #[serde(default)]
    pub t_num: Vec<i32>,
}
fn gen_textfirst(r: &mut Rng) -> TextFirst {
    TextFirst {
        k: r.next() as u8,
        t: gen_string(r, Pos::Text),
        t_item: (0..gen_len(r).min(3)).map(|_| gen_string(r, Pos::Text)).collect(),
        t_num: (0..gen_len(r).min(3)).map(|_| r.next() as i32).collect(),
    }
}


/// element choices that carry text or a struct of their own, for mixed content
#[derive(Serialize, Deserialize, Debug, PartialEq, Clone)]
pub enum Mixed2 {
    #[serde(rename = "u_br")]
    Br,
    /// struct variant with an attribute and text content: `Hello,<x_b a_c="..">world</x_b>!`
    #[serde(rename = "x_b")]
    B {
        #[serde(rename = "@a_c")]
        c: String,
        #[serde(rename = "$text", default)]
        t: String,
    },
    /// struct variant whose only content is a primitive `$value`
    #[serde(rename = "x_q")]
    Q {
        #[serde(rename = "$value", default)]
        v: String,
    },
    /// newtype variant around a struct
    #[serde(rename = "s_i")]
    I(Inner),
    #[serde(rename = "$text")]
    Text(String),
}
/// T23 — mixed $value list whose element items have text content of their own
#[derive(Serialize, Deserialize, Debug, PartialEq, Clone)]
#[serde(rename = "m_mixed2")]
pub struct HasMixed2 {
    #[serde(rename = "@a_k")]
    pub k: u8,
    #[serde(rename = "$value", default)]
    pub items: Vec<Mixed2>,
}
fn gen_mixed2(r: &mut Rng) -> HasMixed2 {
    let n = gen_len(r).min(7);
    let mut items = Vec::new();
    for _ in 0..n {
        let last_text = matches!(items.last(), Some(Mixed2::Text(_)));
        let it = match r.below(6) {
            0 => Mixed2::Br,
            1 => Mixed2::B { c: gen_string(r, Pos::Attr), t: gen_string(r, Pos::Text) },
            2 => Mixed2::Q { v: gen_string(r, Pos::Text) },
            3 => Mixed2::I(gen_inner(r)),
            _ if last_text => Mixed2::B { c: gen_string(r, Pos::Attr), t: gen_string(r, Pos::Text) },
            _ => Mixed2::Text(gen_string(r, Pos::MixedText)),
        };
        items.push(it);
    }
    HasMixed2 { k: r.next() as u8, items }
}


/// T24 — named children and an optional text content (`o_`: element-only content where the text is absent)
#[derive(Serialize, Deserialize, Debug, PartialEq, Clone)]
#[serde(rename = "o_opttextel")]
pub struct OptTextEl {
    #[serde(rename = "@a_k")]
    pub k: u8,
    #[serde(skip_serializing_if = "Option::is_none", default)]
    pub t_a: Option<String>,
    #[serde(default)]
    pub u_flag: Vec<()>,
    #[serde(default)]
    pub s_inner: Vec<Inner>,
    #[serde(rename = "$text", skip_serializing_if = "Option::is_none", default)]
    pub t: Option<String>,
}
fn gen_opttextel(r: &mut Rng) -> OptTextEl {
    OptTextEl {
        k: r.next() as u8,
        t_a: if r.bool() { Some(gen_string(r, Pos::Text)) } else { None },
        u_flag: (0..r.below(3)).map(|_| ()).collect(),
        s_inner: (0..r.below(3)).map(|_| gen_inner(r)).collect(),
        t: if r.below(3) == 0 { Some(gen_string(r, Pos::MixedText)) } else { None },
    }
}


/// A map whose hand-written `Serialize` uses the two-step `serialize_key` / `serialize_value`
/// protocol (what a transcoder or a non-derive impl does) instead of `serialize_entry`
#[derive(Debug, PartialEq, Clone, Default, Deserialize)]
#[serde(transparent)]
pub struct KvMap(pub BTreeMap<String, String>);
impl Serialize for KvMap {
    fn serialize<S: serde::Serializer>(&self, s: S) -> Result<S::Ok, S::Error> {
        use serde::ser::SerializeMap;
        let mut m = s.serialize_map(Some(self.0.len()))?;
        for (i, (k, v)) in self.0.iter().enumerate() {
            if i % 3 == 2 {
                m.serialize_entry(k, v)?;
            } else {
                m.serialize_key(k)?;
                m.serialize_value(v)?;
            }
        }
        m.end()
    }
}
/// A string that serializes itself through `Serializer::collect_str` (what `Display`-based impls do)
#[derive(Debug, PartialEq, Clone, Default, Deserialize)]
#[serde(transparent)]
pub struct Shown(pub String);
impl Serialize for Shown {
    fn serialize<S: serde::Serializer>(&self, s: S) -> Result<S::Ok, S::Error> {
        s.collect_str(&self.0)
    }
}
/// T25 — values that reach the serializer through the less common trait methods
#[derive(Serialize, Deserialize, Debug, PartialEq, Clone)]
#[serde(rename = "s_protocols")]
pub struct Protocols {
    #[serde(rename = "@a_shown")]
    pub a: Shown,
    #[serde(rename = "@a_shown_list")]
    pub l: Vec<Shown>,
    pub t_shown: Shown,
    pub k_kv: KvMap,
    pub x_shown: TextAny<Shown>,
}
fn gen_protocols(r: &mut Rng) -> Protocols {
    let mut kv = BTreeMap::new();
    for _ in 0..gen_len(r).min(6) {
        kv.insert(gen_key(r), gen_string(r, Pos::Text));
    }
    Protocols {
        a: Shown(gen_string(r, Pos::Attr)),
        l: (0..gen_len(r).min(4)).map(|_| Shown(gen_string(r, Pos::Item))).collect(),
        t_shown: Shown(gen_string(r, Pos::Text)),
        k_kv: KvMap(kv),
        x_shown: TextAny { k: r.next() as u8, t: Shown(gen_string(r, Pos::MixedText)) },
    }
}

pub fn family() -> Vec<TypeOps> {
    vec![
        ops!(Attrs, "Attrs", gen = gen_attrs, rows = &["attribute:string", "attribute:number", "attribute:bool", "attribute:char", "attribute:unit-enum", "attribute:option-skipped", "attribute:xs-list"]),
        ops!(Elems, "Elems", gen = gen_elems, rows = &["element:string", "element:number", "element:bool", "element:char", "element:unit-enum", "element:unit", "element:nested-struct"]),
        ops!(Opt, "Opt", gen = gen_opt, rows = &["option:attribute", "option:element", "option:struct"]),
        ops!(Lists, "Lists", gen = gen_lists, rows = &["list:elements-string", "list:elements-number", "list:elements-struct", "list:empty-with-default"]),
        ops!(TextStr, "TextStr", gen = gen_textstr, rows = &["$text:string"]),
        ops!(TextNum, "TextNum", gen = |r| TextNum { n: gen_i(r, &[i64::MIN, i64::MAX, 0], |r| r.next() as i64) }, rows = &["$text:number"]),
        ops!(TextList, "TextList", gen = gen_textlist, rows = &["$text:xs-list", "attribute:xs-list"]),
        ops!(HasChoice, "HasChoice", gen = |r| HasChoice { k: r.next() as u8, c: gen_choice(r) }, rows = &["$value:enum-choice", "enum:unit-variant", "enum:newtype-variant", "enum:struct-variant"]),
        ops!(HasChoices, "HasChoices", gen = |r| HasChoices { items: (0..gen_len(r).min(6)).map(|_| gen_choice(r)).collect() }, rows = &["$value:list-of-choices"]),
        ops!(HasMixed, "HasMixed", gen = gen_mixed, rows = &["$value:mixed-list-with-text"]),
        ops!(Top, "Top", gen = gen_top, rows = &["enum:top-level-unit", "enum:top-level-newtype", "enum:top-level-struct"]),
        ops!(NewT, "NewT", gen = |r| NewT(gen_string(r, Pos::Text)), rows = &["newtype-struct"]),
        ops!(HasTuple, "HasTuple", gen = |r| HasTuple { t_pair: (gen_string(r, Pos::Text), r.next() as u8), t_e: gen_unit3(r), t_z: r.next() as u8 }, rows = &["tuple:fixed-size-list", "element:unit-enum"]),
        ops!(HasMap, "HasMap", gen = |r| HasMap { k: r.next() as u8, k_m: gen_map(r) }, rows = &["map:name-like-keys"]),
        ops!(Deep, "Deep", gen = gen_deep, rows = &["nested:lists-of-structs-with-lists"]),
        ops!(Nums, "Nums", gen = gen_nums, rows = &["numbers:extremes", "list:elements-number"]),
        ops!(ListText, "ListText", gen = gen_listtext, rows = &["list:elements-followed-by-$text"]),
        ops!(ValuePlus, "ValuePlus", gen = |r| ValuePlus { k: r.next() as u8, t_title: gen_string(r, Pos::Text), c: gen_choice(r), t_tail: r.next() as u32 }, rows = &["$value:enum-choice-next-to-element-fields"]),
        ops!(ListKinds, "ListKinds", gen = gen_listkinds, rows = &["attribute:xs-list-of-bool-char-enum-float", "attribute:tuple", "list:elements-bool-char", "element:newtype"]),
        ops!(TextEnum, "TextEnum", gen = |r| TextEnum { w: Wrap(gen_string(r, Pos::Attr)), ob: if r.bool() { Some(r.bool()) } else { None }, t: gen_unit3(r) }, rows = &["$text:unit-enum", "attribute:newtype", "attribute:option-bool"]),
        ops!(TextBool, "TextBool", gen = |r| TextBool { u: gen_unit3(r), t: r.bool() }, rows = &["$text:bool"]),
        ops!(TextChar, "TextChar", gen = |r| TextChar { c: gen_char(r, Pos::Attr), t: gen_char(r, Pos::Text) }, rows = &["$text:char"]),
        ops!(TextWrap, "TextWrap", gen = |r| TextWrap { k: r.next() as u8, t: Wrap(gen_string(r, Pos::Text)) }, rows = &["$text:newtype"]),
        ops!(TextOpt, "TextOpt", gen = gen_textopt, rows = &["$text:option"]),
        ops!(TypedKeys, "TypedKeys", gen = gen_typedkeys, rows = &["map:bool-keys", "map:unit-enum-keys", "map:char-keys"]),
        ops!(TextFirst, "TextFirst", gen = gen_textfirst, rows = &["$text-followed-by-element-lists"]),
        ops!(HasMixed2, "HasMixed2", gen = gen_mixed2, rows = &["$value:mixed-list-whose-elements-have-text-content"]),
        ops!(OptTextEl, "OptTextEl", gen = gen_opttextel, rows = &["named-children-and-optional-$text", "list:elements-unit"]),
        ops!(Protocols, "Protocols", gen = gen_protocols, rows = &["serializer-protocol:collect_str", "serializer-protocol:serialize_key+serialize_value"]),
        ops!(NamePrefix, "NamePrefix", gen = gen_nameprefix, rows = &["names-that-are-prefixes-of-one-another"]),
        ops!(Tree, "Tree", gen = gen_tree, rows = &["$value:recursive-struct-variants-with-$value-lists"]),
        TypeOps {
            name: "Borrowing",
            gen: Some(|r: &mut Rng| -> Box<dyn Val> { Box::new(gen_borrowtwin(r)) }),
            de_str: de_str_borrowing,
            de_reader: de_reader_impl::<BorrowTwin>,
            de_str_many: de_str_many_impl::<BorrowTwin>,
            de_reader_many: de_reader_many_impl::<BorrowTwin>,
            de_resolver: de_resolver_impl::<BorrowTwin>,
            rows: &["strings-borrowed-from-the-input"],
        },
    ]
}

fn gen_ovl_strings(r: &mut Rng, max: usize) -> Vec<String> {
    (0..r.below(max + 1)).map(|_| gen_string(r, Pos::Text)).collect()
}
fn gen_ovl_nums(r: &mut Rng, max: usize) -> Vec<u32> {
    (0..r.below(max + 1)).map(|_| r.next() as u32 % 1000).collect()
}
pub fn gen_ovl2(r: &mut Rng, max: usize) -> Ovl2 {
    Ovl2 { t_a: gen_ovl_strings(r, max), t_b: gen_ovl_nums(r, max) }
}

/// Shapes for the overlapped-lists property (C20): (ops, generator with a size bound)
pub fn ovl_family() -> Vec<(TypeOps, fn(&mut Rng, usize) -> Box<dyn Val>)> {
    vec![
        (ops!(Ovl2, "Ovl2"), |r, m| Box::new(gen_ovl2(r, m))),
        (ops!(Ovl3, "Ovl3"), |r, m| Box::new(Ovl3 { t_a: gen_ovl_strings(r, m), t_b: gen_ovl_nums(r, m), t_c: gen_ovl_strings(r, m.min(2).max(m / 2)) })),
        (ops!(OvlText, "OvlText"), |r, m| {
            // plain tokens: the text is never empty and never looks like markup or whitespace
            Box::new(OvlText { k: r.next() as u8, t_a: gen_ovl_strings(r, m), t_b: gen_ovl_nums(r, m), t: format!("txt{}", r.below(100)) })
        }),
        (ops!(OvlScalar, "OvlScalar"), |r, m| {
            Box::new(OvlScalar {
                k: r.next() as u8,
                t_a: gen_ovl_strings(r, m),
                t_one: gen_string(r, Pos::Text),
                t_b: gen_ovl_nums(r, m),
                t_opt: if r.bool() { Some(gen_nonempty(r, Pos::Text)) } else { None },
            })
        }),
        (ops!(OvlSame, "OvlSame"), |r, m| {
            Box::new(OvlSame {
                s_item: (0..r.below(m + 1)).map(|_| OvlItem { t_b: gen_ovl_nums(r, 2), t_v: gen_string(r, Pos::Text) }).collect(),
                t_b: gen_ovl_nums(r, m),
            })
        }),
        (ops!(OvlValue, "OvlValue"), |r, m| {
            Box::new(OvlValue {
                t_a: gen_ovl_strings(r, m),
                items: (0..r.below(m + 1)).map(|_| if r.bool() { OvlChoice::Q } else { OvlChoice::P(gen_string(r, Pos::Text)) }).collect(),
            })
        }),
        (ops!(OvlDeep, "OvlDeep"), |r, m| {
            Box::new(OvlDeep {
                t_c: gen_ovl_strings(r, m.min(3)),
                s_item2: (0..r.below(m.min(3) + 1)).map(|_| OvlItem2 { t_a: gen_ovl_strings(r, 2), t_b: gen_ovl_nums(r, 2) }).collect(),
                t_d: gen_ovl_nums(r, m.min(3)),
            })
        }),
        (ops!(OvlRec, "OvlRec"), |r, m| {
            Box::new(OvlRec {
                t_a: gen_ovl_strings(r, m.min(3)),
                t_b: (0..r.below(m.min(3) + 1)).map(|_| OvlNode { id: r.next() as u8, t_b: (0..r.below(3)).map(|_| OvlLeaf { id: r.next() as u8 }).collect() }).collect(),
                t_c: gen_ovl_strings(r, m.min(3)),
            })
        }),
        (ops!(OvlNested, "OvlNested"), |r, m| {
            Box::new(OvlNested { t_a: gen_ovl_strings(r, m), s_ovl2: gen_ovl2(r, 2), t_c: gen_ovl_strings(r, m.min(2)) })
        }),
        (ops!(OvlWrap<OvlOpt>, "WrapOvlOpt"), |r, m| {
            Box::new(OvlWrap {
                w_inner: OvlOpt {
                    t_a: gen_ovl_strings(r, m),
                    s_item2: if r.below(3) == 0 { Some(OvlItem2 { t_a: gen_ovl_strings(r, 2), t_b: gen_ovl_nums(r, 2) }) } else { None },
                    t_b: gen_ovl_nums(r, m),
                    t_opt: if r.below(3) == 0 { Some(gen_nonempty(r, Pos::Text)) } else { None },
                },
            })
        }),
        (ops!(OvlWrap<OvlScalar>, "WrapOvlScalar"), |r, m| {
            Box::new(OvlWrap {
                w_inner: OvlScalar {
                    k: r.next() as u8,
                    t_a: gen_ovl_strings(r, m),
                    t_one: gen_string(r, Pos::Text),
                    t_b: gen_ovl_nums(r, m),
                    t_opt: if r.bool() { Some(gen_nonempty(r, Pos::Text)) } else { None },
                },
            })
        }),
        (ops!(OvlWrap<OvlRec>, "WrapOvlRec"), |r, m| {
            Box::new(OvlWrap {
                w_inner: OvlRec {
                    t_a: gen_ovl_strings(r, m.min(3)),
                    t_b: (0..r.below(m.min(3) + 1)).map(|_| OvlNode { id: r.next() as u8, t_b: (0..r.below(3)).map(|_| OvlLeaf { id: r.next() as u8 }).collect() }).collect(),
                    t_c: gen_ovl_strings(r, m.min(3)),
                },
            })
        }),
        // (a flattened member makes the struct a map for serde: it has no name of its own, so it sits in the wrapper)
        (ops!(OvlWrap<OvlFlat>, "WrapOvlFlat"), |r, m| {
            Box::new(OvlWrap { w_inner: OvlFlat { extra: OvlExtra { id: format!("id{}", r.below(100)) }, t_a: gen_ovl_strings(r, m), t_b: gen_ovl_nums(r, m), t: format!("txt{}", r.below(100)) } })
        }),
        (ops!(OvlWrap<BTreeMap<String, Vec<String>>>, "WrapOvlMap"), |r, m| {
            let mut map = BTreeMap::new();
            for k in ["t_a", "t_b", "t_c"] {
                let n = r.below(m + 1);
                if n > 0 {
                    map.insert(k.to_string(), (0..n).map(|_| gen_string(r, Pos::Text)).collect::<Vec<String>>());
                }
            }
            if r.bool() {
                map.insert("$text".to_string(), vec![format!("txt{}", r.below(100))]);
            }
            Box::new(OvlWrap { w_inner: map })
        }),
        (ops!(OvlOpt, "OvlOpt"), |r, m| {
            Box::new(OvlOpt {
                t_a: gen_ovl_strings(r, m),
                s_item2: if r.below(3) == 0 { Some(OvlItem2 { t_a: gen_ovl_strings(r, 2), t_b: gen_ovl_nums(r, 2) }) } else { None },
                t_b: gen_ovl_nums(r, m),
                t_opt: if r.below(3) == 0 { Some(gen_nonempty(r, Pos::Text)) } else { None },
            })
        }),
    ]
}

// ---- optional content ($value / $text / elements as Option) ---------------
// Used as deserialization targets and as base documents for C07 / C14 (not part of the C06 domain).

#[derive(Serialize, Deserialize, Debug, PartialEq, Clone)]
#[serde(rename = "x_optvalue")]
pub struct OptValue {
    #[serde(rename = "@a_k", skip_serializing_if = "Option::is_none", default)]
    pub k: Option<String>,
    #[serde(rename = "$value", skip_serializing_if = "Option::is_none", default)]
    pub v: Option<String>,
}
#[derive(Serialize, Deserialize, Debug, PartialEq, Clone)]
#[serde(rename = "s_optchoice")]
pub struct OptChoice {
    #[serde(rename = "$value", skip_serializing_if = "Option::is_none", default)]
    pub v: Option<Choice>,
}
#[derive(Serialize, Deserialize, Debug, PartialEq, Clone)]
#[serde(rename = "x_opttext")]
pub struct OptText {
    #[serde(rename = "@a_k", default)]
    pub k: u8,
    #[serde(rename = "$text", skip_serializing_if = "Option::is_none", default)]
    pub t: Option<String>,
}
#[derive(Serialize, Deserialize, Debug, PartialEq, Clone)]
#[serde(rename = "s_optholder")]
pub struct OptHolder {
    pub x_optvalue: OptValue,
    #[serde(skip_serializing_if = "Option::is_none", default)]
    pub t_other: Option<String>,
    #[serde(skip_serializing_if = "Option::is_none", default)]
    pub s_optchoice: Option<OptChoice>,
    #[serde(skip_serializing_if = "Option::is_none", default)]
    pub x_opttext: Option<OptText>,
    #[serde(default)]
    pub s_inner: Vec<Option<Inner>>,
}
fn gen_optvalue(r: &mut Rng) -> OptValue {
    OptValue {
        k: if r.bool() { Some(gen_string(r, Pos::Attr)) } else { None },
        v: if r.bool() { Some(gen_nonempty(r, Pos::Text)) } else { None },
    }
}
fn gen_optchoice(r: &mut Rng) -> OptChoice {
    OptChoice { v: if r.bool() { Some(gen_choice(r)) } else { None } }
}
fn gen_opttext(r: &mut Rng) -> OptText {
    OptText { k: r.next() as u8, t: if r.bool() { Some(gen_nonempty(r, Pos::Text)) } else { None } }
}

/// Types with optional content; generators produce valid base documents for the mutation monitors.
pub fn optional_family() -> Vec<TypeOps> {
    vec![
        ops!(OptValue, "OptValue", gen = gen_optvalue, rows = &[]),
        ops!(OptChoice, "OptChoice", gen = gen_optchoice, rows = &[]),
        ops!(OptText, "OptText", gen = gen_opttext, rows = &[]),
        ops!(OptHolder, "OptHolder", gen = |r| OptHolder {
            x_optvalue: gen_optvalue(r),
            t_other: if r.bool() { Some(gen_nonempty(r, Pos::Text)) } else { None },
            s_optchoice: if r.bool() { Some(gen_optchoice(r)) } else { None },
            x_opttext: if r.bool() { Some(gen_opttext(r)) } else { None },
            s_inner: (0..r.below(3)).map(|_| Some(gen_inner(r))).collect(),
        }, rows = &[]),
    ]
}


// ---------------------------------------------------------------------------
// generic holders: one field of any type in `$text`, `$value`, attribute or element position
// (serialize-only shapes for C13 / C19 and extra targets for C07)
// ---------------------------------------------------------------------------

#[derive(Serialize, Deserialize, Debug, PartialEq, Clone)]
#[serde(rename = "x_textany")]
pub struct TextAny<T> {
    #[serde(rename = "@a_k")]
    pub k: u8,
    #[serde(rename = "$text")]
    pub t: T,
}
#[derive(Serialize, Deserialize, Debug, PartialEq, Clone)]
#[serde(rename = "m_valany")]
pub struct ValAny<T> {
    #[serde(rename = "@a_k")]
    pub k: u8,
    #[serde(rename = "$value")]
    pub v: T,
}
#[derive(Serialize, Deserialize, Debug, PartialEq, Clone)]
#[serde(rename = "s_attrany")]
pub struct AttrAny<T> {
    #[serde(rename = "@a_v")]
    pub v: T,
    pub t_after: String,
}
#[derive(Serialize, Deserialize, Debug, PartialEq, Clone)]
#[serde(rename = "s_elemany")]
pub struct ElemAny<T> {
    pub t_v: T,
    #[serde(rename = "@a_k")]
    pub k: u8,
}
/// every kind of variant, incl. a `$text` variant and a struct variant with attribute and text fields
#[derive(Serialize, Deserialize, Debug, PartialEq, Clone)]
pub enum VarKinds {
    #[serde(rename = "u_U")]
    U,
    #[serde(rename = "t_N")]
    N(String),
    #[serde(rename = "x_S")]
    S {
        #[serde(rename = "@a_x")]
        x: String,
        #[serde(rename = "$text")]
        t: String,
    },
    #[serde(rename = "t_T")]
    T(String, u8),
    #[serde(rename = "$text")]
    Txt(String),
}
fn gen_varkinds(r: &mut Rng) -> VarKinds {
    match r.below(5) {
        0 => VarKinds::U,
        1 => VarKinds::N(gen_string(r, Pos::Attr)),
        2 => VarKinds::S { x: gen_string(r, Pos::Attr), t: gen_string(r, Pos::Attr) },
        3 => VarKinds::T(gen_string(r, Pos::Attr), r.next() as u8),
        _ => VarKinds::Txt(gen_string(r, Pos::Attr)),
    }
}
#[derive(Serialize, Deserialize, Debug, PartialEq, Clone)]
pub enum ShownVar {
    #[serde(rename = "$text")]
    Txt(Shown),
    #[serde(rename = "t_e")]
    E(Shown),
}
/// enums whose `$text` variant is a unit / tuple / struct variant (C07 targets)
#[derive(Serialize, Deserialize, Debug, PartialEq, Clone)]
pub enum TextUnitVar {
    #[serde(rename = "u_A")]
    A,
    #[serde(rename = "$text")]
    T,
}
#[derive(Serialize, Deserialize, Debug, PartialEq, Clone)]
pub enum TextTupleVar {
    #[serde(rename = "u_A")]
    A,
    #[serde(rename = "$text")]
    T(String, u8),
}
#[derive(Serialize, Deserialize, Debug, PartialEq, Clone)]
pub enum TextStructVar {
    #[serde(rename = "u_A")]
    A,
    #[serde(rename = "$text")]
    T { t_x: String },
}


// serde patterns that go through `deserialize_any` / content buffering (C07 targets)
#[derive(Serialize, Deserialize, Debug, PartialEq, Clone)]
#[serde(rename = "s_flat")]
pub struct Flat {
    #[serde(rename = "@a_k", default)]
    pub k: u8,
    #[serde(default)]
    pub t_a: String,
    #[serde(flatten)]
    pub rest: BTreeMap<String, String>,
}
#[derive(Serialize, Deserialize, Debug, PartialEq, Clone)]
#[serde(rename = "s_flat2")]
pub struct Flat2 {
    #[serde(flatten)]
    pub inner: Inner,
    #[serde(flatten)]
    pub rest: BTreeMap<String, serde_json::Value>,
}
#[derive(Serialize, Deserialize, Debug, PartialEq, Clone)]
#[serde(untagged)]
pub enum Untagged {
    I(Inner),
    N(u8),
    L(Vec<String>),
    S(String),
    U,
}
#[derive(Serialize, Deserialize, Debug, PartialEq, Clone)]
#[serde(tag = "t_type")]
pub enum IntTagged {
    #[serde(rename = "u_A")]
    A { t_a: String },
    #[serde(rename = "u_B")]
    B(Inner),
    #[serde(rename = "u_C")]
    C,
}
#[derive(Serialize, Deserialize, Debug, PartialEq, Clone)]
#[serde(tag = "@a_t", content = "t_c")]
pub enum AdjTagged {
    #[serde(rename = "u_A")]
    A(String),
    #[serde(rename = "u_B")]
    B { t_x: u8 },
    #[serde(rename = "u_C")]
    C,
}
#[derive(Serialize, Deserialize, Debug, PartialEq, Clone)]
pub struct TupleStruct(pub u8, pub String, pub Option<Inner>);
/// a field that asks for bytes (`deserialize_byte_buf`) and accepts bytes, strings and sequences
#[derive(Debug, PartialEq, Clone, Default)]
pub struct ByteBuf(pub Vec<u8>);
impl Serialize for ByteBuf {
    fn serialize<S: serde::Serializer>(&self, s: S) -> Result<S::Ok, S::Error> {
        s.serialize_bytes(&self.0)
    }
}
impl<'de> Deserialize<'de> for ByteBuf {
    fn deserialize<D: serde::Deserializer<'de>>(d: D) -> Result<Self, D::Error> {
        struct V;
        impl<'de> serde::de::Visitor<'de> for V {
            type Value = ByteBuf;
            fn expecting(&self, f: &mut std::fmt::Formatter) -> std::fmt::Result {
                f.write_str("bytes")
            }
            fn visit_bytes<E: serde::de::Error>(self, v: &[u8]) -> Result<ByteBuf, E> {
                Ok(ByteBuf(v.to_vec()))
            }
            fn visit_str<E: serde::de::Error>(self, v: &str) -> Result<ByteBuf, E> {
                Ok(ByteBuf(v.as_bytes().to_vec()))
            }
            fn visit_seq<A: serde::de::SeqAccess<'de>>(self, mut a: A) -> Result<ByteBuf, A::Error> {
                let mut out = Vec::new();
                while let Some(b) = a.next_element::<u8>()? {
                    out.push(b);
                    if out.len() > 1 << 20 {
                        break;
                    }
                }
                Ok(ByteBuf(out))
            }
        }
        d.deserialize_byte_buf(V)
    }
}


// ---------------------------------------------------------------------------
// documents in a legacy encoding with names outside ASCII (C07, C17)
// ---------------------------------------------------------------------------

/// attribute names of 1..8 Cyrillic letters, an element with a Cyrillic name and mixed content
#[derive(Serialize, Deserialize, Debug, PartialEq, Clone, Default)]
#[serde(rename = "корень")]
pub struct CyrDoc {
    #[serde(rename = "@а", default)]
    pub a1: Option<String>,
    #[serde(rename = "@аб", default)]
    pub a2: Option<String>,
    #[serde(rename = "@абв", default)]
    pub a3: Option<String>,
    #[serde(rename = "@абвг", default)]
    pub a4: Option<String>,
    #[serde(rename = "@абвгд", default)]
    pub a5: Option<String>,
    #[serde(rename = "@абвгде", default)]
    pub a6: Option<String>,
    #[serde(rename = "@абвгдеж", default)]
    pub a7: Option<String>,
    #[serde(rename = "@xабвгдежз", default)]
    pub a8: Option<String>,
    /// space-separated list in an attribute
    #[serde(rename = "@список", default)]
    pub list: Vec<String>,
    #[serde(rename = "значение", default)]
    pub name: String,
    /// space-separated list as the text of an element
    #[serde(rename = "слова", default)]
    pub words: CyrWords,
    #[serde(rename = "$value", default)]
    pub rest: Vec<CyrItem>,
}
#[derive(Serialize, Deserialize, Debug, PartialEq, Clone, Default)]
pub struct CyrWords {
    #[serde(rename = "@числа", default)]
    pub nums: Vec<u16>,
    #[serde(rename = "$text", default)]
    pub items: Vec<String>,
}
#[derive(Serialize, Deserialize, Debug, PartialEq, Clone)]
pub enum CyrItem {
    #[serde(rename = "элемент")]
    Item(String),
    #[serde(rename = "э")]
    Short,
    #[serde(rename = "$text")]
    Text(String),
}
/// (UTF-8 document without declaration, the same document with a declaration naming `label`)
pub fn gen_cyr_doc(r: &mut Rng, label: &str) -> (String, String, CyrDoc) {
    let word = |r: &mut Rng| -> String { (0..1 + r.below(6)).map(|_| *r.pick(&['д', 'о', 'м', 'я', 'ж', 'a', '1', 'щ'])).collect() };
    let opt = |r: &mut Rng| -> Option<String> { if r.below(3) == 0 { Some((0..1 + r.below(6)).map(|_| *r.pick(&['д', 'о', 'м', 'я', 'ж', 'a', '1', 'щ'])).collect()) } else { None } };
    let v = CyrDoc {
        a1: opt(r),
        a2: opt(r),
        a3: opt(r),
        a4: opt(r),
        a5: opt(r),
        a6: opt(r),
        a7: opt(r),
        a8: opt(r),
        list: (0..r.below(6)).map(|_| word(r)).collect(),
        name: word(r),
        words: CyrWords { nums: (0..r.below(5)).map(|_| r.next() as u16).collect(), items: (0..r.below(6)).map(|_| word(r)).collect() },
        rest: {
            let mut items = Vec::new();
            for _ in 0..r.below(4) {
                let last_text = matches!(items.last(), Some(CyrItem::Text(_)));
                items.push(match r.below(3) {
                    0 => CyrItem::Item(word(r)),
                    1 => CyrItem::Short,
                    _ if last_text => CyrItem::Short,
                    _ => CyrItem::Text(word(r)),
                });
            }
            items
        },
    };
    // None attributes are not written
    let mut body = String::from("<корень");
    for (k, a) in [("а", &v.a1), ("аб", &v.a2), ("абв", &v.a3), ("абвг", &v.a4), ("абвгд", &v.a5), ("абвгде", &v.a6), ("абвгдеж", &v.a7), ("xабвгдежз", &v.a8)] {
        if let Some(x) = a {
            body.push_str(&format!(" {}=\"{}\"", k, x));
        }
    }
    if !v.list.is_empty() {
        // one or several spaces between the items
        let sep = if r.bool() { " " } else { "  " };
        body.push_str(&format!(" список=\"{}\"", v.list.join(sep)));
    }
    body.push_str(&format!("><значение>{}</значение>", v.name));
    body.push_str("<слова");
    if !v.words.nums.is_empty() {
        body.push_str(&format!(" числа=\"{}\"", v.words.nums.iter().map(|n| n.to_string()).collect::<Vec<_>>().join(" ")));
    }
    body.push_str(&format!(">{}</слова>", v.words.items.join(" ")));
    for it in &v.rest {
        match it {
            CyrItem::Item(x) => body.push_str(&format!("<элемент>{}</элемент>", x)),
            CyrItem::Short => body.push_str("<э/>"),
            CyrItem::Text(x) => body.push_str(x),
        }
    }
    body.push_str("</корень>");
    let declared = format!("<?xml version=\"1.0\" encoding=\"{}\"?>{}", label, body);
    (body, declared, v)
}

/// Extra deserialization targets for the totality property (C07); no generators.
pub fn extra_targets() -> Vec<TypeOps> {
    vec![
        ops!(String, "String"),
        ops!(f64, "f64"),
        ops!(bool, "bool"),
        ops!(char, "char"),
        ops!((), "unit"),
        ops!((String, u8), "(String,u8)"),
        ops!(Option<Inner>, "Option<Inner>"),
        ops!(Vec<String>, "Vec<String>"),
        ops!(Vec<Choice>, "Vec<Choice>"),
        ops!(std::collections::HashMap<String, String>, "HashMap<String,String>"),
        ops!(BTreeMap<String, String>, "BTreeMap<String,String>"),
        ops!(WithIgnored, "WithIgnored"),
        ops!(UnitStruct, "UnitStruct"),
        ops!(OptNoSkip, "OptNoSkip"),
        ops!(Choice, "Choice"),
        ops!(Mixed, "Mixed"),
        ops!(Unit3, "Unit3"),
        ops!(Inner, "Inner"),
        ops!(BTreeMap<String, Inner>, "BTreeMap<String,Inner>"),
        ops!(Vec<(String, u8)>, "Vec<(String,u8)>"),
        ops!(u8, "u8"),
        ops!(i128, "i128"),
        // compositions of Option / sequence / unit / map at the top level
        ops!(Option<String>, "Option<String>"),
        ops!(Option<Option<String>>, "Option<Option<String>>"),
        ops!(Option<Vec<String>>, "Option<Vec<String>>"),
        ops!(Option<()>, "Option<unit>"),
        ops!(Vec<Option<String>>, "Vec<Option<String>>"),
        ops!(Vec<Option<u8>>, "Vec<Option<u8>>"),
        ops!(Vec<Option<Inner>>, "Vec<Option<Inner>>"),
        ops!(Vec<Option<()>>, "Vec<Option<unit>>"),
        ops!(Vec<()>, "Vec<unit>"),
        ops!(Vec<UnitStruct>, "Vec<UnitStruct>"),
        ops!(Vec<Unit3>, "Vec<Unit3>"),
        ops!(Vec<f64>, "Vec<f64>"),
        ops!(Vec<ignored::Ign>, "Vec<IgnoredAny>"),
        ops!(ignored::Ign, "IgnoredAny"),
        ops!(Vec<OptValue>, "Vec<OptValue>"),
        ops!((Option<String>, Option<u8>, Vec<Option<String>>), "(Option,Option,Vec<Option>)"),
        ops!(std::collections::HashMap<String, Option<String>>, "HashMap<String,Option<String>>"),
        ops!(BTreeMap<String, Vec<Option<String>>>, "BTreeMap<String,Vec<Option<String>>>"),
        ops!(BTreeMap<String, ()>, "BTreeMap<String,unit>"),
        ops!(BTreeMap<String, ignored::Ign>, "BTreeMap<String,IgnoredAny>"),
        ops!(Vec<BTreeMap<String, String>>, "Vec<BTreeMap<String,String>>"),
        ops!(Box<Option<Box<Inner>>>, "Box<Option<Box<Inner>>>"),
        // every kind of type in $text / $value / attribute / element position, typed map keys, $text variants
        ops!(TextAny<Vec<String>>, "TextAny<Vec<String>>"),
        ops!(TextAny<(String, u8)>, "TextAny<(String,u8)>"),
        ops!(TextAny<Option<String>>, "TextAny<Option<String>>"),
        ops!(TextAny<()>, "TextAny<unit>"),
        ops!(TextAny<UnitStruct>, "TextAny<UnitStruct>"),
        ops!(TextAny<Unit3>, "TextAny<Unit3>"),
        ops!(TextAny<Choice>, "TextAny<Choice>"),
        ops!(TextAny<Inner>, "TextAny<Inner>"),
        ops!(TextAny<ignored::Ign>, "TextAny<IgnoredAny>"),
        ops!(TextAny<Vec<Option<u8>>>, "TextAny<Vec<Option<u8>>>"),
        ops!(ValAny<String>, "ValAny<String>"),
        ops!(ValAny<Vec<String>>, "ValAny<Vec<String>>"),
        ops!(ValAny<Option<Unit3>>, "ValAny<Option<Unit3>>"),
        ops!(ValAny<()>, "ValAny<unit>"),
        ops!(ValAny<(String, u8, Inner)>, "ValAny<(String,u8,Inner)>"),
        ops!(ValAny<Vec<VarKinds>>, "ValAny<Vec<VarKinds>>"),
        ops!(ValAny<Vec<TextTupleVar>>, "ValAny<Vec<TextTupleVar>>"),
        ops!(ValAny<TextStructVar>, "ValAny<TextStructVar>"),
        ops!(ValAny<Vec<TextUnitVar>>, "ValAny<Vec<TextUnitVar>>"),
        ops!(AttrAny<Option<Vec<u8>>>, "AttrAny<Option<Vec<u8>>>"),
        ops!(AttrAny<()>, "AttrAny<unit>"),
        ops!(AttrAny<(String, String)>, "AttrAny<(String,String)>"),
        ops!(AttrAny<Choice>, "AttrAny<Choice>"),
        ops!(AttrAny<Inner>, "AttrAny<Inner>"),
        ops!(AttrAny<Wrap>, "AttrAny<Wrap>"),
        ops!(AttrAny<char>, "AttrAny<char>"),
        ops!(ElemAny<Vec<Unit3>>, "ElemAny<Vec<Unit3>>"),
        ops!(ElemAny<Vec<Vec<String>>>, "ElemAny<Vec<Vec<String>>>"),
        ops!(ElemAny<(Inner, Unit3, ())>, "ElemAny<(Inner,Unit3,unit)>"),
        ops!(ElemAny<Option<Option<Inner>>>, "ElemAny<Option<Option<Inner>>>"),
        ops!(ElemAny<BTreeMap<String, Vec<String>>>, "ElemAny<BTreeMap<String,Vec<String>>>"),
        ops!(VarKinds, "VarKinds"),
        ops!(Vec<VarKinds>, "Vec<VarKinds>"),
        ops!(TextUnitVar, "TextUnitVar"),
        ops!(TextTupleVar, "TextTupleVar"),
        ops!(TextStructVar, "TextStructVar"),
        ops!(BTreeMap<u8, String>, "BTreeMap<u8,String>"),
        ops!(BTreeMap<i64, u8>, "BTreeMap<i64,u8>"),
        ops!(BTreeMap<bool, String>, "BTreeMap<bool,String>"),
        ops!(BTreeMap<char, String>, "BTreeMap<char,String>"),
        ops!(BTreeMap<Unit3, String>, "BTreeMap<Unit3,String>"),
        ops!(BTreeMap<Option<String>, String>, "BTreeMap<Option<String>,String>"),
        ops!(BTreeMap<(), String>, "BTreeMap<unit,String>"),
        // deserialize_any / buffered content: flatten, untagged, internally and adjacently tagged, serde_json::Value
        ops!(Flat, "Flat"),
        ops!(Flat2, "Flat2"),
        ops!(Untagged, "Untagged"),
        ops!(Vec<Untagged>, "Vec<Untagged>"),
        ops!(ValAny<Vec<Untagged>>, "ValAny<Vec<Untagged>>"),
        ops!(ElemAny<Untagged>, "ElemAny<Untagged>"),
        ops!(IntTagged, "IntTagged"),
        ops!(ElemAny<Vec<IntTagged>>, "ElemAny<Vec<IntTagged>>"),
        ops!(AdjTagged, "AdjTagged"),
        ops!(serde_json::Value, "serde_json::Value"),
        ops!(Vec<serde_json::Value>, "Vec<serde_json::Value>"),
        ops!(BTreeMap<String, serde_json::Value>, "BTreeMap<String,serde_json::Value>"),
        ops!(TupleStruct, "TupleStruct"),
        ops!(ElemAny<TupleStruct>, "ElemAny<TupleStruct>"),
        ops!(ByteBuf, "ByteBuf"),
        ops!(ElemAny<ByteBuf>, "ElemAny<ByteBuf>"),
        ops!(AttrAny<ByteBuf>, "AttrAny<ByteBuf>"),
        ops!(TextAny<ByteBuf>, "TextAny<ByteBuf>"),
        ops!(ElemAny<Vec<()>>, "ElemAny<Vec<unit>>"),
        ops!(ElemAny<Vec<Wrap>>, "ElemAny<Vec<Wrap>>"),
        ops!(ElemAny<Vec<UnitStruct>>, "ElemAny<Vec<UnitStruct>>"),
    ]
}

// ---------------------------------------------------------------------------
// serialize-only types outside the round-trippable domain (C13)
// ---------------------------------------------------------------------------

#[derive(Serialize, Debug, PartialEq, Clone)]
#[serde(rename = "s_nestedseq")]
pub struct NestedSeq {
    pub t_rows: Vec<Vec<String>>,
    #[serde(rename = "@a_grid")]
    pub grid: Vec<Vec<u8>>,
}

#[derive(Debug, PartialEq, Clone)]
pub struct RawBytes(pub Vec<u8>);
impl Serialize for RawBytes {
    fn serialize<S: serde::Serializer>(&self, s: S) -> Result<S::Ok, S::Error> {
        s.serialize_bytes(&self.0)
    }
}
#[derive(Serialize, Debug, PartialEq, Clone)]
#[serde(rename = "s_bytes")]
pub struct HasBytes {
    #[serde(rename = "@a_b")]
    pub a: RawBytes,
    pub t_b: RawBytes,
    #[serde(rename = "$text")]
    pub t: RawBytes,
}

#[derive(Serialize, Debug, PartialEq, Clone, Copy)]
pub enum Weird {
    #[serde(rename = "<")]
    Lt,
    #[serde(rename = "a b")]
    Sp,
    #[serde(rename = "1a")]
    Digit,
    #[serde(rename = "")]
    Empty,
    #[serde(rename = "a>b")]
    Gt,
    #[serde(rename = "x:y")]
    Colon,
    #[serde(rename = "é-1")]
    Fine,
    #[serde(rename = "@at")]
    At,
    #[serde(rename = "$text")]
    Text,
    #[serde(rename = "-a")]
    Dash,
    #[serde(rename = "é b")]
    NonAsciiSp,
    #[serde(rename = "é><x/")]
    NonAsciiInject,
}
pub const WEIRD_ALL: [Weird; 12] = [Weird::Lt, Weird::Sp, Weird::Digit, Weird::Empty, Weird::Gt, Weird::Colon, Weird::Fine, Weird::At, Weird::Text, Weird::Dash, Weird::NonAsciiSp, Weird::NonAsciiInject];

#[derive(Serialize, Debug, PartialEq, Clone)]
#[serde(rename = "s_weird")]
pub struct WeirdHolder {
    #[serde(rename = "@a_w")]
    pub a: Weird,
    pub t_w: Weird,
    #[serde(rename = "$value")]
    pub v: Vec<Weird>,
}
#[derive(Serialize, Debug, PartialEq, Clone)]
pub enum WeirdNewtype {
    #[serde(rename = "")]
    Empty(String),
    #[serde(rename = "a b")]
    Sp(String),
    #[serde(rename = "ok")]
    Ok(String),
    #[serde(rename = "<x>")]
    Tag { t_a: String },
}

macro_rules! weird_field {
    ($name:ident, $field:literal) => {
        #[derive(Serialize, Debug, PartialEq, Clone)]
        #[serde(rename = "s_weirdfield")]
        pub struct $name {
            pub t_before: String,
            #[serde(rename = $field)]
            pub bad: String,
            pub t_after: String,
        }
    };
}
weird_field!(FieldLt, "<");
weird_field!(FieldSp, "a b");
weird_field!(FieldDigit, "1a");
weird_field!(FieldEmpty, "");
weird_field!(FieldAt, "@");
weird_field!(FieldAtSp, "@x y");
weird_field!(FieldAtLt, "@<");
weird_field!(FieldAtOk, "@fine");
weird_field!(FieldGt, "a>");
weird_field!(FieldQuote, "a\"b");

#[derive(Serialize, Debug, PartialEq, Clone)]
#[serde(rename = "s_rec")]
pub struct Rec {
    #[serde(rename = "@a_d")]
    pub d: u32,
    pub t_v: String,
    #[serde(skip_serializing_if = "Option::is_none")]
    pub s_rec: Option<Box<Rec>>,
}

#[derive(Serialize, Debug, PartialEq, Clone)]
#[serde(rename = "k_anymap")]
pub struct AnyMap {
    #[serde(flatten)]
    pub m: BTreeMap<String, String>,
}

pub const KEY_POOL: &[&str] = &[
    "", "@", "@x y", "$text", "$value", "<", ">", "a:b", "ok", "k1", "a b", "1a", "@fine", "@a<b", "é", "-x", "x-", "a.b", "@", "@@", "@$text", "xml", "xmlns", "@xmlns", "@xmlns:p", "a\"b", "a'b", "a&b",
    "\u{0}", "@\u{0}", " ", "@ ", "a=b", "a/b", "/", "@/", "@a", "@@a", "@@@a", "@@fine", "a", "@k1", "@@k1", "$$text", "@$value",
    // a legal non-ASCII first character followed by something illegal (and legal look-alikes)
    "é b", "é>", "é><evil/", "é<", "éa\"b", "日 本", "日本", "Ωa/b", "Ω=1", "@é b", "@é>", "@日=\"x\"", "éé", "é-1.x", "ж\u{0}", "é\u{B7}", "\u{B7}é",
];

/// mixed content with items that write nothing (None, empty list) between text and elements
#[derive(Serialize, Debug, PartialEq, Clone)]
#[serde(rename = "m_mixedopt")]
pub struct MixedOpt {
    #[serde(rename = "@a_k")]
    pub k: u8,
    #[serde(rename = "$value")]
    pub items: Vec<Option<Mixed>>,
}
#[derive(Serialize, Debug, PartialEq, Clone)]
#[serde(rename = "m_mixedtuple")]
pub struct MixedTuple {
    #[serde(rename = "$value")]
    pub items: (String, Option<Inner>, Inner, Vec<Inner>, Mixed, Option<String>),
}
pub fn gen_mixedopt(r: &mut Rng) -> MixedOpt {
    let n = 1 + r.below(7);
    let mut items = Vec::new();
    let mut last_text = false;
    for _ in 0..n {
        let it = match r.below(5) {
            0 | 1 => None,
            2 => Some(Mixed::Br),
            3 => Some(Mixed::Em(gen_string(r, Pos::Text))),
            _ if last_text => Some(Mixed::Br),
            _ => Some(Mixed::Text(gen_string(r, Pos::MixedText))),
        };
        match &it {
            Some(Mixed::Text(_)) => last_text = true,
            Some(_) => last_text = false,
            None => {}
        }
        items.push(it);
    }
    MixedOpt { k: r.next() as u8, items }
}
pub fn gen_mixedtuple(r: &mut Rng) -> MixedTuple {
    MixedTuple {
        items: (
            gen_string(r, Pos::MixedText),
            if r.bool() { Some(gen_inner(r)) } else { None },
            gen_inner(r),
            (0..r.below(3)).map(|_| gen_inner(r)).collect(),
            if r.bool() { Mixed::Br } else { Mixed::Text(gen_string(r, Pos::MixedText)) },
            None,
        ),
    }
}

/// a `$text` variant that is a tuple (written as an xs:list) next to element variants
#[derive(Serialize, Debug, PartialEq, Clone)]
pub enum TextListVar {
    #[serde(rename = "$text")]
    Pair(String, String),
    #[serde(rename = "$text")]
    Three(u8, String, bool),
    #[serde(rename = "t_N")]
    N(String),
    #[serde(rename = "u_U")]
    U,
}
fn gen_item_token(r: &mut Rng) -> String {
    // an xs:list item: no whitespace, not empty
    let s: String = gen_string(r, Pos::Item);
    if s.is_empty() {
        "i".into()
    } else {
        s
    }
}
fn gen_texttuplevars(r: &mut Rng) -> Vec<TextListVar> {
    let mut v = Vec::new();
    let mut last_text = false;
    for _ in 0..1 + r.below(5) {
        let it = match r.below(4) {
            0 if !last_text => TextListVar::Pair(gen_item_token(r), gen_item_token(r)),
            1 if !last_text => TextListVar::Three(r.next() as u8, gen_item_token(r), r.bool()),
            2 => TextListVar::U,
            _ => TextListVar::N(gen_string(r, Pos::Attr)),
        };
        last_text = matches!(it, TextListVar::Pair(..) | TextListVar::Three(..));
        v.push(it);
    }
    v
}
/// a sequence that is opened with an unknown length and gets no item (`collect_seq` over a filtering
/// iterator, a hand-written `Serialize`): it must leave no trace in the output
#[derive(Debug, PartialEq, Clone)]
pub struct NoItems;
impl Serialize for NoItems {
    fn serialize<S: serde::Serializer>(&self, s: S) -> Result<S::Ok, S::Error> {
        use serde::ser::SerializeSeq;
        let seq = s.serialize_seq(None)?;
        seq.end()
    }
}
/// the same through `collect_seq` with an iterator whose size hint has no upper bound equal to the lower
#[derive(Debug, PartialEq, Clone)]
pub struct Filtered(pub Vec<u8>);
impl Serialize for Filtered {
    fn serialize<S: serde::Serializer>(&self, s: S) -> Result<S::Ok, S::Error> {
        s.collect_seq(self.0.iter().filter(|x| **x > 200))
    }
}
#[derive(Serialize, Debug, PartialEq, Clone)]
#[serde(rename = "m_noitems")]
pub struct HasNoItems {
    #[serde(rename = "@a_k")]
    pub k: u8,
    pub t_none: NoItems,
    #[serde(rename = "$text")]
    pub t: String,
}
#[derive(Serialize, Debug, PartialEq, Clone)]
#[serde(rename = "s_noitems2")]
pub struct HasNoItems2 {
    pub t_before: String,
    pub t_f: Filtered,
    pub s_in: NoItemsInner,
    pub t_last: NoItems,
}
#[derive(Serialize, Debug, PartialEq, Clone)]
pub struct NoItemsInner {
    pub t_none: NoItems,
}

pub struct SerOnly {
    pub name: &'static str,
    pub gen: fn(&mut Rng) -> Box<dyn Val>,
}

fn gen_anymap(r: &mut Rng) -> BTreeMap<String, String> {
    let mut m = BTreeMap::new();
    for _ in 0..1 + r.below(5) {
        let k = if r.chance(1, 4) { gen_key(r) } else { r.pick(KEY_POOL).to_string() };
        m.insert(k, gen_string(r, Pos::Attr));
    }
    m
}

pub fn ser_only() -> Vec<SerOnly> {
    macro_rules! so {
        ($name:expr, $f:expr) => {
            SerOnly { name: $name, gen: |r: &mut Rng| -> Box<dyn Val> { Box::new(($f)(r)) } }
        };
    }
    vec![
        so!("MixedOpt", |r: &mut Rng| gen_mixedopt(r)),
        so!("MixedTuple", |r: &mut Rng| gen_mixedtuple(r)),
        so!("OptNoSkip", |r: &mut Rng| OptNoSkip {
            t_a: if r.bool() { Some(gen_string(r, Pos::Attr)) } else { None },
            b: if r.bool() { Some(r.next() as u8) } else { None },
            s_c: if r.bool() { Some(gen_inner(r)) } else { None },
        }),
        so!("NestedSeq", |r: &mut Rng| NestedSeq {
            t_rows: (0..r.below(4)).map(|_| (0..r.below(4)).map(|_| gen_string(r, Pos::Attr)).collect()).collect(),
            grid: (0..r.below(3)).map(|_| (0..r.below(3)).map(|_| r.next() as u8).collect()).collect(),
        }),
        so!("HasBytes", |r: &mut Rng| HasBytes {
            a: RawBytes(gen_string(r, Pos::Attr).into_bytes()),
            t_b: RawBytes((0..r.below(6)).map(|_| r.next() as u8).collect()),
            t: RawBytes(gen_string(r, Pos::Attr).into_bytes()),
        }),
        so!("WeirdHolder", |r: &mut Rng| WeirdHolder {
            a: *r.pick(&WEIRD_ALL),
            t_w: *r.pick(&WEIRD_ALL),
            v: (0..r.below(3)).map(|_| *r.pick(&WEIRD_ALL)).collect(),
        }),
        so!("Weird", |r: &mut Rng| *r.pick(&WEIRD_ALL)),
        so!("WeirdNewtype", |r: &mut Rng| match r.below(4) {
            0 => WeirdNewtype::Empty(gen_string(r, Pos::Attr)),
            1 => WeirdNewtype::Sp(gen_string(r, Pos::Attr)),
            2 => WeirdNewtype::Ok(gen_string(r, Pos::Attr)),
            _ => WeirdNewtype::Tag { t_a: gen_string(r, Pos::Attr) },
        }),
        so!("FieldLt", |r: &mut Rng| FieldLt { t_before: gen_string(r, Pos::Attr), bad: gen_string(r, Pos::Attr), t_after: gen_string(r, Pos::Attr) }),
        so!("FieldSp", |r: &mut Rng| FieldSp { t_before: gen_string(r, Pos::Attr), bad: gen_string(r, Pos::Attr), t_after: gen_string(r, Pos::Attr) }),
        so!("FieldDigit", |r: &mut Rng| FieldDigit { t_before: gen_string(r, Pos::Attr), bad: gen_string(r, Pos::Attr), t_after: gen_string(r, Pos::Attr) }),
        so!("FieldEmpty", |r: &mut Rng| FieldEmpty { t_before: gen_string(r, Pos::Attr), bad: gen_string(r, Pos::Attr), t_after: gen_string(r, Pos::Attr) }),
        so!("FieldAt", |r: &mut Rng| FieldAt { t_before: gen_string(r, Pos::Attr), bad: gen_string(r, Pos::Attr), t_after: gen_string(r, Pos::Attr) }),
        so!("FieldAtSp", |r: &mut Rng| FieldAtSp { t_before: gen_string(r, Pos::Attr), bad: gen_string(r, Pos::Attr), t_after: gen_string(r, Pos::Attr) }),
        so!("FieldAtLt", |r: &mut Rng| FieldAtLt { t_before: gen_string(r, Pos::Attr), bad: gen_string(r, Pos::Attr), t_after: gen_string(r, Pos::Attr) }),
        so!("FieldAtOk", |r: &mut Rng| FieldAtOk { t_before: gen_string(r, Pos::Attr), bad: gen_string(r, Pos::Attr), t_after: gen_string(r, Pos::Attr) }),
        so!("FieldGt", |r: &mut Rng| FieldGt { t_before: gen_string(r, Pos::Attr), bad: gen_string(r, Pos::Attr), t_after: gen_string(r, Pos::Attr) }),
        so!("FieldQuote", |r: &mut Rng| FieldQuote { t_before: gen_string(r, Pos::Attr), bad: gen_string(r, Pos::Attr), t_after: gen_string(r, Pos::Attr) }),
        so!("Rec", |r: &mut Rng| {
            let lim = if r.chance(1, 8) { 60 } else { 6 };
            let depth = 1 + r.below(lim);
            let mut cur: Option<Box<Rec>> = None;
            for d in 0..depth {
                cur = Some(Box::new(Rec { d: d as u32, t_v: gen_string(r, Pos::Attr), s_rec: cur }));
            }
            *cur.unwrap()
        }),
        so!("BTreeMap<String,String>", |r: &mut Rng| gen_anymap(r)),
        so!("AnyMapFlatten", |r: &mut Rng| AnyMap { m: gen_anymap(r) }),
        so!("HasMapAnyKeys", |r: &mut Rng| HasMap { k: r.next() as u8, k_m: gen_anymap(r) }),
        so!("Vec<String>", |r: &mut Rng| (0..r.below(4)).map(|_| gen_string(r, Pos::Attr)).collect::<Vec<String>>()),
        so!("String", |r: &mut Rng| gen_string(r, Pos::Attr)),
        so!("char", |r: &mut Rng| gen_char(r, Pos::Attr)),
        so!("(String,u8)", |r: &mut Rng| (gen_string(r, Pos::Attr), r.next() as u8)),
        so!("Option<String>", |r: &mut Rng| if r.bool() { Some(gen_string(r, Pos::Attr)) } else { None }),
        so!("unit", |_r: &mut Rng| ()),
        so!("UnitStruct", |_r: &mut Rng| UnitStruct),
        // typed map keys (numbers do not spell XML names: an error or a legal document, never `<1>`)
        so!("BTreeMap<u8,String>", |r: &mut Rng| (0..r.below(3)).map(|_| (r.next() as u8, gen_string(r, Pos::Attr))).collect::<BTreeMap<u8, String>>()),
        so!("BTreeMap<i64,String>", |r: &mut Rng| (0..r.below(3)).map(|_| (r.next() as i64, gen_string(r, Pos::Attr))).collect::<BTreeMap<i64, String>>()),
        so!("BTreeMap<char,String>", |r: &mut Rng| (0..r.below(3)).map(|_| (gen_char(r, Pos::Attr), gen_string(r, Pos::Attr))).collect::<BTreeMap<char, String>>()),
        so!("BTreeMap<bool,String>", |r: &mut Rng| (0..r.below(3)).map(|_| (r.bool(), gen_string(r, Pos::Attr))).collect::<BTreeMap<bool, String>>()),
        so!("BTreeMap<Option<String>,String>", |r: &mut Rng| (0..r.below(3)).map(|_| (if r.bool() { Some(gen_key(r)) } else { None }, gen_string(r, Pos::Attr))).collect::<BTreeMap<Option<String>, String>>()),
        so!("BTreeMap<(u8,u8),String>", |r: &mut Rng| (0..r.below(3)).map(|_| ((r.next() as u8, r.next() as u8), gen_string(r, Pos::Attr))).collect::<BTreeMap<(u8, u8), String>>()),
        so!("HasMapWeirdKeys", |r: &mut Rng| (0..r.below(3)).map(|_| (*r.pick(&WEIRD_ALL) as u8, gen_string(r, Pos::Attr))).collect::<BTreeMap<u8, String>>()),
        // any kind of type in $text / $value / attribute / element position
        so!("TextAny<Vec<String>>", |r: &mut Rng| TextAny { k: r.next() as u8, t: (0..r.below(4)).map(|_| gen_string(r, Pos::Attr)).collect::<Vec<String>>() }),
        so!("TextAny<(String,u8)>", |r: &mut Rng| TextAny { k: r.next() as u8, t: (gen_string(r, Pos::Attr), r.next() as u8) }),
        so!("TextAny<Option<String>>", |r: &mut Rng| TextAny { k: r.next() as u8, t: if r.bool() { Some(gen_string(r, Pos::Attr)) } else { None } }),
        so!("TextAny<unit>", |r: &mut Rng| TextAny { k: r.next() as u8, t: () }),
        so!("TextAny<Weird>", |r: &mut Rng| TextAny { k: r.next() as u8, t: *r.pick(&WEIRD_ALL) }),
        so!("TextAny<char>", |r: &mut Rng| TextAny { k: r.next() as u8, t: gen_char(r, Pos::Attr) }),
        so!("TextAny<Inner>", |r: &mut Rng| TextAny { k: r.next() as u8, t: gen_inner(r) }),
        so!("TextAny<VarKinds>", |r: &mut Rng| TextAny { k: r.next() as u8, t: gen_varkinds(r) }),
        so!("ValAny<String>", |r: &mut Rng| ValAny { k: r.next() as u8, v: gen_string(r, Pos::Attr) }),
        so!("ValAny<Vec<String>>", |r: &mut Rng| ValAny { k: r.next() as u8, v: (0..r.below(4)).map(|_| gen_string(r, Pos::Attr)).collect::<Vec<String>>() }),
        so!("ValAny<Vec<VarKinds>>", |r: &mut Rng| ValAny { k: r.next() as u8, v: (0..r.below(5)).map(|_| gen_varkinds(r)).collect::<Vec<VarKinds>>() }),
        so!("ValAny<(String,VarKinds,u8)>", |r: &mut Rng| ValAny { k: r.next() as u8, v: (gen_string(r, Pos::Attr), gen_varkinds(r), r.next() as u8) }),
        so!("ValAny<Option<Weird>>", |r: &mut Rng| ValAny { k: r.next() as u8, v: if r.bool() { Some(*r.pick(&WEIRD_ALL)) } else { None } }),
        so!("AttrAny<(String,String)>", |r: &mut Rng| AttrAny { v: (gen_string(r, Pos::Attr), gen_string(r, Pos::Attr)), t_after: gen_string(r, Pos::Attr) }),
        so!("AttrAny<Option<Vec<String>>>", |r: &mut Rng| AttrAny { v: if r.bool() { Some((0..r.below(3)).map(|_| gen_string(r, Pos::Attr)).collect::<Vec<String>>()) } else { None }, t_after: gen_string(r, Pos::Attr) }),
        so!("AttrAny<Vec<char>>", |r: &mut Rng| AttrAny { v: (0..r.below(4)).map(|_| gen_char(r, Pos::Attr)).collect::<Vec<char>>(), t_after: gen_string(r, Pos::Attr) }),
        so!("AttrAny<Vec<Weird>>", |r: &mut Rng| AttrAny { v: (0..r.below(4)).map(|_| *r.pick(&WEIRD_ALL)).collect::<Vec<Weird>>(), t_after: gen_string(r, Pos::Attr) }),
        so!("AttrAny<VarKinds>", |r: &mut Rng| AttrAny { v: gen_varkinds(r), t_after: gen_string(r, Pos::Attr) }),
        so!("AttrAny<Wrap>", |r: &mut Rng| AttrAny { v: Wrap(gen_string(r, Pos::Attr)), t_after: gen_string(r, Pos::Attr) }),
        so!("AttrAny<unit>", |r: &mut Rng| AttrAny { v: (), t_after: gen_string(r, Pos::Attr) }),
        so!("ElemAny<Vec<Weird>>", |r: &mut Rng| ElemAny { t_v: (0..r.below(4)).map(|_| *r.pick(&WEIRD_ALL)).collect::<Vec<Weird>>(), k: r.next() as u8 }),
        so!("ElemAny<(String,VarKinds)>", |r: &mut Rng| ElemAny { t_v: (gen_string(r, Pos::Attr), gen_varkinds(r)), k: r.next() as u8 }),
        so!("ElemAny<Vec<char>>", |r: &mut Rng| ElemAny { t_v: (0..r.below(4)).map(|_| gen_char(r, Pos::Attr)).collect::<Vec<char>>(), k: r.next() as u8 }),
        so!("MixedUnitText", |r: &mut Rng| ValAny { k: r.next() as u8, v: (gen_varkinds(r), if r.bool() { TextUnitVar::T } else { TextUnitVar::A }, gen_varkinds(r), TextUnitVar::T, gen_varkinds(r)) }),
        so!("MixedUnits", |r: &mut Rng| ValAny { k: r.next() as u8, v: (gen_string(r, Pos::Attr), (), UnitStruct, gen_varkinds(r), (), gen_string(r, Pos::Attr)) }),
        so!("ShownHostile", |r: &mut Rng| Protocols {
            a: Shown(gen_string(r, Pos::Attr)),
            l: (0..r.below(3)).map(|_| Shown(gen_string(r, Pos::Attr))).collect(),
            t_shown: Shown(gen_string(r, Pos::Attr)),
            k_kv: KvMap(gen_anymap(r)),
            x_shown: TextAny { k: r.next() as u8, t: Shown(gen_string(r, Pos::Attr)) },
        }),
        so!("ValAny<Vec<ShownVar>>", |r: &mut Rng| ValAny { k: r.next() as u8, v: (0..r.below(4)).map(|_| if r.bool() { ShownVar::Txt(Shown(gen_string(r, Pos::Attr))) } else { ShownVar::E(Shown(gen_string(r, Pos::Attr))) }).collect::<Vec<ShownVar>>() }),
        so!("ValAny<Vec<TextListVar>>", |r: &mut Rng| ValAny { k: r.next() as u8, v: gen_texttuplevars(r) }),
        so!("ValAny<TextListVar>", |r: &mut Rng| ValAny { k: r.next() as u8, v: TextListVar::Pair(gen_item_token(r), gen_item_token(r)) }),
        so!("ValAny<(TextListVar,Inner)>", |r: &mut Rng| ValAny { k: r.next() as u8, v: (TextListVar::Pair(gen_item_token(r), gen_item_token(r)), gen_inner(r)) }),
        so!("HasNoItems", |r: &mut Rng| HasNoItems { k: r.next() as u8, t_none: NoItems, t: gen_string(r, Pos::Attr) }),
        so!("HasNoItems2", |r: &mut Rng| HasNoItems2 { t_before: gen_string(r, Pos::Attr), t_f: Filtered((0..r.below(4)).map(|_| r.next() as u8).collect()), s_in: NoItemsInner { t_none: NoItems }, t_last: NoItems }),
        so!("ElemAny<NoItems>", |r: &mut Rng| ElemAny { t_v: NoItems, k: r.next() as u8 }),
        so!("VarKinds", |r: &mut Rng| gen_varkinds(r)),
        so!("Vec<VarKinds>", |r: &mut Rng| (0..r.below(4)).map(|_| gen_varkinds(r)).collect::<Vec<VarKinds>>()),
    ]
}
