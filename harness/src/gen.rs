//! Workload generators: exhaustive enumerators, a hostile document grammar,
//! mutators and the repository corpus.

use crate::rng::Rng;

/// The 13 markup-significant bytes of the byte enumerator.
pub const MARKUP13: &[u8] = b"<>/!-[]?\"'= a";

/// Atoms of the token enumerator. Several are multi-byte so that constructs
/// needing long keywords are reached within a small number of atoms.
pub const ATOMS: &[&[u8]] = &[
    b"<![CDATA[",
    b"]]>",
    b"]]",
    b"]",
    b"<!--",
    b"-->",
    b"--",
    b"-",
    b"<?",
    b"?>",
    b"?",
    b"<?xml",
    b"<!DOCTYPE",
    b"<!d",
    b"<",
    b">",
    b"</",
    b"/>",
    b"<a",
    b"a",
    b" ",
    b"'",
    b"\"",
    b"=",
    b"x='>'",
];

/// number of strings of length 0..=n over an alphabet of size k
pub fn count_upto(k: u64, n: u32) -> u64 {
    let mut total = 0u64;
    let mut p = 1u64;
    for _ in 0..=n {
        total += p;
        p = p.saturating_mul(k);
    }
    total
}

/// Decode enumeration index -> sequence of symbol indices (shortest strings first).
#[inline]
pub fn decode_index(mut idx: u64, k: u64, out: &mut Vec<u8>) {
    out.clear();
    let mut len = 0u32;
    let mut block = 1u64;
    while idx >= block {
        idx -= block;
        block *= k;
        len += 1;
    }
    for _ in 0..len {
        out.push((idx % k) as u8);
        idx /= k;
    }
}

pub fn bytes_from_digits(digits: &[u8], alphabet: &[u8], out: &mut Vec<u8>) {
    out.clear();
    for &d in digits {
        out.push(alphabet[d as usize]);
    }
}
pub fn atoms_from_digits(digits: &[u8], atoms: &[&[u8]], out: &mut Vec<u8>) {
    out.clear();
    for &d in digits {
        out.extend_from_slice(atoms[d as usize]);
    }
}

// ---------------------------------------------------------------------------
// document grammar
// ---------------------------------------------------------------------------

#[derive(Clone, Debug)]
pub struct DocOpts {
    pub max_depth: usize,
    pub max_children: usize,
    pub bom: bool,
    pub prolog: bool,
    /// generate xmlns declarations and prefixed names
    pub namespaces: bool,
    /// only well-formed, properly nested output (always true for this grammar) and
    /// text never starts/ends with whitespace
    pub tidy_text: bool,
    pub names: &'static [&'static str],
}
impl Default for DocOpts {
    fn default() -> Self {
        DocOpts {
            max_depth: 4,
            max_children: 4,
            bom: false,
            prolog: true,
            namespaces: false,
            tidy_text: false,
            names: &["a", "ab", "abc", "b", "a:b", "x-y", "n1", "ä"],
        }
    }
}

const TEXT_BITS: &[&str] = &[
    "x", "text", " ", "\n", "\t", "  ", "&amp;", "&lt;", "&#65;", "&#x41;", ">", "]]>", "]", "'", "\"", "é", "日本", "-", "--", "?", "?>",
    "=", "/", "!", "a b", "\u{c}", "\u{b}", "\u{85}", "\u{2028}", "x\u{c}", "\u{c} ",
];
const ATTR_VAL_BITS: &[&str] = &[
    "v", "", " ", ">", "/>", "a>b", "</a>", "<a>", "<", "&amp;", "&quot;", "=", "x y", "é", "?", "--", "]]>", "/",
];
const COMMENT_BITS: &[&str] = &["c", " ", ">", "-", "->", "- ", "<a>", "</a>", "]]>", "?>", "é", "<!", "x-y"];
const CDATA_BITS: &[&str] = &["d", " ", "]", "]]", "]>", ">", "<", "&", "</a>", "<a>", "é", "--", "?>", "] ]>"];
const PI_BITS: &[&str] = &["p", " ", "?", ">", "? >", "x='?'", "<", "é", "-->", "]]>"];

fn pick_join(r: &mut Rng, bits: &[&str], max: usize, out: &mut Vec<u8>) {
    let n = r.below(max + 1);
    for _ in 0..n {
        out.extend_from_slice(r.pick(bits).as_bytes());
    }
}

fn gen_attrs(r: &mut Rng, out: &mut Vec<u8>) {
    let n = match r.below(8) {
        0..=3 => 0,
        4..=5 => 1,
        6 => 2,
        _ => 3,
    };
    let keys = ["k", "key", "a", "x:y", "xml:lang", "k2", "data-x"];
    let mut used: Vec<&str> = Vec::new();
    for _ in 0..n {
        let k = *r.pick(&keys);
        if used.contains(&k) {
            continue;
        }
        used.push(k);
        out.push(b' ');
        if r.chance(1, 8) {
            out.push(b' ');
        }
        out.extend_from_slice(k.as_bytes());
        if r.chance(1, 6) {
            out.push(b' ');
        }
        out.push(b'=');
        if r.chance(1, 6) {
            out.push(b' ');
        }
        let q = if r.bool() { b'"' } else { b'\'' };
        out.push(q);
        let mut v = Vec::new();
        pick_join(r, ATTR_VAL_BITS, 3, &mut v);
        // `<` is not allowed raw in a well-formed value but the lexer does not care; keep it rare
        if r.chance(1, 4) {
            v.push(if q == b'"' { b'\'' } else { b'"' });
        }
        out.extend_from_slice(&v);
        out.push(q);
    }
    if r.chance(1, 8) {
        out.push(b' ');
    }
}

fn gen_text(r: &mut Rng, tidy: bool, out: &mut Vec<u8>) {
    let mut t = Vec::new();
    pick_join(r, TEXT_BITS, 4, &mut t);
    // raw `<` never appears in text by construction (no bit contains it)
    if tidy {
        while t.first().map_or(false, |b| b.is_ascii_whitespace()) {
            t.remove(0);
        }
        while t.last().map_or(false, |b| b.is_ascii_whitespace()) {
            t.pop();
        }
    }
    out.extend_from_slice(&t);
}

fn gen_misc(r: &mut Rng, out: &mut Vec<u8>) {
    match r.below(3) {
        0 => {
            out.extend_from_slice(b"<!--");
            let mut c = Vec::new();
            pick_join(r, COMMENT_BITS, 4, &mut c);
            // a comment body may not contain `-->`; bits cannot form it except "-"+"->" / "--"+">"
            while let Some(p) = crate::refmodel::tok::find_sub(&c, b"-->") {
                c[p + 2] = b'.';
            }
            out.extend_from_slice(&c);
            out.extend_from_slice(b"-->");
        }
        1 => {
            out.extend_from_slice(b"<![CDATA[");
            let mut c = Vec::new();
            pick_join(r, CDATA_BITS, 4, &mut c);
            while let Some(p) = crate::refmodel::tok::find_sub(&c, b"]]>") {
                c[p + 2] = b'.';
            }
            out.extend_from_slice(&c);
            out.extend_from_slice(b"]]>");
        }
        _ => {
            out.extend_from_slice(b"<?");
            let mut c = Vec::new();
            c.extend_from_slice(r.pick(&["pi", "x", "xml-stylesheet", "xmlx", "p?"]).as_bytes());
            if r.bool() {
                c.push(b' ');
                pick_join(r, PI_BITS, 4, &mut c);
            }
            while let Some(p) = crate::refmodel::tok::find_sub(&c, b"?>") {
                c[p + 1] = b'.';
            }
            out.extend_from_slice(&c);
            out.extend_from_slice(b"?>");
        }
    }
}

fn gen_element(r: &mut Rng, o: &DocOpts, depth: usize, out: &mut Vec<u8>) {
    let name = *r.pick(o.names);
    let empty = r.chance(1, 4) || depth >= o.max_depth;
    out.push(b'<');
    out.extend_from_slice(name.as_bytes());
    gen_attrs(r, out);
    if empty && r.chance(2, 3) {
        out.extend_from_slice(b"/>");
        return;
    }
    out.push(b'>');
    if !empty {
        let n = r.below(o.max_children + 1);
        for _ in 0..n {
            match r.below(10) {
                0..=3 => gen_element(r, o, depth + 1, out),
                4..=6 => gen_text(r, o.tidy_text, out),
                _ => gen_misc(r, out),
            }
        }
    }
    out.extend_from_slice(b"</");
    out.extend_from_slice(name.as_bytes());
    if r.chance(1, 6) {
        out.extend_from_slice(r.pick(&[" ", "\n", "  ", "\t"]).as_bytes());
    }
    out.push(b'>');
}

pub fn gen_doc(r: &mut Rng, o: &DocOpts) -> Vec<u8> {
    let mut out = Vec::new();
    if o.bom {
        out.extend_from_slice(&[0xEF, 0xBB, 0xBF]);
    }
    if o.prolog {
        if r.chance(1, 3) {
            out.extend_from_slice(
                r.pick(&[
                    "<?xml version=\"1.0\"?>",
                    "<?xml version='1.0' encoding='UTF-8'?>",
                    "<?xml version=\"1.1\" encoding=\"utf-8\" standalone=\"yes\"?>",
                    "<?xml?>",
                ])
                .as_bytes(),
            );
        }
        if r.chance(1, 4) {
            out.extend_from_slice(r.pick(&["\n", " ", "\r\n"]).as_bytes());
        }
        if r.chance(1, 4) {
            out.extend_from_slice(
                r.pick(&[
                    "<!DOCTYPE a>",
                    "<!doctype a>",
                    "<!DOCTYPE a [<!ELEMENT a (b)><!ENTITY e \"x>y\">]>",
                    "<!DocType  a SYSTEM 'a.dtd'>",
                    "<!DOCTYPE a [<!-- c -->]>",
                    "<!DOCTYPE\na\n[<!ENTITY lt2 \"&#60;\">]>",
                ])
                .as_bytes(),
            );
        }
        if r.chance(1, 4) {
            gen_misc(r, &mut out);
        }
    }
    gen_element(r, o, 0, &mut out);
    if r.chance(1, 4) {
        out.extend_from_slice(r.pick(&["\n", " ", "<!-- end -->", "\n\n", "<?e?>"]).as_bytes());
    }
    out
}

// ---------------------------------------------------------------------------
// mutators
// ---------------------------------------------------------------------------

const MUT_BYTES: &[u8] = b"<>/!-[]?\"'= \n\ta&;#x:\0\xEF\xBB\xBF\xFF\xFE\x80\xC3";

pub fn mutate(r: &mut Rng, d: &mut Vec<u8>) {
    let n = 1 + r.below(3);
    for _ in 0..n {
        match r.below(7) {
            0 if !d.is_empty() => {
                let i = r.below(d.len());
                d[i] = *r.pick(MUT_BYTES);
            }
            1 => {
                let i = r.below(d.len() + 1);
                d.insert(i, *r.pick(MUT_BYTES));
            }
            2 if !d.is_empty() => {
                let i = r.below(d.len());
                d.remove(i);
            }
            3 if !d.is_empty() => {
                // duplicate a slice
                let i = r.below(d.len());
                let j = (i + 1 + r.below(8)).min(d.len());
                let s: Vec<u8> = d[i..j].to_vec();
                let k = r.below(d.len() + 1);
                for (o, b) in s.into_iter().enumerate() {
                    d.insert(k + o, b);
                }
            }
            4 if !d.is_empty() => {
                // delete a slice
                let i = r.below(d.len());
                let j = (i + 1 + r.below(8)).min(d.len());
                d.drain(i..j);
            }
            5 => {
                // insert an atom
                let a = *r.pick(ATOMS);
                let k = r.below(d.len() + 1);
                for (o, b) in a.iter().enumerate() {
                    d.insert(k + o, *b);
                }
            }
            6 if !d.is_empty() => {
                let i = r.below(d.len());
                d[i] ^= 1 << r.below(8);
            }
            _ => {}
        }
    }
}

/// splice: prefix of `a` up to a random point + suffix of `b` from a random point
pub fn splice(r: &mut Rng, a: &[u8], b: &[u8]) -> Vec<u8> {
    let i = r.below(a.len() + 1);
    let j = r.below(b.len() + 1);
    let mut v = a[..i].to_vec();
    v.extend_from_slice(&b[j..]);
    v
}

/// random byte string with markup bytes boosted
pub fn random_bytes(r: &mut Rng, max_len: usize) -> Vec<u8> {
    let n = r.below(max_len + 1);
    let mut v = Vec::with_capacity(n);
    for _ in 0..n {
        if r.chance(3, 5) {
            v.push(*r.pick(MARKUP13));
        } else if r.chance(1, 4) {
            v.push(*r.pick(MUT_BYTES));
        } else {
            v.push(r.next() as u8);
        }
    }
    v
}

/// random string over the token atoms
pub fn random_atoms(r: &mut Rng, max_atoms: usize) -> Vec<u8> {
    let n = r.below(max_atoms + 1);
    let mut v = Vec::new();
    for _ in 0..n {
        v.extend_from_slice(*r.pick(ATOMS));
    }
    v
}

// ---------------------------------------------------------------------------
// terminator pool: every construct with and without hostile content; small
// enough for exhaustive chunkings
// ---------------------------------------------------------------------------

pub const TERMINATOR_DOCS: &[&str] = &[
    "<a/>",
    "<a></a>",
    "<a>x</a>",
    "x<a/>y",
    "<!---->",
    "<!--x-->",
    "<!-- - -->",
    "<!--->-->",
    "<!---->>",
    "<!-->-->",
    "<!--a--b-->",
    "<!--a->b-->",
    "<!--x--->",
    "<![CDATA[]]>",
    "<![CDATA[x]]>",
    "<![CDATA[]]]>",
    "<![CDATA[]]]]>",
    "<![CDATA[]>]]>",
    "<![CDATA[>]]>",
    "<![CDATA[]] >]]>",
    "<![CDATA[a]]b]]>",
    "<![CDATA[<a>]]>x",
    "<??>",
    "<?x?>",
    "<?x ??>",
    "<?x >?>",
    "<?x ?>?>",
    "<?x?y?>",
    "<?xml?>",
    "<?xml ?>",
    "<?xmlx?>",
    "<?xml version='1.0'?>",
    "<?xml a='?>'?>",
    "<!DOCTYPE a>",
    "<!doctype a>",
    "<!DOCTYPEa>",
    "<!DOCTYPE a[<!ELEMENT a (b)>]>",
    "<!DOCTYPE a[<b>]>x",
    "<!DOCTYPE a [<!ENTITY e \"x>y\">]>",
    "<!DOCTYPE>",
    "<!DOCTYPE >",
    // bytes that look like whitespace to `u8::is_ascii_whitespace` / `char::is_whitespace` but are not XML whitespace
    "<!DOCTYPE \x0Ca>",
    "<!DOCTYPE\x0Ca>",
    "<!DOCTYPE \x0B a [<!ELEMENT a (b)>]>",
    "<a>\x0C x \x0C</a>\x0C",
    " \x0C<a/>\x0B ",
    "</a\x0C>",
    "<a\x0Cb='1'/>",
    "<?x\x0Cy?>",
    "<?xml\x0Cversion='1.0'?>",
    "<a>\u{85}x\u{A0}</a>\u{2028}",
    "<!DOCTYP a>",
    "<a b='>'/>",
    "<a b=\">\"/>",
    "<a b='\"'>",
    "<a b=\"'\">",
    "<a b='/>'/>",
    "<a b='>'>x</a>",
    "<a b=\"x'>\" c='\">'>",
    "</a>",
    "</a >",
    "</a b='>'>",
    "<a/ >",
    "<a /b>",
    "<a//>",
    "<a / >",
    "< a>",
    "<>",
    "</>",
    "<//>",
    "<a><b></b></a>",
    "<a><b/></a>",
    "<a>x<b/>y</a>",
    " <a/> ",
    "\n<a>\n</a>\n",
    "<a> x </a>",
    "  x  ",
    "<a",
    "<a b='",
    "<a b='>",
    "<!",
    "<!-",
    "<!--",
    "<!--x",
    "<!--x-",
    "<!--x--",
    "<![",
    "<![CDATA",
    "<![CDATA[",
    "<![CDATA[x]",
    "<![CDATA[x]]",
    "<?",
    "<?x",
    "<?x?",
    "<?>",
    "<!D",
    "<!DOCTYPE a",
    "<!DOCTYPE a[<",
    "<!DOCTYPE a[<>",
    "<!x>",
    "<!>",
    "<![x]]>",
    "<![CDATA]]>",
    "<!-x-->",
    "<!-->",
    "<!--->",
    "<",
    "x<",
    "</",
    "</a",
    "\u{FEFF}<a/>",
    "\u{FEFF}x",
    "\u{FEFF}",
    "\u{FEFF}<?xml version='1.0'?><a/>",
    "<a>&amp;</a>",
    "<a>]]></a>",
    "<a>--></a>",
    "<a>?></a>",
    "<a><!--x--><![CDATA[y]]><?z?></a>",
    "<a>x<!--c-->y</a>",
    "<a xmlns='u'><b/></a>",
    "<p:a xmlns:p='u'/>",
];

// ---------------------------------------------------------------------------
// corpus
// ---------------------------------------------------------------------------

pub fn load_corpus(max_file_len: usize) -> Vec<(String, Vec<u8>)> {
    let root = format!("{}/tests/documents", crate::repo_root());
    let mut out = Vec::new();
    let mut stack = vec![std::path::PathBuf::from(root)];
    while let Some(d) = stack.pop() {
        if let Ok(rd) = std::fs::read_dir(&d) {
            let mut entries: Vec<_> = rd.filter_map(|e| e.ok()).map(|e| e.path()).collect();
            entries.sort();
            for p in entries {
                if p.is_dir() {
                    stack.push(p);
                } else if let Ok(mut b) = std::fs::read(&p) {
                    if b.len() > max_file_len {
                        b.truncate(max_file_len);
                    }
                    out.push((p.to_string_lossy().to_string(), b));
                }
            }
        }
    }
    out.sort_by(|a, b| a.0.cmp(&b.0));
    out
}

// ---------------------------------------------------------------------------
// Scale workload: constructs whose length, count or depth sits at and around the sizes that
// internal buffers, chunk searches and counters use (32 / 64 / 128 / 256 / 1024 / 8192).
// The small-scope enumerations never get there.
// ---------------------------------------------------------------------------

/// the sizes tried (each also -1 and +1)
pub const SCALE_SIZES: &[usize] = &[32, 64, 128, 256, 1024, 8192];
/// piece sizes for buffered / async sources on scale documents
pub const SCALE_PIECES: &[usize] = &[31, 32, 33, 64, 128, 1024, 8192];
pub const SCALE_KINDS: usize = 16;

fn fill(out: &mut Vec<u8>, n: usize, bits: &[&[u8]], r: &mut Rng) {
    let start = out.len();
    while out.len() - start < n {
        let b = bits[r.below(bits.len())];
        if out.len() - start + b.len() > n {
            out.push(b'x');
        } else {
            out.extend_from_slice(b);
        }
    }
}

/// one scale document of kind `kind` (0..SCALE_KINDS) and size parameter `n`
pub fn scale_doc(kind: usize, n: usize, r: &mut Rng) -> Vec<u8> {
    let mut d = Vec::with_capacity(n * 3 + 64);
    let name = |n: usize| -> Vec<u8> { (0..n).map(|i| b"abcdefghij"[i % 10]).collect() };
    match kind {
        // long element name
        0 => {
            let nm = name(n);
            d.push(b'<');
            d.extend_from_slice(&nm);
            d.extend_from_slice(b" k=\"v\">t</");
            d.extend_from_slice(&nm);
            d.extend_from_slice(b"><");
            d.extend_from_slice(&nm);
            d.extend_from_slice(b"/>");
        }
        // long attribute value with '>' and the other quote inside, either quote kind
        1 => {
            let q = if r.bool() { b'"' } else { b'\'' };
            let other: &[u8] = if q == b'"' { b"'" } else { b"\"" };
            d.extend_from_slice(b"<a k=");
            d.push(q);
            fill(&mut d, n, &[b"v", b">", b"/>", b" ", other, b"=", b"xxxxxxxxxxxxxxxx", b"<"], r);
            d.push(q);
            d.extend_from_slice(b" z='1'>t</a>");
        }
        // value made of plain bytes with a single '>' near the end (whole pieces lie inside the value)
        2 => {
            d.extend_from_slice(b"<a k=\"");
            d.extend(std::iter::repeat(b'v').take(n));
            d.extend_from_slice(b">vv\" z=\"2\"/><b/>");
        }
        // long attribute name, repeated (duplicate) and as a near miss
        3 => {
            let nm = name(n);
            d.extend_from_slice(b"<a ");
            d.extend_from_slice(&nm);
            d.extend_from_slice(b"=\"1\" b=\"2\" ");
            d.extend_from_slice(&nm);
            d.extend_from_slice(b"=\"3\" ");
            d.extend_from_slice(&nm);
            d.extend_from_slice(b"x=\"4\" c='5'/>");
        }
        // many attributes
        4 => {
            d.extend_from_slice(b"<a");
            for i in 0..n.min(1100) {
                d.extend_from_slice(format!(" a{}=\"{}\"", i, i % 7).as_bytes());
            }
            d.extend_from_slice(b" a0='dup'>t</a>");
        }
        // long text; whitespace runs of length n in front of text and in front of markup
        5 => {
            d.extend_from_slice(b"<a>");
            d.extend(std::iter::repeat(b' ').take(n));
            d.extend_from_slice(b"x");
            fill(&mut d, n, &[b"t", b" ", b"&amp;", b">", b"]]>", b"\n"], r);
            d.extend_from_slice(b"<b/>");
            d.extend(std::iter::repeat(if r.bool() { b'\n' } else { b' ' }).take(n));
            d.extend_from_slice(b"<c/>\r\n");
            d.extend(std::iter::repeat(b'\t').take(n / 2));
            d.extend_from_slice(b"</a>");
            d.extend(std::iter::repeat(b' ').take(n / 3));
        }
        // long comment with lone hyphens and "->"
        6 => {
            d.extend_from_slice(b"<a><!--");
            fill(&mut d, n, &[b"c", b" - ", b"->", b">", b"-x", b"cccccccccccccccccccccccccccccccc"], r);
            d.extend_from_slice(b"x--><b/></a>");
        }
        // long CDATA with ']' and "]>"
        7 => {
            d.extend_from_slice(b"<a><![CDATA[");
            fill(&mut d, n, &[b"d", b"]", b"]>", b">", b"]]", b"] ]>", b"dddddddddddddddddddddddddddddddd"], r);
            d.extend_from_slice(b"x]]>t</a>");
        }
        // long PI and a declaration with long pseudo attributes
        8 => {
            d.extend_from_slice(b"<?xml version=\"1.0\" x=\"");
            d.extend(std::iter::repeat(b'y').take(n / 2));
            d.extend_from_slice(b"\"?><?pi ");
            fill(&mut d, n, &[b"p", b"?", b">", b"? >", b"pppppppppppppppppppppppppppppppp"], r);
            d.extend_from_slice(b"?><a/>");
        }
        // deep nesting, properly closed, alternating names
        9 => {
            let names: [&[u8]; 3] = [b"a", b"ab", b"b"];
            for i in 0..n {
                d.push(b'<');
                d.extend_from_slice(names[i % 3]);
                d.push(b'>');
            }
            d.extend_from_slice(b"t");
            for i in (0..n).rev() {
                d.extend_from_slice(b"</");
                d.extend_from_slice(names[i % 3]);
                d.push(b'>');
            }
        }
        // deep nesting with one wrong end tag deep inside and one end tag too many
        10 => {
            for i in 0..n {
                d.extend_from_slice(if i % 2 == 0 { b"<a>" } else { b"<b>" });
            }
            let wrong = r.below(n.max(1));
            for i in (0..n).rev() {
                if i == wrong {
                    d.extend_from_slice(b"</x>");
                } else {
                    d.extend_from_slice(if i % 2 == 0 { b"</a>" } else { b"</b>" });
                }
            }
            d.extend_from_slice(b"</a><c/>");
        }
        // many siblings, empty and not
        11 => {
            d.extend_from_slice(b"<r>");
            for i in 0..n.min(3000) {
                match i % 3 {
                    0 => d.extend_from_slice(b"<i/>"),
                    1 => d.extend_from_slice(b"<i>t</i>"),
                    _ => d.extend_from_slice(b"<j k='v'/>\n"),
                }
            }
            d.extend_from_slice(b"</r>");
        }
        // DOCTYPE whose internal subset has n more '<' than '>' (quoted '<'), so it stays open
        12 => {
            d.extend_from_slice(b"<!DOCTYPE d [");
            for i in 0..n.min(1100) {
                d.extend_from_slice(format!("<!ENTITY e{} \"<\">", i).as_bytes());
            }
            d.extend_from_slice(b"]><d/>");
        }
        // DOCTYPE with n nested '<' that are all closed again
        13 => {
            d.extend_from_slice(b"<!DOCTYPE d [");
            let k = n.min(1100);
            d.extend(std::iter::repeat(b'<').take(k));
            d.extend_from_slice(b"x");
            d.extend(std::iter::repeat(b'>').take(k));
            d.extend_from_slice(b"]><d>t</d>");
        }
        // long end tag with trailing whitespace, long text before it
        14 => {
            let nm = name(n);
            d.push(b'<');
            d.extend_from_slice(&nm);
            d.push(b'>');
            fill(&mut d, n, &[b"t", b" "], r);
            d.extend_from_slice(b"</");
            d.extend_from_slice(&nm);
            d.extend(std::iter::repeat(b' ').take(n / 4));
            d.extend_from_slice(b"><z/>");
        }
        // mixed document: every construct of moderate length in a row, repeated
        _ => {
            d.extend_from_slice(b"<r>");
            let mut total = 0;
            while total < n {
                let k = 1 + r.below(40);
                d.extend_from_slice(b"<e k=\"");
                d.extend(std::iter::repeat(b'v').take(k));
                d.extend_from_slice(b">\">");
                d.extend(std::iter::repeat(b' ').take(k % 5));
                d.extend_from_slice(b"t<!--c-c--><![CDATA[]]]><?p ??></e>\n  ");
                total += k + 40;
            }
            d.extend_from_slice(b"</r>");
        }
    }
    d
}

/// the scale documents owned by one shard: every kind at every size and its two neighbours
pub fn scale_docs(shard: u32, nshards: u32, seed: u64, max_size: usize) -> Vec<(usize, usize, Vec<u8>)> {
    let mut out = Vec::new();
    let mut idx = 0u32;
    // every size around 128 (stack buffers and caches of that size; delimiters of 1 to 10 bytes shift
    // where the boundary is hit)
    if max_size >= 128 {
        for kind in 0..SCALE_KINDS {
            for n in 108..=136usize {
                if idx % nshards == shard {
                    let mut r = Rng::new(seed ^ ((kind as u64) << 32) ^ n as u64);
                    out.push((kind, n, scale_doc(kind, n, &mut r)));
                }
                idx += 1;
            }
        }
    }
    for kind in 0..SCALE_KINDS {
        for s in SCALE_SIZES {
            if *s > max_size {
                continue;
            }
            for n in [s - 1, *s, s + 1] {
                if idx % nshards == shard {
                    let mut r = Rng::new(seed ^ ((kind as u64) << 32) ^ n as u64);
                    out.push((kind, n, scale_doc(kind, n, &mut r)));
                }
                idx += 1;
            }
        }
    }
    out
}
