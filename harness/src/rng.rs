//! splitmix64 PRNG and a fast 64-bit hash. No external crates.

#[derive(Clone, Debug)]
pub struct Rng(pub u64);

impl Rng {
    pub fn new(seed: u64) -> Self {
        Rng(seed ^ 0x9E37_79B9_7F4A_7C15)
    }
    pub fn derive(seed: u64, prop: &str, shard: u32, stream: u64) -> Self {
        let mut h = seed ^ 0xA076_1D64_78BD_642F;
        for b in prop.bytes() {
            h = mix(h ^ b as u64);
        }
        h = mix(h ^ ((shard as u64) << 32) ^ stream);
        Rng(h)
    }
    #[inline]
    pub fn next(&mut self) -> u64 {
        self.0 = self.0.wrapping_add(0x9E37_79B9_7F4A_7C15);
        let mut z = self.0;
        z = (z ^ (z >> 30)).wrapping_mul(0xBF58_476D_1CE4_E5B9);
        z = (z ^ (z >> 27)).wrapping_mul(0x94D0_49BB_1331_11EB);
        z ^ (z >> 31)
    }
    /// uniform in 0..n (n > 0)
    #[inline]
    pub fn below(&mut self, n: usize) -> usize {
        debug_assert!(n > 0);
        ((self.next() >> 11) % (n as u64)) as usize
    }
    #[inline]
    pub fn range(&mut self, lo: usize, hi_incl: usize) -> usize {
        lo + self.below(hi_incl - lo + 1)
    }
    #[inline]
    pub fn chance(&mut self, num: usize, den: usize) -> bool {
        self.below(den) < num
    }
    #[inline]
    pub fn bool(&mut self) -> bool {
        self.next() & 1 == 1
    }
    #[inline]
    pub fn pick<'a, T>(&mut self, xs: &'a [T]) -> &'a T {
        &xs[self.below(xs.len())]
    }
    pub fn shuffle<T>(&mut self, xs: &mut [T]) {
        for i in (1..xs.len()).rev() {
            let j = self.below(i + 1);
            xs.swap(i, j);
        }
    }
}

#[inline]
pub fn mix(mut z: u64) -> u64 {
    z = (z ^ (z >> 32)).wrapping_mul(0xD6E8_FEB8_6659_FD93);
    z = (z ^ (z >> 32)).wrapping_mul(0xD6E8_FEB8_6659_FD93);
    z ^ (z >> 32)
}

/// Incremental 64-bit hasher (FNV-1a core + final mix). Good enough to count
/// distinct cases; not cryptographic.
#[derive(Clone, Copy)]
pub struct H(pub u64);
impl H {
    #[inline]
    pub fn new() -> Self {
        H(0xCBF2_9CE4_8422_2325)
    }
    #[inline]
    pub fn bytes(mut self, b: &[u8]) -> Self {
        for &x in b {
            self.0 = (self.0 ^ x as u64).wrapping_mul(0x0000_0100_0000_01B3);
        }
        // length separator
        self.0 = (self.0 ^ 0xFF ^ ((b.len() as u64) << 8)).wrapping_mul(0x0000_0100_0000_01B3);
        self
    }
    #[inline]
    pub fn u64(mut self, v: u64) -> Self {
        self.0 = mix(self.0 ^ v.wrapping_mul(0x9E37_79B9_7F4A_7C15));
        self
    }
    #[inline]
    pub fn str(self, s: &str) -> Self {
        self.bytes(s.as_bytes())
    }
    #[inline]
    pub fn finish(self) -> u64 {
        mix(self.0)
    }
}
