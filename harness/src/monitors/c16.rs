//! C16 — reader options change the event stream only in their documented way.
//! Relational monitor: trace under configuration c  ==  T_c(trace under the neutral configuration).
//! Both traces come from the real reader; R_tok is not involved.

use super::common::*;
use crate::ctx::{guarded, show, Ctx};
use crate::obs::*;
use crate::refmodel::tok::{find_sub, is_ws};
use crate::runner::PropSpec;
use serde_json::{json, Value};

pub const SPEC: PropSpec = PropSpec {
    id: "C16",
    level: "exploration",
    rule: "Every configured run is preceded by a probe: the configured reader reads the input once more, calling read_to_end on the first start tag, and after every call the reader's configuration must still be what the caller set. Cases = (input bytes, configuration c). The real reader is run twice, under the neutral configuration (slice source) and under c (slice source, and for a quarter of the non-enumerated cases also a buffered source delivering 1-byte or random pieces), and the second trace must equal T_c(first trace): Empty -> Start+End of the same name, Text trimmed at the configured sides and dropped when it becomes empty, End names trimmed, DoubleHyphenInComment error for comments whose body contains '--' or ends in '-', name-check errors according to an open-element stack replayed over the neutral trace; the position after every source construct and every syntax error must be unchanged. Exhaustive: every byte string up to length N over the 13 markup bytes x all 128 configurations; atom sequences, pool, grammar documents, mutants, truncations, corpus x 16 random configurations. Non-trivial = input contains '<' and c is not neutral.",
    assumptions: &[
        "the neutral trace itself is judged by C01; here it is only the baseline",
        "strings inside name-mismatch errors are compared only for inputs that cannot switch the decoder away from UTF-8",
        "the offset reported inside a DoubleHyphenInComment error is not compared",
    ],
    required: &[
        "config_probe.read_to_end_ok",
        "config_probe.read_to_end_err",
        "configs_seen_all128",
        "texts_dropped",
        "texts_trimmed_start",
        "texts_trimmed_end",
        "empties_expanded",
        "comment_errors",
        "end_names_trimmed",
        "name_errors",
        "ws_only_text_before_markup",
        "ws_only_text_at_eof",
        "buffered_source_runs",
    ],
    run,
    replay,
    thorough_layers: &[("fuzz", 45)],
    quick_layers: &[],
    post: Some(super::c01::post_cfgs),
};

pub struct Local {
    noop_stream_runs: u64,
    cfg_seen: [u64; 128],
    dropped: u64,
    trim_s: u64,
    trim_e: u64,
    expanded: u64,
    comment_err: u64,
    names_trimmed: u64,
    name_err: u64,
    ws_before_markup: u64,
    ws_at_eof: u64,
    f6_hits: u64,
    buffered: u64,
    probe_skips_ok: u64,
    probe_skips_err: u64,
}
impl Local {
    fn new() -> Self {
        Local {
            noop_stream_runs: 0,
            cfg_seen: [0; 128],
            dropped: 0,
            trim_s: 0,
            trim_e: 0,
            expanded: 0,
            comment_err: 0,
            names_trimmed: 0,
            name_err: 0,
            ws_before_markup: 0,
            ws_at_eof: 0,
            f6_hits: 0,
            buffered: 0,
            probe_skips_ok: 0,
            probe_skips_err: 0,
        }
    }
}

enum Exp {
    /// expected observation, position after, error position to compare (None = do not compare)
    Item(Obs, u64, Option<u64>),
    /// a whitespace-only text was dropped here (position after it; followed by markup?)
    Dropped { after: u64, before_markup: bool },
}

fn trim_end_ws(b: &[u8]) -> &[u8] {
    let mut e = b.len();
    while e > 0 && is_ws(b[e - 1]) {
        e -= 1;
    }
    &b[..e]
}
fn trim_start_ws(b: &[u8]) -> &[u8] {
    let mut s = 0;
    while s < b.len() && is_ws(b[s]) {
        s += 1;
    }
    &b[s..]
}

fn lossy_default(b: &[u8]) -> String {
    String::from_utf8(b.to_vec()).unwrap_or_default()
}

/// The documented transformation of a neutral trace under configuration `c`.
fn transform(neutral: &Trace, c: u8, loc: &mut Local) -> Vec<Exp> {
    let mut out = Vec::new();
    let mut stack: Vec<Vec<u8>> = Vec::new();
    for (i, e) in neutral.iter().enumerate() {
        match &e.obs {
            Obs::Ev(Kind::Text, raw, _) => {
                let mut t: &[u8] = raw;
                let ws_only = raw.iter().all(|b| is_ws(*b));
                let next_is_eof = neutral.get(i + 1).map_or(true, |n| n.obs.is_eof());
                if ws_only {
                    if next_is_eof {
                        loc.ws_at_eof += 1;
                    } else {
                        loc.ws_before_markup += 1;
                    }
                }
                if c & C_TRIM_START != 0 {
                    let n = trim_start_ws(t);
                    if n.len() != t.len() {
                        loc.trim_s += 1;
                    }
                    t = n;
                }
                if c & C_TRIM_END != 0 {
                    let n = trim_end_ws(t);
                    if n.len() != t.len() {
                        loc.trim_e += 1;
                    }
                    t = n;
                }
                if t.is_empty() {
                    loc.dropped += 1;
                    out.push(Exp::Dropped {
                        after: e.after,
                        before_markup: !next_is_eof,
                    });
                } else {
                    out.push(Exp::Item(Obs::Ev(Kind::Text, t.to_vec(), vec![]), e.after, None));
                }
            }
            Obs::Ev(Kind::Empty, raw, name) => {
                if c & C_EXPAND_EMPTY != 0 {
                    loc.expanded += 1;
                    out.push(Exp::Item(Obs::Ev(Kind::Start, raw.clone(), name.clone()), e.after, None));
                    out.push(Exp::Item(Obs::Ev(Kind::End, name.clone(), name.clone()), e.after, None));
                } else {
                    out.push(Exp::Item(e.obs.clone(), e.after, None));
                }
            }
            Obs::Ev(Kind::Start, _, name) => {
                stack.push(name.clone());
                out.push(Exp::Item(e.obs.clone(), e.after, None));
            }
            Obs::Ev(Kind::End, raw, _) => {
                let mut name: &[u8] = raw;
                if c & C_TRIM_NAMES != 0 {
                    let t = trim_end_ws(name);
                    if !t.is_empty() && t.len() != name.len() {
                        loc.names_trimmed += 1;
                        name = t;
                    }
                }
                // the error is reported at the `<` of the end tag; under neutral settings the End
                // event exposes everything between `</` and `>`, so the tag is `raw.len() + 3` bytes long
                // (e.before would be wrong for the first call of a BOM input)
                let lt = e.after - (raw.len() as u64 + 3);
                match stack.pop() {
                    Some(expected) => {
                        if c & C_CHECK_END_NAMES != 0 && name != &expected[..] {
                            loc.name_err += 1;
                            out.push(Exp::Item(
                                Obs::Err(ErrObs::Mismatched {
                                    expected: lossy_default(&expected),
                                    found: lossy_default(name),
                                }),
                                e.after,
                                Some(lt),
                            ));
                            continue;
                        }
                    }
                    None => {
                        if c & C_ALLOW_UNMATCHED == 0 {
                            loc.name_err += 1;
                            out.push(Exp::Item(Obs::Err(ErrObs::Unmatched(lossy_default(name))), e.after, Some(lt)));
                            continue;
                        }
                    }
                }
                out.push(Exp::Item(Obs::Ev(Kind::End, name.to_vec(), name.to_vec()), e.after, None));
            }
            Obs::Ev(Kind::Comment, raw, _) => {
                if c & C_CHECK_COMMENTS != 0 && (find_sub(raw, b"--").is_some() || raw.last() == Some(&b'-')) {
                    loc.comment_err += 1;
                    out.push(Exp::Item(Obs::Err(ErrObs::DoubleHyphen), e.after, None));
                } else {
                    out.push(Exp::Item(e.obs.clone(), e.after, None));
                }
            }
            Obs::Ev(Kind::Eof, _, _) => {
                out.push(Exp::Item(e.obs.clone(), e.after, None));
                break;
            }
            Obs::Ev(_, _, _) => out.push(Exp::Item(e.obs.clone(), e.after, None)),
            Obs::Err(err) => {
                out.push(Exp::Item(e.obs.clone(), e.after, Some(e.err_pos)));
                if err.is_syntax() {
                    break;
                }
            }
            Obs::Raw(_) => {}
        }
    }
    out
}

fn same_obs(a: &Obs, b: &Obs, strings: bool) -> bool {
    if a == b {
        return true;
    }
    if !strings {
        return matches!(
            (a, b),
            (Obs::Err(ErrObs::Mismatched { .. }), Obs::Err(ErrObs::Mismatched { .. }))
                | (Obs::Err(ErrObs::Unmatched(_)), Obs::Err(ErrObs::Unmatched(_)))
        );
    }
    false
}

/// Err(detail) on a discrepancy; Ok(number of F6-signature hits) otherwise.
fn check(input: &[u8], c: u8, known_f6: bool, loc: &mut Local) -> Result<u64, String> {
    config_probe(input, c, loc)?;
    check_src(input, c, known_f6, None, loc)
}

/// The options in force are the ones the caller set: no read call -- read_event, or read_to_end on
/// the first start tag, whether it succeeds or fails -- leaves a switch in another position.
fn config_probe(input: &[u8], c: u8, loc: &mut Local) -> Result<(), String> {
    use quick_xml::events::Event;
    use quick_xml::name::QName;
    use quick_xml::reader::Reader;
    if !input.contains(&b'<') {
        return Ok(());
    }
    let mut r = Reader::from_reader(input);
    apply_cfg(r.config_mut(), c);
    let mut skipped = false;
    for call in 0..call_bound(input.len()) + 2 {
        let mut what = "read_event";
        let done = match r.read_event() {
            Ok(Event::Start(e)) if !skipped => {
                skipped = true;
                what = "read_to_end after the first start tag";
                let name = e.name().into_inner().to_vec();
                match r.read_to_end(QName(&name)) {
                    Ok(_) => loc.probe_skips_ok += 1,
                    Err(_) => loc.probe_skips_err += 1,
                }
                false
            }
            Ok(Event::Eof) => true,
            Ok(_) => false,
            Err(quick_xml::Error::IllFormed(_)) => false,
            Err(_) => true,
        };
        let now = cfg_bits(r.config());
        if now != c {
            return Err(format!("config {}: after call {} ({}) the reader's configuration is {}", cfg_show(c), call, what, cfg_show(now)));
        }
        if done {
            break;
        }
    }
    Ok(())
}

/// `cuts` = Some(..): the configured run reads from a buffered source that delivers these pieces
/// (the options must act the same way on every source kind)
fn check_src(input: &[u8], c: u8, known_f6: bool, cuts: Option<Vec<usize>>, loc: &mut Local) -> Result<u64, String> {
    let neutral = trace_slice(input, &CfgHist::fixed(CFG_NEUTRAL));
    // for a third of the inputs the configured run also asks for `Reader::stream()` after each of its first
    // ten calls and reads nothing through it: merely looking at the raw stream between two events (also
    // between the two events of an expanded empty element) must not change anything
    let mut cfgh = CfgHist::fixed(c);
    if input.len() % 3 == 0 {
        cfgh.raw = (0..10).map(|i| (i as u32, 0u8)).collect();
        loc.noop_stream_runs += 1;
    }
    let real = match cuts {
        None => trace_slice(input, &cfgh),
        Some(cuts) => {
            loc.buffered += 1;
            crate::obs::trace_buffered(crate::sources::ChunkedRead::new(input, cuts), &cfgh).0
        }
    };
    let real: Vec<_> = real.into_iter().filter(|e| !matches!(e.obs, Obs::Raw(_))).collect();
    let exp = transform(&neutral, c, loc);
    let strings = !(find_sub(input, b"encoding").is_some()
        || input.starts_with(&[0xFE, 0xFF])
        || input.starts_with(&[0xFF, 0xFE])
        || input.starts_with(&[0, b'<'])
        || input.starts_with(&[b'<', 0]));
    let mut ri = 0usize;
    let mut f6 = 0u64;
    for x in &exp {
        match x {
            Exp::Dropped { after, before_markup } => {
                if let Some(r) = real.get(ri) {
                    if r.obs.is_empty_text() {
                        // an empty Text event where the text had to be dropped
                        let sig = c & C_TRIM_END != 0 && c & C_TRIM_START == 0 && *before_markup && r.after == *after;
                        if sig && known_f6 {
                            f6 += 1;
                            ri += 1;
                            continue;
                        }
                        return Err(format!(
                            "config {}: call {} returned an empty Text event (position {}) for a whitespace-only text that must be dropped",
                            cfg_show(c),
                            ri,
                            r.after
                        ));
                    }
                }
            }
            Exp::Item(obs, after, errpos) => {
                let r = match real.get(ri) {
                    Some(r) => r,
                    None => return Err(format!("config {}: trace ended after {} calls, expected {}", cfg_show(c), ri, obs.show())),
                };
                if !same_obs(&r.obs, obs, strings) {
                    return Err(format!(
                        "config {}: call {} returned {} but the neutral stream transformed by the documented rules gives {}",
                        cfg_show(c),
                        ri,
                        r.obs.show(),
                        obs.show()
                    ));
                }
                if r.after != *after {
                    return Err(format!(
                        "config {}: call {} ({}) reports position {} but the same construct ends at {} under neutral settings",
                        cfg_show(c),
                        ri,
                        r.obs.show(),
                        r.after,
                        after
                    ));
                }
                if let Some(p) = errpos {
                    if r.err_pos != *p {
                        return Err(format!(
                            "config {}: call {} ({}) reports error position {} instead of {}",
                            cfg_show(c),
                            ri,
                            r.obs.show(),
                            r.err_pos,
                            p
                        ));
                    }
                }
                ri += 1;
            }
        }
    }
    // everything after the end of the expected list must be Eof at the same position
    let last_after = match exp.last() {
        Some(Exp::Item(_, a, _)) => Some(*a),
        _ => None,
    };
    let terminal_syntax = matches!(exp.last(), Some(Exp::Item(Obs::Err(e), _, _)) if e.is_syntax());
    let terminal_eof = matches!(exp.last(), Some(Exp::Item(o, _, _)) if o.is_eof());
    if !(terminal_eof || terminal_syntax) {
        return Err("neutral trace did not terminate".into());
    }
    while let Some(r) = real.get(ri) {
        if !r.obs.is_eof() {
            return Err(format!("config {}: call {} returned {} after the end of the document", cfg_show(c), ri, r.obs.show()));
        }
        if let Some(a) = last_after {
            if r.after != a {
                return Err(format!("config {}: position after final Eof is {} instead of {}", cfg_show(c), r.after, a));
            }
        }
        ri += 1;
    }
    Ok(f6)
}

fn case_json(input: &[u8], c: u8) -> Value {
    json!({"input": input_json(input), "config": c, "config_show": cfg_show(c)})
}

/// the same relation with the configured run on a buffered source (piece size 1 or random pieces)
fn run_case_buffered(ctx: &mut Ctx, loc: &mut Local, input: &[u8], c: u8, r: &mut crate::rng::Rng) -> bool {
    if input.len() < 2 {
        return true;
    }
    let fmin = if matches!(input.first(), Some(0xEF) | Some(0xFE) | Some(0xFF) | Some(0)) { 4 } else { 0 };
    let cuts = if input.len() > 200 && r.chance(2, 3) {
        // long inputs: long pieces
        if r.bool() {
            crate::sources::cuts_for_piece(input.len(), crate::gen::SCALE_PIECES[r.below(crate::gen::SCALE_PIECES.len())], fmin)
        } else {
            crate::sources::big_random_cuts(r, input.len(), fmin)
        }
    } else if r.bool() {
        crate::sources::cuts_for_piece(input.len(), 1, fmin)
    } else {
        let mut v = Vec::new();
        let mut p = fmin.max(1 + r.below(3));
        while p < input.len() {
            v.push(p);
            p += 1 + r.below(5);
        }
        v
    };
    let case = json!({"input": input_json(input), "config": c, "config_show": cfg_show(c), "cuts": cuts});
    ctx.journal(|| case.clone());
    ctx.eval(crate::rng::H::new().bytes(input).u64(c as u64).u64(cuts.len() as u64 + 1000).finish(), input.contains(&b'<') && c != CFG_NEUTRAL);
    let known = ctx.is_known("F6");
    let res = guarded(|| check_src(input, c, known, Some(cuts.clone()), loc)).unwrap_or_else(Err);
    match res {
        Err(d) => {
            ctx.violation(case, format!("buffered source with cuts {:?}: {}", &cuts[..cuts.len().min(16)], d));
            !ctx.full()
        }
        Ok(f6) => {
            for _ in 0..f6 {
                ctx.known_hit("F6");
            }
            loc.f6_hits += f6;
            true
        }
    }
}

fn run_case(ctx: &mut Ctx, loc: &mut Local, input: &[u8], c: u8, src: Src) -> bool {
    ctx.journal(|| case_json(input, c));
    let h = crate::rng::H::new().bytes(input).u64(c as u64).finish();
    ctx.eval(h, input.contains(&b'<') && c != CFG_NEUTRAL);
    loc.cfg_seen[c as usize & 0x7F] += 1;
    let known = ctx.is_known("F6");
    let r = guarded(|| check(input, c, known, loc));
    let r = match r {
        Ok(r) => r,
        Err(p) => Err(p),
    };
    match r {
        Err(d) => {
            ctx.violation(case_json(input, c), d);
            !ctx.full()
        }
        Ok(f6) => {
            if f6 > 0 {
                loc.f6_hits += f6;
                for _ in 0..f6 {
                    ctx.known_hit("F6");
                }
            }
            ctx.sample(|| json!({"input": show(input), "config": cfg_show(c), "source": src.name()}));
            true
        }
    }
}

const SPECIAL: &[&str] = &[
    " <a/>", "  <a/>  ", "\n<a>\n</a>\n", "<a> </a>", "<a>\t<b/>\n</a>", " ", "  ", " x ", "<a/> ", "<a/>\n\n", " <!--c--> ", "<a> x </a >",
    "<a>x</a >", "<a></a\n>", " <", "  <a", "<a/> <", "\n<?x?>\n", "<a> <![CDATA[ ]]> </a>", "<!--a--b-->", "<!--a--->", "<!-- - -->", "<!---->",
    "<a/><b/ >", "<a><b/></a>", "<a><a/></b>", "</a>", " </a> ", "<a></b> </c>", "\u{FEFF} <a/>", "\u{FEFF}  ",
];

fn run(ctx: &mut Ctx) {
    let mut loc = Local::new();
    let t = ctx.tier;
    // exhaustive: bytes x all 128 configurations
    let plan = Plan {
        bytes_n: t.pick(5, 6),
        tokens_k: t.pick(2, 3),
        pool: true,
        ..Plan::default()
    };
    for_each_input(ctx, &plan, &mut |ctx, input, src, _r| {
        for c in 0..128u8 {
            if !run_case(ctx, &mut loc, input, c, src) {
                return false;
            }
        }
        true
    });
    ctx.exhaustive("every enumerated input is crossed with all 128 reader configurations");
    let mut rb = ctx.rng(21);
    for (i, s) in SPECIAL.iter().enumerate() {
        if ctx.owns(i as u64) {
            for c in 0..128u8 {
                if !run_case(ctx, &mut loc, s.as_bytes(), c, Src::Pool) {
                    break;
                }
                if !run_case_buffered(ctx, &mut loc, s.as_bytes(), c, &mut rb) {
                    break;
                }
            }
        }
    }
    let plan = Plan {
        tokens_k: t.pick(4, 5),
        grammar_docs: t.pick(40_000, 400_000),
        mutants_per_doc: 3,
        truncate_all: true,
        bom_share: 8,
        corpus: true,
        corpus_truncs: t.pick(8, 32),
        random_atoms: t.pick(300_000, 3_000_000),
        scale_max: 8192,
        ..Plan::default()
    };
    for_each_input(ctx, &plan, &mut |ctx, input, src, r| {
        let n = if src == Src::Tokens { 4 } else { 16 };
        for k in 0..n {
            let c = (r.next() & 0x7F) as u8;
            if !run_case(ctx, &mut loc, input, c, src) {
                return false;
            }
            if (k % 4 == 0 || src == Src::Scale) && !run_case_buffered(ctx, &mut loc, input, c, r) {
                return false;
            }
        }
        true
    });
    for (i, n) in loc.cfg_seen.iter().enumerate() {
        if *n > 0 {
            ctx.add(&format!("cfg.{:03}", i), *n);
        }
    }
    ctx.add("configured_runs_that_look_at_stream_between_events", loc.noop_stream_runs);
    ctx.add("texts_dropped", loc.dropped);
    ctx.add("texts_trimmed_start", loc.trim_s);
    ctx.add("texts_trimmed_end", loc.trim_e);
    ctx.add("empties_expanded", loc.expanded);
    ctx.add("comment_errors", loc.comment_err);
    ctx.add("end_names_trimmed", loc.names_trimmed);
    ctx.add("name_errors", loc.name_err);
    ctx.add("ws_only_text_before_markup", loc.ws_before_markup);
    ctx.add("ws_only_text_at_eof", loc.ws_at_eof);
    ctx.add("F6_signature_hits", loc.f6_hits);
    ctx.add("buffered_source_runs", loc.buffered);
    ctx.add("config_probe.read_to_end_ok", loc.probe_skips_ok);
    ctx.add("config_probe.read_to_end_err", loc.probe_skips_err);
}

fn replay(case: &Value, ctx: &mut Ctx) -> Option<String> {
    if let Some(h) = case.get("fuzz").and_then(|v| v.as_str()) {
        return fuzz_entry(&crate::ctx::unhex(h)).err();
    }
    let input = input_from_json(&case["input"]);
    let c = case["config"].as_u64().unwrap_or(0) as u8;
    let mut loc = Local::new();
    let cuts: Option<Vec<usize>> = case["cuts"].as_array().map(|a| a.iter().map(|x| x.as_u64().unwrap_or(0) as usize).collect());
    match check_src(&input, c, ctx.is_known("F6"), cuts, &mut loc) {
        Err(d) => Some(d),
        Ok(_) => None,
    }
}

/// libFuzzer entry: first byte = configuration, rest = input
pub fn fuzz_entry(data: &[u8]) -> Result<(), String> {
    if data.is_empty() {
        return Ok(());
    }
    let mut loc = Local::new();
    // the known finding F6 is tolerated here exactly as in the monitor
    let known = crate::runner::known_active_for("C16").contains_key("F6");
    check(&data[1..], data[0] & 0x7F, known, &mut loc).map(|_| ())
}
