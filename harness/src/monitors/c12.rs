//! C12 — skipping an element consumes exactly that element and reports its inner span.
//! Oracle: R_tok's literal token spans + an independent same-name depth match; the call
//! is made on a clone of the reader so that the uncloned run is the reference for
//! "the next event is whatever follows the end tag".

use super::common::*;
use crate::ctx::{guarded, show, Ctx};
use crate::gen::{gen_doc, DocOpts};
use crate::obs::*;
use crate::refmodel::tok::{is_ws, tokenize, Step};
use crate::rng::{Rng, H};
use crate::runner::PropSpec;
use crate::sources::*;
use quick_xml::events::Event;
use quick_xml::name::QName;
use quick_xml::reader::Reader;
use serde_json::{json, Value};

pub const SPEC: PropSpec = PropSpec {
    id: "C12",
    level: "exploration",
    rule: "Cases = (document, configuration over trim_text_start/trim_text_end/expand_empty_elements (+ defaults), source kind slice / buffered with piece size 1,3,random / async with Pending script, Start event index). At EVERY Start event of every document the reader is cloned and read_to_end / read_to_end_into / read_to_end_into_async (and read_text on the slice reader) is called on the clone; the returned span must be (end of the start tag .. '<' of the matching end tag) as computed from R_tok's literal token spans with an independent same-name depth count (empty span for an expanded empty element), the clone's next event and position must equal what follows that end tag in the uncloned run, config() must be unchanged after the call (also when it fails), and read_text must return exactly input[span]. Documents: generated well-formed documents over the names {a, b, ab} nested up to 6 deep with same-named descendants, <a/> inside <a>, comments/CDATA/PIs/attribute values containing look-alike end tags, whitespace before '>' in end tags, BOM; every truncation of each document (failure path: must be Err, config restored). Non-trivial = the skipped element has at least one same-named descendant or look-alike end tag inside.",
    assumptions: &["R_tok token spans (validated against the reader by C01/C08)", "documents are valid UTF-8 so that read_text can be compared as a string"],
    required: &["skips_of_the_enclosing_element_from_inside_a_child", "skips.ok", "skips.same_name_nested", "skips.empty_span_expanded", "skips.failed", "config_restored_after_failure", "read_text_compared", "source.slice", "source.buffered", "source.async", "skips.with_trim_start", "skips.lookalike_inside"],
    run,
    replay,
    thorough_layers: &[],
    quick_layers: &[],
    post: None,
};

#[derive(Default)]
pub struct Local {
    ok: u64,
    scale_docs: u64,
    follow_events: u64,
    nested: u64,
    empty_span: u64,
    failed: u64,
    restored_after_fail: u64,
    text_cmp: u64,
    src: [u64; 3],
    trim_start: u64,
    lookalike: u64,
    max_same_depth: u64,
    ancestor_skips: u64,
}

#[derive(Clone, Copy, Debug, PartialEq, Eq)]
pub enum SrcKind {
    Slice,
    Buffered,
    Async,
}

/// Uniform view of the three reader kinds.
trait Rd: Sized {
    fn next(&mut self) -> Result<(Obs, u64), String>;
    fn skip(&mut self, name: &[u8]) -> Result<Result<(u64, u64), ErrObs>, String>;
    fn text(&mut self, _name: &[u8]) -> Option<Result<String, ErrObs>> {
        None
    }
    fn cfg(&self) -> u8;
    fn dup(&self) -> Self;
    fn pos(&self) -> u64;
}

struct RS<'a>(Reader<&'a [u8]>);
impl<'a> Rd for RS<'a> {
    fn next(&mut self) -> Result<(Obs, u64), String> {
        let r = self.0.read_event();
        let o = result_obs(&r);
        Ok((o, self.0.buffer_position()))
    }
    fn skip(&mut self, name: &[u8]) -> Result<Result<(u64, u64), ErrObs>, String> {
        Ok(match self.0.read_to_end(QName(name)) {
            Ok(s) => Ok((s.start, s.end)),
            Err(e) => Err(err_obs(&e)),
        })
    }
    fn text(&mut self, name: &[u8]) -> Option<Result<String, ErrObs>> {
        Some(match self.0.read_text(QName(name)) {
            Ok(s) => Ok(s.into_owned()),
            Err(e) => Err(err_obs(&e)),
        })
    }
    fn cfg(&self) -> u8 {
        cfg_bits(self.0.config())
    }
    fn dup(&self) -> Self {
        RS(self.0.clone())
    }
    fn pos(&self) -> u64 {
        self.0.buffer_position()
    }
}
struct RB<'a>(Reader<ChunkedRead<'a>>);
impl<'a> Rd for RB<'a> {
    fn next(&mut self) -> Result<(Obs, u64), String> {
        let mut buf = Vec::new();
        let r = self.0.read_event_into(&mut buf);
        let o = result_obs(&r);
        drop(r);
        Ok((o, self.0.buffer_position()))
    }
    fn skip(&mut self, name: &[u8]) -> Result<Result<(u64, u64), ErrObs>, String> {
        let mut buf = Vec::new();
        Ok(match self.0.read_to_end_into(QName(name), &mut buf) {
            Ok(s) => Ok((s.start, s.end)),
            Err(e) => Err(err_obs(&e)),
        })
    }
    fn cfg(&self) -> u8 {
        cfg_bits(self.0.config())
    }
    fn dup(&self) -> Self {
        RB(self.0.clone())
    }
    fn pos(&self) -> u64 {
        self.0.buffer_position()
    }
}
struct RA<'a>(Reader<AsyncChunked<'a>>, u64);
impl<'a> Rd for RA<'a> {
    fn next(&mut self) -> Result<(Obs, u64), String> {
        let mut buf = Vec::new();
        let o = {
            let (r, _) = block_on(self.0.read_event_into_async(&mut buf), self.1)?;
            result_obs(&r)
        };
        Ok((o, self.0.buffer_position()))
    }
    fn skip(&mut self, name: &[u8]) -> Result<Result<(u64, u64), ErrObs>, String> {
        let mut buf = Vec::new();
        let (r, _) = block_on(self.0.read_to_end_into_async(QName(name), &mut buf), self.1 * 8)?;
        Ok(match r {
            Ok(s) => Ok((s.start, s.end)),
            Err(e) => Err(err_obs(&e)),
        })
    }
    fn cfg(&self) -> u8 {
        cfg_bits(self.0.config())
    }
    fn dup(&self) -> Self {
        RA(self.0.clone(), self.1)
    }
    fn pos(&self) -> u64 {
        self.0.buffer_position()
    }
}

fn trimmed_name<'a>(raw: &'a [u8], cfg: u8) -> &'a [u8] {
    if cfg & C_TRIM_NAMES != 0 {
        let mut e = raw.len();
        while e > 0 && is_ws(raw[e - 1]) {
            e -= 1;
        }
        if e > 0 {
            return &raw[..e];
        }
    }
    raw
}

/// What the skip started after token `ti` (a Start, or an Empty when expansion is on) must do.
enum Expect {
    /// span and the index of the closing token (for an expanded empty element: the token itself)
    Ok { start: u64, end: u64, close_after: u64, nested: u64, lookalike: bool },
    Fail,
}

fn expect_for(toks: &[Step], ti: usize, cfg: u8, input: &[u8]) -> Expect {
    let (kind, name) = match &toks[ti].obs {
        Obs::Ev(k, _, n) => (*k, n.clone()),
        _ => return Expect::Fail,
    };
    if kind == Kind::Empty {
        return Expect::Ok {
            start: toks[ti].after,
            end: toks[ti].after,
            close_after: toks[ti].after,
            nested: 0,
            lookalike: false,
        };
    }
    let mut depth = 0u64;
    let mut nested = 0u64;
    for t in &toks[ti + 1..] {
        match &t.obs {
            Obs::Ev(Kind::Start, _, n) if *n == name => {
                depth += 1;
                nested = nested.max(depth);
            }
            Obs::Ev(Kind::End, raw, _) if trimmed_name(raw, cfg) == &name[..] => {
                if depth == 0 {
                    let inner = &input[toks[ti].after as usize..t.before as usize];
                    let mut pat = b"</".to_vec();
                    pat.extend_from_slice(&name);
                    // look-alike: more occurrences of "</name" inside than real same-named end tags
                    let occurrences = inner.windows(pat.len()).filter(|w| *w == &pat[..]).count() as u64;
                    return Expect::Ok {
                        start: toks[ti].after,
                        end: t.before,
                        close_after: t.after,
                        nested,
                        lookalike: occurrences > nested,
                    };
                }
                depth -= 1;
            }
            Obs::Err(_) => return Expect::Fail,
            _ => {}
        }
    }
    Expect::Fail
}

/// read_to_end(`anc`) called right after the start-like token `ti`, where `anc` names an element that
/// is open around it: everything up to the end tag that closes `anc` is consumed (same-named
/// elements in between are counted), the span starts where the reader stands.
fn expect_ancestor(toks: &[Step], ti: usize, anc: &[u8], cfg: u8) -> Expect {
    let here = toks[ti].after;
    if let Obs::Ev(Kind::Empty, _, n) = &toks[ti].obs {
        // an expanded empty element still owes its End: if it bears the name, that End ends the skip
        if &n[..] == anc {
            return Expect::Ok { start: here, end: here, close_after: here, nested: 0, lookalike: false };
        }
    }
    let mut depth = 0u64;
    for t in &toks[ti + 1..] {
        match &t.obs {
            Obs::Ev(Kind::Start, _, n) if &n[..] == anc => depth += 1,
            Obs::Ev(Kind::Empty, _, n) if cfg & C_EXPAND_EMPTY != 0 && &n[..] == anc => {}
            Obs::Ev(Kind::End, raw, _) if trimmed_name(raw, cfg) == anc => {
                if depth == 0 {
                    return Expect::Ok { start: here, end: t.before, close_after: t.after, nested: 0, lookalike: false };
                }
                depth -= 1;
            }
            Obs::Err(_) => return Expect::Fail,
            _ => {}
        }
    }
    Expect::Fail
}

fn check_with<R: Rd>(mut r: R, input: &[u8], cfg: u8, kind: SrcKind, loc: &mut Local) -> Result<(), String> {
    // reference: the uncloned run of the same reader kind
    let toks = tokenize(input, CFG_NEUTRAL);
    let mut reference: Vec<(Obs, u64)> = Vec::new();
    {
        let mut u = r.dup();
        for _ in 0..call_bound(input.len()) + 2 {
            let (o, p) = u.next()?;
            let stop = o.is_eof() || matches!(&o, Obs::Err(e) if e.is_syntax());
            reference.push((o, p));
            if stop {
                break;
            }
        }
    }
    let str_input = std::str::from_utf8(input).ok();
    let start_tokens: Vec<usize> = toks
        .iter()
        .enumerate()
        .filter(|(_, t)| matches!(t.obs, Obs::Ev(Kind::Start, _, _)) || (cfg & C_EXPAND_EMPTY != 0 && matches!(t.obs, Obs::Ev(Kind::Empty, _, _))))
        .map(|(i, _)| i)
        .collect();
    let mut starts_seen = 0usize;
    let mut open: Vec<Vec<u8>> = Vec::new();
    for i in 0..reference.len() {
        let (o, p) = r.next()?;
        if (o.clone(), p) != reference[i] {
            return Err(format!("the reader is not deterministic: call {} gave {} @{} then {} @{}", i, reference[i].0.show(), reference[i].1, o.show(), p));
        }
        if let Obs::Ev(Kind::End, _, _) = &o {
            open.pop();
        }
        let name = match &o {
            Obs::Ev(Kind::Start, _, n) => n.clone(),
            _ => continue,
        };
        let parent = open.last().cloned();
        open.push(name.clone());
        // the token this Start came from: the k-th Start event belongs to the k-th start-like token
        // (Start tokens, and Empty tokens when they are expanded)
        let ti = match start_tokens.get(starts_seen) {
            Some(ti) => *ti,
            None => return Err(format!("call {} returned a Start event but the document has only {} start tags", i, start_tokens.len())),
        };
        starts_seen += 1;
        if toks[ti].after != p {
            return Err(format!(
                "the position after {} is {} but its tag ends at {}",
                o.show(),
                p,
                toks[ti].after
            ));
        }
        // the enclosing element skipped from here (what the deserializer does when it has looked one
        // event ahead): consumes up to the parent's end tag, the span starts at the current position
        if let Some(anc) = &parent {
            if let Expect::Ok { start, end, close_after, .. } = expect_ancestor(&toks, ti, anc, cfg) {
                let mut ca = r.dup();
                match ca.skip(anc)? {
                    Ok(sp) if sp == (start, end) => {
                        let k = reference.iter().enumerate().skip(i).find(|(_, (o, q))| *q == close_after && matches!(o, Obs::Ev(Kind::End, _, _)));
                        if let Some((k, _)) = k {
                            let upto = if input.len() > 2000 { (k + 7).min(reference.len()) } else { reference.len() };
                            for (n, follow) in reference[k + 1..upto].iter().enumerate() {
                                let (o2, p2) = ca.next()?;
                                if (&o2, p2) != (&follow.0, follow.1) {
                                    return Err(format!(
                                        "after read_to_end({:?}) called from inside its child {:?} (span {}..{}) event {} behind the end tag is {} @{} but the uncloned run continues with {} @{}",
                                        show(anc), show(&name), start, end, n, o2.show(), p2, follow.0.show(), follow.1
                                    ));
                                }
                                loc.follow_events += 1;
                            }
                        }
                        loc.ancestor_skips += 1;
                    }
                    Ok(sp) => {
                        return Err(format!(
                            "read_to_end({:?}) called from inside its child {:?} (after the Start ending at {}) returned the span {}..{} but the rest of the element is {}..{} ({:?})",
                            show(anc), show(&name), p, sp.0, sp.1, start, end, show(&input[start as usize..end as usize])
                        ));
                    }
                    Err(e) => {
                        return Err(format!("read_to_end({:?}) called from inside its child {:?} failed with {:?}; expected the span {}..{}", show(anc), show(&name), e, start, end));
                    }
                }
            }
        }
        let exp = expect_for(&toks, ti, cfg, input);
        let mut c = r.dup();
        let cfg_before = c.cfg();
        let res = c.skip(&name)?;
        if c.cfg() != cfg_before {
            return Err(format!(
                "config() after read_to_end({:?}) is {} but was {} before the call (call result {:?})",
                show(&name),
                cfg_show(c.cfg()),
                cfg_show(cfg_before),
                res.as_ref().map_err(|e| e.name())
            ));
        }
        loc.src[kind as usize] += 1;
        match (&exp, &res) {
            (Expect::Fail, Ok(s)) => {
                return Err(format!("read_to_end({:?}) after the Start ending at {} returned Ok({}..{}) although the element is never closed", show(&name), p, s.0, s.1));
            }
            (Expect::Fail, Err(_)) => {
                loc.failed += 1;
                loc.restored_after_fail += 1;
            }
            (Expect::Ok { start, end, .. }, Err(e)) => {
                return Err(format!("read_to_end({:?}) after the Start ending at {} failed with {:?}; expected the span {}..{}", show(&name), p, e, start, end));
            }
            (Expect::Ok { start, end, close_after, nested, lookalike }, Ok(s)) => {
                if (s.0, s.1) != (*start, *end) {
                    return Err(format!(
                        "read_to_end({:?}) after the Start ending at {} returned the span {}..{} but the element's content is {}..{} ({:?})",
                        show(&name),
                        p,
                        s.0,
                        s.1,
                        start,
                        end,
                        show(&input[*start as usize..*end as usize])
                    ));
                }
                loc.ok += 1;
                if *nested > 0 {
                    loc.nested += 1;
                    loc.max_same_depth = loc.max_same_depth.max(*nested);
                }
                if *lookalike {
                    loc.lookalike += 1;
                }
                if start == end && matches!(toks[ti].obs, Obs::Ev(Kind::Empty, _, _)) {
                    loc.empty_span += 1;
                }
                if cfg & C_TRIM_START != 0 {
                    loc.trim_start += 1;
                }
                // next event of the clone = what follows the end tag in the uncloned run
                let k = reference.iter().enumerate().skip(i + 1).find(|(_, (o, q))| *q == *close_after && matches!(o, Obs::Ev(Kind::End, _, _)));
                if let Some((k, _)) = k {
                    // ... and so is everything after it: the skip must leave no trace in the reader's state
                    // (open-element stack, pending states), also where that shows only several events later
                    let upto = if input.len() > 2000 { (k + 7).min(reference.len()) } else { reference.len() };
                    for (n, follow) in reference[k + 1..upto].iter().enumerate() {
                        let (o2, p2) = c.next()?;
                        if (&o2, p2) != (&follow.0, follow.1) {
                            return Err(format!(
                                "after read_to_end({:?}) (span {}..{}) event {} behind the end tag is {} @{} but the uncloned run continues with {} @{}",
                                show(&name),
                                start,
                                end,
                                n,
                                o2.show(),
                                p2,
                                follow.0.show(),
                                follow.1
                            ));
                        }
                        loc.follow_events += 1;
                    }
                } else if c.pos() != *close_after {
                    return Err(format!("after read_to_end the position is {} but the end tag ends at {}", c.pos(), close_after));
                }
                // read_text on a second clone
                let mut c2 = r.dup();
                if let (Some(tr), Some(s)) = (c2.text(&name), str_input) {
                    loc.text_cmp += 1;
                    let want = &s[*start as usize..*end as usize];
                    match tr {
                        Ok(got) if got == want => {}
                        Ok(got) => return Err(format!("read_text({:?}) returned {:?} but the input text of the span {}..{} is {:?}", show(&name), got, start, end, want)),
                        Err(e) => return Err(format!("read_text({:?}) failed with {:?}; expected {:?}", show(&name), e, want)),
                    }
                    if c2.cfg() != cfg_before {
                        return Err("config() changed by read_text".into());
                    }
                    // the reader continues as the uncloned run does behind that end tag
                    if let Some((k, _)) = k {
                        let upto = if input.len() > 2000 { (k + 7).min(reference.len()) } else { reference.len() };
                        for (n, follow) in reference[k + 1..upto].iter().enumerate() {
                            let (o2, p2) = c2.next()?;
                            if (&o2, p2) != (&follow.0, follow.1) {
                                return Err(format!(
                                    "after read_text({:?}) event {} behind the end tag is {} @{} but the uncloned run continues with {} @{}",
                                    show(&name), n, o2.show(), p2, follow.0.show(), follow.1
                                ));
                            }
                            loc.follow_events += 1;
                        }
                    }
                }
            }
        }
    }
    Ok(())
}

pub fn check(input: &[u8], cfg: u8, kind: SrcKind, cuts: &[usize], pending: &[u8], loc: &mut Local) -> Result<(), String> {
    match kind {
        SrcKind::Slice => {
            let mut r = Reader::from_reader(input);
            apply_cfg(r.config_mut(), cfg);
            check_with(RS(r), input, cfg, kind, loc)
        }
        SrcKind::Buffered => {
            let mut r = Reader::from_reader(ChunkedRead::new(input, cuts.to_vec()));
            apply_cfg(r.config_mut(), cfg);
            check_with(RB(r), input, cfg, kind, loc)
        }
        SrcKind::Async => {
            let mut r = Reader::from_reader(AsyncChunked::new(input, cuts.to_vec(), pending.to_vec()));
            apply_cfg(r.config_mut(), cfg);
            check_with(RA(r, 64 + 300 * (input.len() as u64 + 2)), input, cfg, kind, loc)
        }
    }
}

fn case_json(input: &[u8], cfg: u8, kind: SrcKind, cuts: &[usize], pending: &[u8]) -> Value {
    json!({"input": input_json(input), "config": cfg, "config_show": cfg_show(cfg), "source": format!("{:?}", kind), "cuts": cuts, "pending": pending})
}

fn run_case(ctx: &mut Ctx, loc: &mut Local, input: &[u8], cfg: u8, kind: SrcKind, cuts: &[usize], pending: &[u8]) -> bool {
    ctx.journal(|| case_json(input, cfg, kind, cuts, pending));
    let before = (loc.nested, loc.lookalike);
    let r = guarded(|| check(input, cfg, kind, cuts, pending, loc));
    let r = match r {
        Ok(r) => r,
        Err(p) => Err(p),
    };
    let h = H::new().bytes(input).u64(cfg as u64).u64(kind as u64).u64(cuts.len() as u64).finish();
    ctx.eval(h, (loc.nested, loc.lookalike) != before);
    if let Err(d) = r {
        ctx.violation(case_json(input, cfg, kind, cuts, pending), d);
        return !ctx.full();
    }
    ctx.sample(|| json!({"input": show(input), "config": cfg_show(cfg), "source": format!("{:?}", kind)}));
    true
}

const POOL: &[&str] = &[
    "<a><a></a></a>",
    "<a><a/></a>",
    "<a><a><a>x</a></a><a/></a>",
    "<a><!--</a>--></a>",
    "<a><![CDATA[</a>]]></a>",
    "<a><?p </a>?></a>",
    "<a><b k='</a>'/></a>",
    "<a>x</a >",
    "<a> <b> </b> </a\n> y",
    "<a/><b/>",
    "<a></a><a>  </a>",
    "x<a>y<b>z</b>w</a>v",
    "\u{FEFF}<a><a>é</a></a>",
    "<a><ab></ab><a></a></a>",
    "<ab><a></a></ab>",
    "<a>\n  <a>\n  </a>\n</a>\n",
    "<r><a>\u{FEFF}x<c>y</c></a><b>\u{FEFF}</b></r>",
    "<a>\u{c}x\u{c}</a>\u{c}",
];

fn configs() -> Vec<u8> {
    let mut v = Vec::new();
    for ts in [0, C_TRIM_START] {
        for te in [0, C_TRIM_END] {
            for ex in [0, C_EXPAND_EMPTY] {
                v.push(CFG_DEFAULT | ts | te | ex);
            }
        }
    }
    v.push(CFG_NEUTRAL);
    v.push(CFG_NEUTRAL | C_EXPAND_EMPTY | C_TRIM_START);
    v
}

fn all_sources(ctx: &mut Ctx, loc: &mut Local, input: &[u8], cfg: u8, r: &mut Rng, every: bool) -> bool {
    if !run_case(ctx, loc, input, cfg, SrcKind::Slice, &[], &[]) {
        return false;
    }
    let fmin = if input.first() == Some(&0xEF) { 4 } else { 0 };
    let pieces: &[usize] = if every { &[1, 3] } else { &[1] };
    for &piece in pieces {
        if every || r.chance(1, 3) {
            let cuts = cuts_for_piece(input.len(), piece, fmin);
            if !run_case(ctx, loc, input, cfg, SrcKind::Buffered, &cuts, &[]) {
                return false;
            }
        }
    }
    if every || r.chance(1, 3) {
        let mut cuts = Vec::new();
        let mut p = fmin.max(1 + r.below(4));
        while p < input.len() {
            cuts.push(p);
            p += 1 + r.below(6);
        }
        let pend: Vec<u8> = (0..4).map(|_| r.below(3) as u8).collect();
        if !run_case(ctx, loc, input, cfg, SrcKind::Buffered, &cuts, &[]) {
            return false;
        }
        if !run_case(ctx, loc, input, cfg, SrcKind::Async, &cuts, &pend) {
            return false;
        }
    }
    true
}

fn run(ctx: &mut Ctx) {
    let mut loc = Local::default();
    let t = ctx.tier;
    let cfgs = configs();
    let mut r = ctx.rng(5);
    // pool: all configs, all sources, all truncations
    for (i, d) in POOL.iter().enumerate() {
        if !ctx.owns(i as u64) {
            continue;
        }
        let d = d.as_bytes();
        for &cfg in &cfgs {
            if !all_sources(ctx, &mut loc, d, cfg, &mut r, true) {
                return flush(ctx, &loc);
            }
            for cut in 1..d.len() {
                if !run_case(ctx, &mut loc, &d[..cut], cfg, SrcKind::Slice, &[], &[]) {
                    return flush(ctx, &loc);
                }
            }
        }
    }
    // scale: long names / values / texts, deep nesting, many siblings; long pieces
    let max = if ctx.scale_pct < 100 { 64 } else { t.pick(1024, 8192) };
    for (kind, _n, d) in crate::gen::scale_docs(ctx.shard, ctx.nshards, ctx.seed, max) {
        // the property is about well-formed documents: not the kinds with a wrong end tag / an open DOCTYPE
        if kind == 10 || kind == 12 {
            continue;
        }
        // a skip is tried at every start tag: the kinds with thousands of start tags stay at 1024
        if matches!(kind, 4 | 9 | 11 | 15) && _n > 1025 {
            continue;
        }
        loc.scale_docs += 1;
        let cfg = cfgs[r.below(cfgs.len())];
        if !run_case(ctx, &mut loc, &d, cfg, SrcKind::Slice, &[], &[]) {
            return flush(ctx, &loc);
        }
        for piece in [32usize, 33, 128, 1024] {
            if piece >= d.len() {
                continue;
            }
            let kind = if piece == 33 { SrcKind::Async } else { SrcKind::Buffered };
            if !run_case(ctx, &mut loc, &d, cfgs[r.below(cfgs.len())], kind, &cuts_for_piece(d.len(), piece, 0), &[0, 1]) {
                return flush(ctx, &loc);
            }
        }
        let cuts = crate::sources::big_random_cuts(&mut r, d.len(), 0);
        if !run_case(ctx, &mut loc, &d, cfg, SrcKind::Buffered, &cuts, &[]) {
            return flush(ctx, &loc);
        }
    }
    let n = ctx.scaled(t.pick(120_000, 15_000_000)) / ctx.nshards as u64;
    let opts = DocOpts {
        max_depth: 6,
        max_children: 4,
        names: &["a", "b", "ab", "a"],
        ..DocOpts::default()
    };
    for k in 0..n {
        let mut o = opts.clone();
        o.bom = r.chance(1, 8);
        o.max_depth = 2 + r.below(5);
        let doc = gen_doc(&mut r, &o);
        let cfg = cfgs[r.below(cfgs.len())];
        if !all_sources(ctx, &mut loc, &doc, cfg, &mut r, false) {
            break;
        }
        // failure path: truncations (every offset for every 8th document)
        let cuts: Vec<usize> = if k % 8 == 0 { (1..doc.len()).collect() } else { (0..6).map(|_| 1 + r.below(doc.len().max(2) - 1)).collect() };
        for cut in cuts {
            let kind = if r.chance(1, 6) { SrcKind::Buffered } else { SrcKind::Slice };
            let c1 = cuts_for_piece(cut, 1, if doc.first() == Some(&0xEF) { 4 } else { 0 });
            if !run_case(ctx, &mut loc, &doc[..cut], cfg, kind, &c1, &[]) {
                return flush(ctx, &loc);
            }
        }
    }
    flush(ctx, &loc);
}

fn flush(ctx: &mut Ctx, loc: &Local) {
    ctx.add("skips.ok", loc.ok);
    ctx.add("scale_documents", loc.scale_docs);
    ctx.add("events_compared_behind_the_skipped_element", loc.follow_events);
    ctx.add("skips.same_name_nested", loc.nested);
    ctx.add("skips.empty_span_expanded", loc.empty_span);
    ctx.add("skips.failed", loc.failed);
    ctx.add("config_restored_after_failure", loc.restored_after_fail);
    ctx.add("read_text_compared", loc.text_cmp);
    ctx.add("source.slice", loc.src[0]);
    ctx.add("source.buffered", loc.src[1]);
    ctx.add("source.async", loc.src[2]);
    ctx.add("skips.with_trim_start", loc.trim_start);
    ctx.add("skips.lookalike_inside", loc.lookalike);
    ctx.max("max.same_name_nesting", loc.max_same_depth);
    ctx.add("skips_of_the_enclosing_element_from_inside_a_child", loc.ancestor_skips);
}

fn replay(case: &Value, _ctx: &mut Ctx) -> Option<String> {
    let input = input_from_json(&case["input"]);
    let cfg = case["config"].as_u64().unwrap_or(0) as u8;
    let kind = match case["source"].as_str().unwrap_or("") {
        "Buffered" => SrcKind::Buffered,
        "Async" => SrcKind::Async,
        _ => SrcKind::Slice,
    };
    let cuts: Vec<usize> = case["cuts"].as_array().map(|a| a.iter().map(|x| x.as_u64().unwrap_or(0) as usize).collect()).unwrap_or_default();
    let pending: Vec<u8> = case["pending"].as_array().map(|a| a.iter().map(|x| x.as_u64().unwrap_or(0) as u8).collect()).unwrap_or_default();
    let mut loc = Local::default();
    check(&input, cfg, kind, &cuts, &pending, &mut loc).err()
}
