//! C04 — end tags are matched against open start tags exactly as configured.
//! Oracle: R_tok's open-element stack, driven in lock-step, with the four related
//! switches flipped at arbitrary points of the event history.

use super::common::*;
use crate::ctx::{guarded, show, Ctx};
use crate::obs::*;
use crate::refmodel::tok::TokModel;
use crate::rng::{Rng, H};
use crate::runner::PropSpec;
use quick_xml::reader::Reader;
use serde_json::{json, Value};

pub const SPEC: PropSpec = PropSpec {
    id: "C04",
    level: "exploration",
    rule: "Cases = (tag sequence, base setting of the four switches check_end_names / allow_unmatched_ends / trim_markup_names_in_closing_tags / expand_empty_elements, flip history). Exhaustive: every sequence of up to N tags over {<a> <ab> <a:b> <b> </a> </ab> </a:b> </b> </a␠> <a/> <ab/> </>} under all 16 settings; for every sequence of up to M tags, every single-switch flip before every call index (including between the Start and the synthetic End of an expanded empty element). Random: longer sequences with text, comments and attributes in between and multi-flip histories. The real reader runs in lock-step with R_tok's open-element stack model; every event and every MismatchedEndTag{expected,found} / UnmatchedEndTag payload is compared (the error position is observed, not judged), and reading continues after each ill-formedness error. Non-trivial = the sequence contains at least one end tag.",
    assumptions: &["R_tok's open-stack rules: push on Start and expanded Empty, pop on every End also while checking is off, compare only when check_end_names is on at the time of the End"],
    required: &["errors.Mismatched", "errors.Unmatched", "errors_after_errors", "flips_check_on_with_open_elements", "flip_between_expanded_start_and_end", "max.depth", "settings_seen_all16"],
    run,
    replay,
    thorough_layers: &[],
    quick_layers: &[],
    post: Some(post),
};

fn post(c: &mut std::collections::BTreeMap<String, u64>) {
    let keys: Vec<String> = c.keys().filter(|k| k.starts_with("setting.")).cloned().collect();
    let seen = keys.len() as u64;
    for k in keys {
        c.remove(&k);
    }
    c.insert("settings_seen".into(), seen);
    c.insert("settings_seen_all16".into(), (seen == 16) as u64);
}

const TAGS: [&str; 12] = ["<a>", "<ab>", "<a:b>", "<b>", "</a>", "</ab>", "</a:b>", "</b>", "</a >", "<a/>", "<ab/>", "</>"];
const SWITCHES: [u8; 4] = [C_CHECK_END_NAMES, C_ALLOW_UNMATCHED, C_TRIM_NAMES, C_EXPAND_EMPTY];

fn setting_bits(s: u8) -> u8 {
    let mut b = 0;
    for (i, sw) in SWITCHES.iter().enumerate() {
        if s >> i & 1 == 1 {
            b |= sw;
        }
    }
    b
}

#[derive(Default)]
pub struct Local {
    mismatched: u64,
    scale_docs: u64,
    stream_looks: u64,
    errpos_at_tag: u64,
    errpos_other: u64,
    unmatched: u64,
    err_after_err: u64,
    check_on_with_open: u64,
    flip_in_expanded: u64,
    max_depth: u64,
    settings: [u64; 16],
    flips: u64,
    ends: u64,
}

fn setting_index(bits: u8) -> usize {
    let mut s = 0;
    for (i, sw) in SWITCHES.iter().enumerate() {
        if bits & sw != 0 {
            s |= 1 << i;
        }
    }
    s
}

pub fn lockstep(input: &[u8], cfg: &CfgHist, loc: &mut Local) -> Result<(), String> {
    let mut r = Reader::from_reader(input);
    let mut m = TokModel::new(input);
    let limit = call_bound(input.len()) + 2;
    let mut prev_err = false;
    let mut prev_cfg = cfg.at(0);
    let mut prev_was_expanded_start = false;
    let mut eofs = 0;
    for call in 0..limit as u32 {
        let c = cfg.at(call);
        if c != prev_cfg {
            loc.flips += 1;
            if c & C_CHECK_END_NAMES != 0 && prev_cfg & C_CHECK_END_NAMES == 0 && m.depth() > 0 {
                loc.check_on_with_open += 1;
            }
            if prev_was_expanded_start {
                loc.flip_in_expanded += 1;
            }
        }
        apply_cfg(r.config_mut(), c);
        let depth_before = m.depth();
        let res = r.read_event();
        let real = result_obs(&res);
        drop(res);
        // a look at the raw stream between two events (also between the Start and the End of an expanded
        // empty element) reads nothing and must not disturb the open-element stack
        if cfg.raw.iter().any(|(i, _)| *i == call) {
            let _ = r.stream();
            loc.stream_looks += 1;
        }
        if real.is_empty_text() {
            continue;
        }
        let s = m.step(c);
        prev_was_expanded_start = matches!(&s.obs, Obs::Ev(Kind::Start, _, _)) && {
            // an expanded empty element: the model has a pending synthetic End
            m.depth() == depth_before + 1 && input.get(s.after as usize - 2) == Some(&b'/')
        } && c & C_EXPAND_EMPTY != 0;
        let is_err = matches!(real, Obs::Err(_));
        match &real {
            Obs::Err(ErrObs::Mismatched { .. }) => loc.mismatched += 1,
            Obs::Err(ErrObs::Unmatched(_)) => loc.unmatched += 1,
            Obs::Ev(Kind::End, _, _) => loc.ends += 1,
            _ => {}
        }
        if is_err && prev_err {
            loc.err_after_err += 1;
        }
        prev_err = is_err;
        prev_cfg = c;
        loc.max_depth = loc.max_depth.max(m.depth() as u64);
        if real != s.obs {
            return Err(format!(
                "call {} (switches {}): reader returned {} but the open-element model gives {} (model depth before the call {})",
                call,
                cfg_show(c),
                real.show(),
                s.obs.show(),
                depth_before
            ));
        }
        // the error position is documented (start of the end tag) but not part of C04: observed only
        if is_err {
            if r.error_position() == s.err_pos {
                loc.errpos_at_tag += 1;
            } else {
                loc.errpos_other += 1;
            }
        }
        if real.is_eof() {
            eofs += 1;
            if eofs >= 2 {
                return Ok(());
            }
        }
    }
    Err("no Eof within the call bound".into())
}

fn case_json(input: &[u8], cfg: &CfgHist) -> Value {
    json!({"input": input_json(input), "cfg": cfg.to_json()})
}

fn run_case(ctx: &mut Ctx, loc: &mut Local, input: &[u8], cfg: &CfgHist) -> bool {
    ctx.journal(|| case_json(input, cfg));
    let mut h = H::new().bytes(input).u64(cfg.base as u64);
    for (i, b) in &cfg.flips {
        h = h.u64((*i as u64) << 8 | *b as u64);
    }
    ctx.eval(h.finish(), crate::refmodel::tok::find_sub(input, b"</").is_some());
    loc.settings[setting_index(cfg.base)] += 1;
    let r = guarded(|| lockstep(input, cfg, loc));
    let r = match r {
        Ok(r) => r,
        Err(p) => Err(p),
    };
    if let Err(d) = r {
        ctx.violation(case_json(input, cfg), d);
        return !ctx.full();
    }
    ctx.sample(|| json!({"input": show(input), "cfg": cfg.to_json()}));
    true
}

fn seq_bytes(digits: &[u8], out: &mut Vec<u8>) {
    out.clear();
    for &d in digits {
        out.extend_from_slice(TAGS[d as usize].as_bytes());
    }
}

fn random_doc(r: &mut Rng) -> Vec<u8> {
    // names are bytes: some are not valid UTF-8 (a Latin-1 document read as UTF-8), and two different
    // such names must still be told apart byte for byte
    let names: [&[u8]; 11] = [b"a", b"ab", b"a:b", b"b", b"abc", b"", b"caf\xE9", b"th\xE9", b"\xFF", b"\xC3\xA9", b"a\xE9"];
    let mut out = Vec::new();
    let n = 1 + r.below(24);
    let mut open: Vec<&[u8]> = Vec::new();
    for _ in 0..n {
        match r.below(12) {
            0..=3 => {
                let nm = *r.pick(&names);
                out.push(b'<');
                out.extend_from_slice(nm);
                if r.chance(1, 4) {
                    out.extend_from_slice(b" k='v>' x=\"</a>\"");
                }
                out.push(b'>');
                open.push(nm);
            }
            4..=6 => {
                // mostly the right name, sometimes a wrong one / trailing space
                let nm: &[u8] = if r.chance(3, 4) { open.pop().unwrap_or(b"a") } else { *r.pick(&names) };
                out.extend_from_slice(b"</");
                out.extend_from_slice(nm);
                if r.chance(1, 4) {
                    out.extend_from_slice(r.pick(&[" ", "\n", "\t ", "  "]).as_bytes());
                }
                out.push(b'>');
            }
            7 => {
                let nm = *r.pick(&names);
                out.push(b'<');
                out.extend_from_slice(nm);
                out.extend_from_slice(r.pick(&["/>", " />", " k='v'/>"]).as_bytes());
            }
            8 => out.extend_from_slice(r.pick(&["text", " ", "x y", "&amp;"]).as_bytes()),
            9 => out.extend_from_slice(r.pick(&["<!--</a>-->", "<![CDATA[</a>]]>", "<?p </a>?>", "<!DOCTYPE>"]).as_bytes()),
            _ => {
                let nm: &[u8] = open.pop().unwrap_or(b"b");
                out.extend_from_slice(b"</");
                out.extend_from_slice(nm);
                out.push(b'>');
            }
        }
    }
    out
}

fn run(ctx: &mut Ctx) {
    let mut loc = Local::default();
    let t = ctx.tier;
    let mut digits = Vec::new();
    let mut buf = Vec::new();
    // (1) all sequences x all 16 settings
    let n = t.pick(6u32, 7u32);
    let total = crate::gen::count_upto(12, n);
    let mut i = ctx.shard as u64;
    'outer: while i < total {
        crate::gen::decode_index(i, 12, &mut digits);
        seq_bytes(&digits, &mut buf);
        for s in 0..16u8 {
            if !run_case(ctx, &mut loc, &buf, &CfgHist::fixed(setting_bits(s))) {
                break 'outer;
            }
        }
        i += ctx.nshards as u64;
    }
    ctx.exhaustive(&format!("all {} sequences of <= {} tags over the 12-tag alphabet x all 16 settings of the four switches", total, n));
    // (2) single flips at every call index
    let m = t.pick(4u32, 5u32);
    let total = crate::gen::count_upto(12, m);
    let mut i = ctx.shard as u64;
    'outer2: while i < total {
        crate::gen::decode_index(i, 12, &mut digits);
        seq_bytes(&digits, &mut buf);
        let max_call = 2 * digits.len() as u32 + 1;
        for s in 0..16u8 {
            let base = setting_bits(s);
            for sw in SWITCHES {
                for at in 1..=max_call {
                    let cfg = CfgHist {
                        base,
                        flips: vec![(at, base ^ sw)],
                        raw: vec![],
                    };
                    if !run_case(ctx, &mut loc, &buf, &cfg) {
                        break 'outer2;
                    }
                }
            }
        }
        i += ctx.nshards as u64;
    }
    ctx.exhaustive(&format!(
        "for all {} sequences of <= {} tags: every base setting x every single switch flipped before every call index",
        total, m
    ));
    // (3) random multi-flip histories on random longer documents
    let mut r = ctx.rng(4);
    let n = ctx.scaled(t.pick(1_000_000, 10_000_000)) / ctx.nshards as u64;
    for _ in 0..n {
        let doc = random_doc(&mut r);
        let base = setting_bits(r.below(16) as u8);
        let mut flips = Vec::new();
        let mut at = 0u32;
        let mut cur = base;
        for _ in 0..r.below(8) {
            at += 1 + r.below(5) as u32;
            cur ^= *r.pick(&SWITCHES);
            flips.push((at, cur));
        }
        // now and then the history also looks at stream() after some of its calls
        let raw: Vec<(u32, u8)> = if r.chance(1, 4) { (0..12u32).filter(|_| r.bool()).map(|i| (i, 0u8)).collect() } else { vec![] };
        if !run_case(ctx, &mut loc, &doc, &CfgHist { base, flips, raw }) {
            break;
        }
    }
    // (4) scale: nesting depths and sibling counts around 32 .. 8192, every setting, with the name check
    // switched off and on again at various depths
    let max = if ctx.scale_pct < 100 { 64 } else { t.pick(1024, 8192) };
    for (kind, size, doc) in crate::gen::scale_docs(ctx.shard, ctx.nshards, ctx.seed, max) {
        if !matches!(kind, 0 | 9 | 10 | 11 | 14) {
            continue;
        }
        loc.scale_docs += 1;
        for s in 0..16u8 {
            let base = setting_bits(s);
            let size = size as u32;
            let histories: Vec<Vec<(u32, u8)>> = vec![
                vec![],
                // one switch flipped half way down / at the bottom / on the way up
                vec![(size / 2, base ^ SWITCHES[r.below(SWITCHES.len())])],
                vec![(size, base ^ SWITCHES[0])],
                vec![(size + size / 3, base ^ SWITCHES[r.below(SWITCHES.len())])],
                // off on the way down, on again at the bottom
                vec![(1, base ^ SWITCHES[0]), (size + 1, base)],
            ];
            for flips in histories {
                if !run_case(ctx, &mut loc, &doc, &CfgHist { base, flips, raw: vec![] }) {
                    break;
                }
            }
        }
    }
    ctx.add("scale_documents", loc.scale_docs);
    ctx.add("looks_at_stream_between_events", loc.stream_looks);
    ctx.add("errors.Mismatched", loc.mismatched);
    ctx.add("observation.error_position_at_end_tag", loc.errpos_at_tag);
    ctx.add("observation.error_position_elsewhere", loc.errpos_other);
    ctx.add("errors.Unmatched", loc.unmatched);
    ctx.add("errors_after_errors", loc.err_after_err);
    ctx.add("flips_check_on_with_open_elements", loc.check_on_with_open);
    ctx.add("flip_between_expanded_start_and_end", loc.flip_in_expanded);
    ctx.add("flips_applied", loc.flips);
    ctx.add("end_events", loc.ends);
    ctx.max("max.depth", loc.max_depth);
    for (i, n) in loc.settings.iter().enumerate() {
        if *n > 0 {
            ctx.add(&format!("setting.{:02}", i), *n);
        }
    }
}

fn replay(case: &Value, _ctx: &mut Ctx) -> Option<String> {
    let input = input_from_json(&case["input"]);
    let cfg = CfgHist::from_json(&case["cfg"]);
    let mut loc = Local::default();
    lockstep(&input, &cfg, &mut loc).err()
}
