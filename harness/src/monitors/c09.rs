//! C09 — events built through the API and written are read back identical.
//! Oracle: a model of the builder calls (what was asked for), compared with what the
//! reader returns for the written bytes; four writer paths must produce the same bytes.

use crate::ctx::{guarded, show, Ctx};
use crate::obs::*;
use crate::rng::{Rng, H};
use crate::runner::PropSpec;
use crate::sources::{block_on, FailOnceSink, ShortSink};
use quick_xml::events::attributes::Attribute;
use quick_xml::events::{BytesCData, BytesDecl, BytesEnd, BytesPI, BytesStart, BytesText, Event};
use quick_xml::name::QName;
use quick_xml::reader::Reader;
use quick_xml::writer::Writer;
use serde::{Deserialize, Serialize};
use serde_json::{json, Value};
use std::borrow::Cow;

pub const SPEC: PropSpec = PropSpec {
    id: "C09",
    level: "exploration",
    rule: "Cases = sequences of builder calls (BytesStart::new / from_content followed by any edits push_attribute with (&str,&str) / (&str,Cow) / pre-escaped (&[u8],&[u8]) / Attribute, extend_attributes, with_attributes, clear_attributes, set_name; to_end; BytesEnd::new; BytesText::new and from_escaped; BytesCData::escaped (all pieces) and BytesCData::new for ']]>'-free content; comments via BytesText::new; BytesPI::new; BytesDecl::new over version x encoding x standalone; DocType; write_bom first; create_element(..).with_attribute(s)..write_{text,cdata,pi}_content / write_empty / write_inner_content) with payload strings from a hostile pool (both quotes, '<', '>', '&', ']]>', ']]]]>>', '--', '?>', leading/trailing/inner whitespace incl. TAB/LF/CR, entity look-alikes, NUL, non-ASCII, long strings). Every sequence is written through Writer::write_event, write_event_async, the ElementWriter sync methods and the ElementWriter async methods; the byte strings must be equal; element-builder calls are additionally written on an indenting writer with new_line() between attributes and must read back with the same name, attributes and content. The bytes are read back under the neutral configuration and compared with the model of the calls (adjacent texts coalesced, empty texts dropped, adjacent CDATA pieces coalesced): element and attribute names, unescaped attribute values, unescaped text and comment content, raw CDATA / PI content, declaration fields. Exhaustive over a 16-kind call alphabet up to length 3 (payloads chosen per position by the seed); random sequences up to length 6/12. Non-trivial = at least one payload contains a markup-significant character or an edit was applied between construction and writing.",
    assumptions: &["documented preconditions are respected by the generator: names are XML names, comment content has no '--' and does not end in '-', PI content has no '?>' and its target is not 'xml', BytesCData::new content has no ']]>', pre-escaped values are produced by escape(), attribute keys are unique per element, declared encodings are UTF-8"],
    required: &["sink_short_write_calls", "sink_failures_survived", "calls.StartNew", "calls.StartFromContent", "calls.End", "calls.Empty", "calls.TextNew", "calls.TextFromEscaped", "calls.CDataEscaped", "calls.CDataNew", "calls.Comment", "calls.PI", "calls.Decl", "calls.ElemText", "calls.ElemCData", "calls.ElemPI", "calls.ElemEmpty", "calls.ElemInner", "edits.SetName", "edits.Clear", "edits.PushBytes", "edits.Extend", "edits.With", "cdata_splits", "async_bytes_compared", "attr_values_compared", "builder_indented_with_new_line"],
    run,
    replay,
    thorough_layers: &[],
    quick_layers: &[],
    post: None,
};

#[derive(Clone, Debug, Serialize, Deserialize, PartialEq)]
pub enum Edit {
    PushStr(String, String),
    PushCow(String, String),
    /// key, raw value; written pre-escaped through the (&[u8], &[u8]) conversion
    PushBytes(String, String),
    PushAttribute(String, String),
    Extend(Vec<(String, String)>),
    With(Vec<(String, String)>),
    Clear,
    SetName(String),
}

#[derive(Clone, Debug, Serialize, Deserialize, PartialEq)]
pub enum Content {
    Text(String),
    CData(String),
    PI(String),
    Empty,
    Inner(Vec<Call>),
}

#[derive(Clone, Debug, Serialize, Deserialize, PartialEq)]
pub enum Call {
    StartNew { name: String, edits: Vec<Edit>, empty: bool },
    /// name, pre-written attributes (key, raw value)
    StartFromContent { name: String, attrs: Vec<(String, String)>, edits: Vec<Edit>, empty: bool },
    End(String),
    /// Start followed (later) by to_end() of the same BytesStart, with content calls in between
    Pair { name: String, edits: Vec<Edit>, inner: Vec<Call> },
    TextNew(String),
    /// (escaped form, meaning)
    TextFromEscaped(String, String),
    CDataEscaped(String),
    CDataNew(String),
    Comment(String),
    PI(String),
    Decl { version: String, encoding: Option<String>, standalone: Option<String> },
    DocType(String),
    Bom,
    Elem { name: String, attrs: Vec<(String, String)>, use_with_attributes: bool, content: Content },
}

/// What the reader must return.
#[derive(Clone, Debug, PartialEq)]
pub enum M {
    Start(String, Vec<(String, String)>),
    Empty(String, Vec<(String, String)>),
    End(String),
    Text(String),
    CData(String),
    Comment(String),
    PI(String),
    Decl(String, Option<String>, Option<String>),
    DocType(String),
}

fn apply_edits_model(name: &mut String, attrs: &mut Vec<(String, String)>, edits: &[Edit]) {
    for e in edits {
        match e {
            Edit::PushStr(k, v) | Edit::PushCow(k, v) | Edit::PushBytes(k, v) | Edit::PushAttribute(k, v) => attrs.push((k.clone(), v.clone())),
            Edit::Extend(v) | Edit::With(v) => attrs.extend(v.iter().cloned()),
            Edit::Clear => attrs.clear(),
            Edit::SetName(n) => *name = n.clone(),
        }
    }
}

fn model_of(calls: &[Call], out: &mut Vec<M>) {
    for c in calls {
        match c {
            Call::StartNew { name, edits, empty } => {
                let (mut n, mut a) = (name.clone(), vec![]);
                apply_edits_model(&mut n, &mut a, edits);
                out.push(if *empty { M::Empty(n, a) } else { M::Start(n, a) });
            }
            Call::StartFromContent { name, attrs, edits, empty } => {
                let (mut n, mut a) = (name.clone(), attrs.clone());
                apply_edits_model(&mut n, &mut a, edits);
                out.push(if *empty { M::Empty(n, a) } else { M::Start(n, a) });
            }
            Call::End(n) => out.push(M::End(n.clone())),
            Call::Pair { name, edits, inner } => {
                let (mut n, mut a) = (name.clone(), vec![]);
                apply_edits_model(&mut n, &mut a, edits);
                out.push(M::Start(n.clone(), a));
                model_of(inner, out);
                out.push(M::End(n));
            }
            Call::TextNew(s) => out.push(M::Text(s.clone())),
            Call::TextFromEscaped(_, meaning) => out.push(M::Text(meaning.clone())),
            Call::CDataEscaped(s) | Call::CDataNew(s) => out.push(M::CData(s.clone())),
            Call::Comment(s) => out.push(M::Comment(s.clone())),
            Call::PI(s) => out.push(M::PI(s.clone())),
            Call::Decl { version, encoding, standalone } => out.push(M::Decl(version.clone(), encoding.clone(), standalone.clone())),
            Call::DocType(s) => out.push(M::DocType(s.clone())),
            Call::Bom => {}
            Call::Elem { name, attrs, content, .. } => match content {
                Content::Empty => out.push(M::Empty(name.clone(), attrs.clone())),
                Content::Text(s) => {
                    out.push(M::Start(name.clone(), attrs.clone()));
                    out.push(M::Text(s.clone()));
                    out.push(M::End(name.clone()));
                }
                Content::CData(s) => {
                    out.push(M::Start(name.clone(), attrs.clone()));
                    out.push(M::CData(s.clone()));
                    out.push(M::End(name.clone()));
                }
                Content::PI(s) => {
                    out.push(M::Start(name.clone(), attrs.clone()));
                    out.push(M::PI(s.clone()));
                    out.push(M::End(name.clone()));
                }
                Content::Inner(inner) => {
                    out.push(M::Start(name.clone(), attrs.clone()));
                    model_of(inner, out);
                    out.push(M::End(name.clone()));
                }
            },
        }
    }
}

/// adjacent texts coalesced, empty ones dropped; adjacent CDATA coalesced
fn normalize(m: Vec<M>) -> Vec<M> {
    let mut out: Vec<M> = Vec::new();
    for x in m {
        match (&x, out.last_mut()) {
            (M::Text(s), _) if s.is_empty() => {}
            (M::Text(s), Some(M::Text(p))) => p.push_str(s),
            (M::CData(s), Some(M::CData(p))) => p.push_str(s),
            _ => out.push(x),
        }
    }
    out
}

fn build_start<'a>(name: &'a str, pre: Option<&[(String, String)]>, edits: &'a [Edit]) -> BytesStart<'static> {
    // the start tag is built either on an owned buffer or -- as an event that comes from a reader
    // does -- borrowing its content; the edits then run on the borrowed event first
    let content: String = match pre {
        None => name.to_string(),
        Some(attrs) => {
            let mut c = name.to_string();
            for (i, (k, v)) in attrs.iter().enumerate() {
                c.push(' ');
                c.push_str(k);
                c.push('=');
                if i % 2 == 0 {
                    c.push('"');
                    c.push_str(&quick_xml::escape::escape(v.as_str()));
                    c.push('"');
                } else {
                    // single-quoted: escape() also escapes the apostrophe
                    c.push('\'');
                    c.push_str(&quick_xml::escape::escape(v.as_str()));
                    c.push('\'');
                }
            }
            c
        }
    };
    let borrowed = (content.len() + edits.len()) % 2 == 0;
    let mut s: BytesStart = match (borrowed, pre.is_some()) {
        (true, false) => BytesStart::new(content.as_str()),
        (true, true) => BytesStart::from_content(content.as_str(), name.len()),
        (false, false) => BytesStart::new(content.clone()),
        (false, true) => BytesStart::from_content(content.clone(), name.len()),
    };
    for e in edits {
        match e {
            Edit::PushStr(k, v) => s.push_attribute((k.as_str(), v.as_str())),
            Edit::PushCow(k, v) => s.push_attribute((k.as_str(), Cow::Owned::<str>(v.clone()))),
            Edit::PushBytes(k, v) => {
                let esc = quick_xml::escape::escape(v.as_str()).into_owned();
                s.push_attribute((k.as_bytes(), esc.as_bytes()));
            }
            Edit::PushAttribute(k, v) => {
                let esc = quick_xml::escape::escape(v.as_str()).into_owned();
                s.push_attribute(Attribute {
                    key: QName(k.as_bytes()),
                    value: Cow::Owned(esc.into_bytes()),
                });
            }
            Edit::Extend(v) => {
                s.extend_attributes(v.iter().map(|(k, v)| (k.as_str(), v.as_str())));
            }
            Edit::With(v) => {
                s = s.with_attributes(v.iter().map(|(k, v)| (k.as_str(), v.as_str())));
            }
            Edit::Clear => {
                s.clear_attributes();
            }
            Edit::SetName(n) => {
                s.set_name(n.as_bytes());
            }
        }
    }
    s.into_owned()
}

/// Flatten calls into plain events (paths 1 and 2).
fn events_of(calls: &[Call], out: &mut Vec<Event<'static>>, bom_first: &mut bool) {
    for c in calls {
        match c {
            Call::StartNew { name, edits, empty } => {
                let s = build_start(name, None, edits);
                out.push(if *empty { Event::Empty(s) } else { Event::Start(s) });
            }
            Call::StartFromContent { name, attrs, edits, empty } => {
                let s = build_start(name, Some(attrs), edits);
                out.push(if *empty { Event::Empty(s) } else { Event::Start(s) });
            }
            Call::End(n) => out.push(Event::End(BytesEnd::new(n.clone()))),
            Call::Pair { name, edits, inner } => {
                let s = build_start(name, None, edits);
                let end = s.to_end().into_owned();
                out.push(Event::Start(s));
                events_of(inner, out, bom_first);
                out.push(Event::End(end));
            }
            Call::TextNew(s) => out.push(Event::Text(BytesText::new(s).into_owned())),
            Call::TextFromEscaped(e, _) => out.push(Event::Text(BytesText::from_escaped(e.clone()))),
            Call::CDataEscaped(s) => {
                for piece in BytesCData::escaped(s) {
                    out.push(Event::CData(piece.into_owned()));
                }
            }
            Call::CDataNew(s) => out.push(Event::CData(BytesCData::new(s.clone()))),
            Call::Comment(s) => out.push(Event::Comment(BytesText::new(s).into_owned())),
            Call::PI(s) => out.push(Event::PI(BytesPI::new(s.clone()))),
            Call::Decl { version, encoding, standalone } => {
                out.push(Event::Decl(BytesDecl::new(version, encoding.as_deref(), standalone.as_deref())))
            }
            Call::DocType(s) => out.push(Event::DocType(BytesText::from_escaped(s.clone()))),
            Call::Bom => *bom_first = true,
            Call::Elem { name, attrs, content, .. } => {
                let mut s = BytesStart::new(name.clone());
                for (k, v) in attrs {
                    s.push_attribute((k.as_str(), v.as_str()));
                }
                let end = s.to_end().into_owned();
                match content {
                    Content::Empty => out.push(Event::Empty(s)),
                    Content::Text(t) => {
                        out.push(Event::Start(s));
                        out.push(Event::Text(BytesText::new(t).into_owned()));
                        out.push(Event::End(end));
                    }
                    Content::CData(t) => {
                        out.push(Event::Start(s));
                        out.push(Event::CData(BytesCData::new(t.clone())));
                        out.push(Event::End(end));
                    }
                    Content::PI(t) => {
                        out.push(Event::Start(s));
                        out.push(Event::PI(BytesPI::new(t.clone())));
                        out.push(Event::End(end));
                    }
                    Content::Inner(inner) => {
                        out.push(Event::Start(s));
                        events_of(inner, out, bom_first);
                        out.push(Event::End(end));
                    }
                }
            }
        }
    }
}

fn io_err(e: impl std::fmt::Display) -> String {
    format!("writer returned an error: {}", e)
}

/// path 3: ElementWriter (sync) for `Elem` calls, write_event for everything else
fn write_sync_elem(w: &mut Writer<Vec<u8>>, calls: &[Call]) -> Result<(), String> {
    for c in calls {
        match c {
            Call::Elem { name, attrs, use_with_attributes, content } => {
                let mut ew = w.create_element(name.as_str());
                if *use_with_attributes {
                    ew = ew.with_attributes(attrs.iter().map(|(k, v)| (k.as_str(), v.as_str())));
                } else {
                    for (k, v) in attrs {
                        ew = ew.with_attribute((k.as_str(), v.as_str()));
                    }
                }
                match content {
                    Content::Empty => ew.write_empty().map(|_| ()).map_err(io_err)?,
                    Content::Text(t) => ew.write_text_content(BytesText::new(t)).map(|_| ()).map_err(io_err)?,
                    Content::CData(t) => ew.write_cdata_content(BytesCData::new(t.as_str())).map(|_| ()).map_err(io_err)?,
                    Content::PI(t) => ew.write_pi_content(BytesPI::new(t.as_str())).map(|_| ()).map_err(io_err)?,
                    Content::Inner(inner) => {
                        let mut res: Result<(), String> = Ok(());
                        ew.write_inner_content(|w| {
                            res = write_sync_elem(w, inner);
                            Ok(())
                        })
                        .map(|_| ())
                        .map_err(io_err)?;
                        res?;
                    }
                }
            }
            Call::Bom => {}
            Call::Pair { name, edits, inner } => {
                let s = build_start(name, None, edits);
                let end = s.to_end().into_owned();
                w.write_event(Event::Start(s)).map_err(io_err)?;
                write_sync_elem(w, inner)?;
                w.write_event(Event::End(end)).map_err(io_err)?;
            }
            other => {
                let mut evs = Vec::new();
                let mut b = false;
                events_of(std::slice::from_ref(other), &mut evs, &mut b);
                for e in evs {
                    w.write_event(e).map_err(io_err)?;
                }
            }
        }
    }
    Ok(())
}

/// path 4: ElementWriter (async) where an async method exists
fn write_async_elem(w: &mut Writer<Vec<u8>>, calls: &[Call]) -> Result<(), String> {
    for c in calls {
        match c {
            Call::Elem { name, attrs, use_with_attributes, content } => {
                let mut ew = w.create_element(name.as_str());
                if *use_with_attributes {
                    ew = ew.with_attributes(attrs.iter().map(|(k, v)| (k.as_str(), v.as_str())));
                } else {
                    for (k, v) in attrs {
                        ew = ew.with_attribute((k.as_str(), v.as_str()));
                    }
                }
                match content {
                    Content::Empty => block_on(ew.write_empty_async(), 1000)?.0.map(|_| ()).map_err(io_err)?,
                    Content::Text(t) => block_on(ew.write_text_content_async(BytesText::new(t)), 1000)?.0.map(|_| ()).map_err(io_err)?,
                    Content::CData(t) => block_on(ew.write_cdata_content_async(BytesCData::new(t.as_str())), 1000)?.0.map(|_| ()).map_err(io_err)?,
                    Content::PI(t) => block_on(ew.write_pi_content_async(BytesPI::new(t.as_str())), 1000)?.0.map(|_| ()).map_err(io_err)?,
                    Content::Inner(inner) => {
                        let mut res: Result<(), String> = Ok(());
                        let rr = &mut res;
                        let fut = ew.write_inner_content_async(|w| async move {
                            *rr = write_async_elem(&mut *w, inner);
                            Ok::<_, quick_xml::Error>(w)
                        });
                        block_on(fut, 1_000_000)?.0.map(|_| ()).map_err(io_err)?;
                        res?;
                    }
                }
            }
            Call::Bom => {}
            Call::Pair { name, edits, inner } => {
                let s = build_start(name, None, edits);
                let end = s.to_end().into_owned();
                block_on(w.write_event_async(Event::Start(s)), 1000)?.0.map_err(io_err)?;
                write_async_elem(w, inner)?;
                block_on(w.write_event_async(Event::End(end)), 1000)?.0.map_err(io_err)?;
            }
            other => {
                let mut evs = Vec::new();
                let mut b = false;
                events_of(std::slice::from_ref(other), &mut evs, &mut b);
                for e in evs {
                    block_on(w.write_event_async(e), 1000)?.0.map_err(io_err)?;
                }
            }
        }
    }
    Ok(())
}

#[derive(Default)]
pub struct Local {
    calls: std::collections::BTreeMap<String, u64>,
    edits: std::collections::BTreeMap<&'static str, u64>,
    cdata_splits: u64,
    async_cmp: u64,
    attr_vals: u64,
    texts: u64,
    bytes_written: u64,
    short_writes: u64,
    sink_failures: u64,
    builder_newlines: u64,
    builder_runs: u64,
    builder_deep: u64,
}

fn count_calls(calls: &[Call], loc: &mut Local) {
    for c in calls {
        let (k, edits): (&str, &[Edit]) = match c {
            Call::StartNew { edits, empty, .. } => (if *empty { "Empty" } else { "StartNew" }, edits),
            Call::StartFromContent { edits, .. } => ("StartFromContent", edits),
            Call::End(_) => ("End", &[]),
            Call::Pair { edits, inner, .. } => {
                count_calls(inner, loc);
                ("Pair", edits)
            }
            Call::TextNew(_) => ("TextNew", &[]),
            Call::TextFromEscaped(..) => ("TextFromEscaped", &[]),
            Call::CDataEscaped(s) => {
                loc.cdata_splits += s.matches("]]>").count() as u64;
                ("CDataEscaped", &[])
            }
            Call::CDataNew(_) => ("CDataNew", &[]),
            Call::Comment(_) => ("Comment", &[]),
            Call::PI(_) => ("PI", &[]),
            Call::Decl { .. } => ("Decl", &[]),
            Call::DocType(_) => ("DocType", &[]),
            Call::Bom => ("Bom", &[]),
            Call::Elem { content, .. } => (
                match content {
                    Content::Text(_) => "ElemText",
                    Content::CData(_) => "ElemCData",
                    Content::PI(_) => "ElemPI",
                    Content::Empty => "ElemEmpty",
                    Content::Inner(inner) => {
                        count_calls(inner, loc);
                        "ElemInner"
                    }
                },
                &[],
            ),
        };
        *loc.calls.entry(format!("calls.{}", k)).or_insert(0) += 1;
        for e in edits {
            *loc.edits
                .entry(match e {
                    Edit::PushStr(..) => "edits.PushStr",
                    Edit::PushCow(..) => "edits.PushCow",
                    Edit::PushBytes(..) => "edits.PushBytes",
                    Edit::PushAttribute(..) => "edits.PushAttribute",
                    Edit::Extend(_) => "edits.Extend",
                    Edit::With(_) => "edits.With",
                    Edit::Clear => "edits.Clear",
                    Edit::SetName(_) => "edits.SetName",
                })
                .or_insert(0) += 1;
        }
    }
}

fn read_back(bytes: &[u8], loc: &mut Local) -> Result<Vec<M>, String> {
    let mut r = Reader::from_reader(bytes);
    apply_cfg(r.config_mut(), CFG_NEUTRAL);
    let mut out = Vec::new();
    let dec = r.decoder();
    let utf = |b: &[u8]| String::from_utf8_lossy(b).into_owned();
    for _ in 0..call_bound(bytes.len()) + 2 {
        let ev = r.read_event().map_err(|e| format!("the written bytes do not read back: {} at {}", e, r.error_position()))?;
        let attrs = |e: &BytesStart, loc: &mut Local| -> Result<Vec<(String, String)>, String> {
            let mut v = Vec::new();
            for a in e.attributes().with_checks(false) {
                let a = a.map_err(|e| format!("attribute error {:?} in tag {:?}", e, show(&e.to_string().into_bytes())))?;
                let val = a.decode_and_unescape_value(dec).map_err(|e| format!("attribute value does not unescape: {}", e))?;
                loc.attr_vals += 1;
                v.push((utf(a.key.as_ref()), val.into_owned()));
            }
            Ok(v)
        };
        match &ev {
            Event::Start(e) => out.push(M::Start(utf(e.name().as_ref()), attrs(e, loc)?)),
            Event::Empty(e) => out.push(M::Empty(utf(e.name().as_ref()), attrs(e, loc)?)),
            Event::End(e) => out.push(M::End(utf(e.name().as_ref()))),
            Event::Text(e) => {
                loc.texts += 1;
                out.push(M::Text(e.unescape().map_err(|e| format!("text does not unescape: {}", e))?.into_owned()))
            }
            Event::CData(e) => out.push(M::CData(utf(e))),
            Event::Comment(e) => out.push(M::Comment(e.unescape().map_err(|e| format!("comment does not unescape: {}", e))?.into_owned())),
            Event::PI(e) => out.push(M::PI(utf(e))),
            Event::Decl(d) => {
                let ver = d.version().map_err(|e| format!("version(): {}", e))?;
                let enc = match d.encoding() {
                    None => None,
                    Some(r) => Some(utf(&r.map_err(|e| format!("encoding(): {:?}", e))?)),
                };
                let sa = match d.standalone() {
                    None => None,
                    Some(r) => Some(utf(&r.map_err(|e| format!("standalone(): {:?}", e))?)),
                };
                out.push(M::Decl(utf(&ver), enc, sa));
            }
            Event::DocType(e) => out.push(M::DocType(utf(e))),
            Event::Eof => return Ok(out),
        }
    }
    Err("no Eof".into())
}

pub fn check(calls: &[Call], loc: &mut Local) -> Result<(), String> {
    count_calls(calls, loc);
    // path 1: write_event
    let mut evs = Vec::new();
    let mut bom = false;
    events_of(calls, &mut evs, &mut bom);
    let mut w1 = Writer::new(Vec::new());
    if bom {
        w1.write_bom().map_err(io_err)?;
    }
    for e in &evs {
        w1.write_event(e.borrow()).map_err(io_err)?;
    }
    let b1 = w1.into_inner();
    loc.bytes_written += b1.len() as u64;
    // path 2: write_event_async
    let mut w2 = Writer::new(Vec::new());
    if bom {
        w2.write_bom().map_err(io_err)?;
    }
    for e in &evs {
        block_on(w2.write_event_async(e.borrow()), 1000)?.0.map_err(io_err)?;
    }
    let b2 = w2.into_inner();
    loc.async_cmp += 1;
    if b1 != b2 {
        return Err(format!("write_event_async produced {:?} but write_event produced {:?}", show(&b2), show(&b1)));
    }
    // path 2b: the same events into sinks that accept only a few bytes per write call
    // (io::Write::write may return any short count), synchronously and asynchronously with
    // Pending answers
    {
        let max = 1 + (b1.len() + evs.len()) % 3;
        let mut ws = Writer::new(ShortSink::new(max));
        let mut wa = Writer::new(ShortSink::with_pending(max, 3));
        if bom {
            ws.write_bom().map_err(io_err)?;
            wa.write_bom().map_err(io_err)?;
        }
        for e in &evs {
            ws.write_event(e.borrow()).map_err(io_err)?;
            block_on(wa.write_event_async(e.borrow()), 100_000)?.0.map_err(io_err)?;
        }
        let (ss, sa) = (ws.into_inner(), wa.into_inner());
        loc.short_writes += ss.short + sa.short;
        if ss.out != b1 {
            return Err(format!("write_event into a sink taking {} byte(s) per write call produced {:?} but a Vec sink received {:?}", max, show(&ss.out), show(&b1)));
        }
        if sa.out != b1 {
            return Err(format!("write_event_async into a sink taking {} byte(s) per poll_write produced {:?} but a Vec sink received {:?}", max, show(&sa.out), show(&b1)));
        }
    }
    // path 2c: a sink that refuses one write call. The event being written fails; every event written
    // after that must still come out as its own bytes (nothing of the failed event is sent later).
    if !bom && !evs.is_empty() {
        let k = (b1.len() as u64 * 7 + evs.len() as u64) % (2 * evs.len() as u64 + 3);
        let mut wf = Writer::new(FailOnceSink::new(k));
        let mut failed_at: Option<(usize, usize)> = None;
        for (i, e) in evs.iter().enumerate() {
            let res = wf.write_event(e.borrow());
            if res.is_err() && failed_at.is_none() {
                failed_at = Some((i, wf.get_ref().out.len()));
            } else if let Err(x) = res {
                return Err(format!("write_event failed a second time although the sink failed once: {}", x));
            }
        }
        let sink = wf.into_inner();
        match failed_at {
            None => {
                if sink.out != b1 {
                    return Err(format!("a sink that never failed received {:?} instead of {:?}", show(&sink.out), show(&b1)));
                }
            }
            Some((i, len_then)) => {
                let mut fresh = Writer::new(Vec::new());
                for e in &evs[i + 1..] {
                    fresh.write_event(e.borrow()).map_err(io_err)?;
                }
                let want = fresh.into_inner();
                if sink.out[len_then..] != want[..] {
                    return Err(format!(
                        "after the sink refused a write during event {}, the events written afterwards arrived as {:?} instead of {:?}",
                        i,
                        show(&sink.out[len_then..]),
                        show(&want)
                    ));
                }
                loc.sink_failures += 1;
            }
        }
    }
    // path 3 / 4: element writers
    let mut w3 = Writer::new(Vec::new());
    if bom {
        w3.write_bom().map_err(io_err)?;
    }
    write_sync_elem(&mut w3, calls)?;
    let b3 = w3.into_inner();
    if b1 != b3 {
        return Err(format!("the ElementWriter path produced {:?} but write_event of the same events produced {:?}", show(&b3), show(&b1)));
    }
    let mut w4 = Writer::new(Vec::new());
    if bom {
        w4.write_bom().map_err(io_err)?;
    }
    write_async_elem(&mut w4, calls)?;
    let b4 = w4.into_inner();
    if b1 != b4 {
        return Err(format!("the async ElementWriter path produced {:?} but write_event produced {:?}", show(&b4), show(&b1)));
    }
    // path 5: the element builder on an indenting writer, with new_line() between attributes
    check_builder_indented(calls, loc)?;
    // read back
    let mut m = Vec::new();
    model_of(calls, &mut m);
    let mut want = normalize(m);
    // a U+FEFF at the very beginning of the document *is* a byte-order mark (the reader is documented
    // to remove it), whether it was written by write_bom() or as the first character of a text
    if let (false, Some(M::Text(t))) = (bom, want.first_mut()) {
        if t.starts_with('\u{FEFF}') {
            t.remove(0);
            if t.is_empty() {
                want.remove(0);
            }
        }
    }
    let got = normalize(read_back(&b1, loc).map_err(|e| format!("{} (bytes {:?})", e, show(&b1)))?);
    if want != got {
        let i = (0..want.len().max(got.len())).find(|&i| want.get(i) != got.get(i)).unwrap_or(0);
        return Err(format!(
            "event {}: built {:?} but read back {:?} (written bytes {:?})",
            i,
            want.get(i),
            got.get(i),
            show(&b1)
        ));
    }
    Ok(())
}

/// `create_element(..).with_attribute(..).new_line().with_attribute(..)` on an indenting writer: the
/// attribute list may be broken over lines, but the element read back must carry the same name,
/// the same attributes with the same values and the same content.
fn check_builder_indented(calls: &[Call], loc: &mut Local) -> Result<(), String> {
    let elems: Vec<&Call> = calls.iter().filter(|c| matches!(c, Call::Elem { content, .. } if !matches!(content, Content::Inner(_)))).collect();
    if elems.is_empty() {
        return Ok(());
    }
    // now and then deep inside a document, where the indent in front of the attributes crosses the
    // 128 bytes the writer's indent cache starts with
    loc.builder_runs += 1;
    let deep = loc.builder_runs % 8 == 0;
    for indent in [(b' ', 2usize), (b'\t', 1usize), (b' ', 4usize)] {
        let depth = if deep { 128 / indent.1 - 2 + (loc.builder_runs as usize / 8) % 4 } else { 0 };
        if deep {
            loc.builder_deep += 1;
        }
        let mut w = Writer::new_with_indent(Vec::new(), indent.0, indent.1);
        let mut want: Vec<M> = Vec::new();
        for _ in 0..depth {
            w.write_event(Event::Start(BytesStart::new("d"))).map_err(io_err)?;
            want.push(M::Start("d".into(), vec![]));
        }
        for (n, c) in elems.iter().enumerate() {
            if let Call::Elem { name, attrs, content, .. } = c {
                let mut ew = w.create_element(name.as_str());
                for (i, (k, v)) in attrs.iter().enumerate() {
                    if (i + n) % 2 == 1 {
                        ew = ew.new_line();
                    }
                    ew = ew.with_attribute((k.as_str(), v.as_str()));
                }
                if attrs.len() > 1 {
                    loc.builder_newlines += 1;
                }
                match content {
                    Content::Empty => {
                        ew.write_empty().map_err(io_err)?;
                        want.push(M::Empty(name.clone(), attrs.clone()));
                    }
                    Content::Text(t) => {
                        ew.write_text_content(BytesText::new(t)).map_err(io_err)?;
                        want.push(M::Start(name.clone(), attrs.clone()));
                        want.push(M::Text(t.clone()));
                        want.push(M::End(name.clone()));
                    }
                    Content::CData(t) => {
                        ew.write_cdata_content(BytesCData::new(t.as_str())).map_err(io_err)?;
                        want.push(M::Start(name.clone(), attrs.clone()));
                        want.push(M::CData(t.clone()));
                        want.push(M::End(name.clone()));
                    }
                    Content::PI(t) => {
                        ew.write_pi_content(BytesPI::new(t.as_str())).map_err(io_err)?;
                        want.push(M::Start(name.clone(), attrs.clone()));
                        want.push(M::PI(t.clone()));
                        want.push(M::End(name.clone()));
                    }
                    Content::Inner(_) => unreachable!(),
                }
            }
        }
        for _ in 0..depth {
            w.write_event(Event::End(BytesEnd::new("d"))).map_err(io_err)?;
            want.push(M::End("d".into()));
        }
        let bytes = w.into_inner();
        // the async element builder on the same indenting writer must produce the same bytes
        {
            let mut wa = Writer::new_with_indent(Vec::new(), indent.0, indent.1);
            for _ in 0..depth {
                wa.write_event(Event::Start(BytesStart::new("d"))).map_err(io_err)?;
            }
            for (n, c) in elems.iter().enumerate() {
                if let Call::Elem { name, attrs, content, .. } = c {
                    let mut ew = wa.create_element(name.as_str());
                    for (i, (k, v)) in attrs.iter().enumerate() {
                        if (i + n) % 2 == 1 {
                            ew = ew.new_line();
                        }
                        ew = ew.with_attribute((k.as_str(), v.as_str()));
                    }
                    match content {
                        Content::Empty => block_on(ew.write_empty_async(), 1000)?.0.map(|_| ()).map_err(io_err)?,
                        Content::Text(t) => block_on(ew.write_text_content_async(BytesText::new(t)), 1000)?.0.map(|_| ()).map_err(io_err)?,
                        Content::CData(t) => block_on(ew.write_cdata_content_async(BytesCData::new(t.as_str())), 1000)?.0.map(|_| ()).map_err(io_err)?,
                        Content::PI(t) => block_on(ew.write_pi_content_async(BytesPI::new(t.as_str())), 1000)?.0.map(|_| ()).map_err(io_err)?,
                        Content::Inner(_) => unreachable!(),
                    }
                }
            }
            for _ in 0..depth {
                wa.write_event(Event::End(BytesEnd::new("d"))).map_err(io_err)?;
            }
            let ba = wa.into_inner();
            if ba != bytes {
                return Err(format!("async element builder on an indenting writer produced {:?} but the sync one {:?}", show(&ba), show(&bytes)));
            }
        }
        let ws_only = |m: &M| matches!(m, M::Text(t) if t.chars().all(|c| matches!(c, ' ' | '\t' | '\n' | '\r')));
        let got: Vec<M> = normalize(read_back(&bytes, loc).map_err(|e| format!("element builder on an indenting writer: {} (bytes {:?})", e, show(&bytes)))?).into_iter().filter(|m| !ws_only(m)).collect();
        let want: Vec<M> = normalize(want).into_iter().filter(|m| !ws_only(m)).collect();
        if want != got {
            let i = (0..want.len().max(got.len())).find(|&i| want.get(i) != got.get(i)).unwrap_or(0);
            return Err(format!("element builder on an indenting writer: event {}: built {:?} but read back {:?} (written bytes {:?})", i, want.get(i), got.get(i), show(&bytes)));
        }
    }
    Ok(())
}

// ---------------------------------------------------------------------------
// generators
// ---------------------------------------------------------------------------

pub const HOSTILE: &[&str] = &[
    "", "x", "plain text", "<", ">", "&", "'", "\"", "<a>", "</a>", "a<b>c", "&amp;", "&lt;", "&#65;", "&#x41;", "&bogus;", "& ", "]]>", "]]]]>>", "]]", "]>",
    "a]]>b]]>c", "--", "-", "a--b", "?>", "?", " lead", "trail ", " both ", "in ner", "\t", "\n", "\r", "\r\n", "a\tb\nc\rd", "\0", "é", "日本語", "\u{FEFF}", "😀",
    "\"'\"'", "='>'", "a=\"b\"", "<![CDATA[x]]>", "<!--x-->", "<?x?>", "xxxxxxxxxxxxxxxxxxxxxxxxxxxxxxxxxxxxxxxxxxxxxxxxxxxxxxxxxxxxxxxxxxxxxxxxxxxxxxxxxxxx<&>",
];
const NAMES: &[&str] = &["a", "b", "ab", "x:y", "n-1", "é", "_u", "A.b"];
const KEYS: &[&str] = &["k", "key", "a", "x:y", "xml:lang", "k2", "data-x", "é"];

fn payload(r: &mut Rng) -> String {
    if r.chance(1, 6) {
        let mut s = String::new();
        for _ in 0..1 + r.below(3) {
            s.push_str(*r.pick(HOSTILE));
        }
        s
    } else {
        r.pick(HOSTILE).to_string()
    }
}
fn comment_payload(r: &mut Rng) -> String {
    let mut s = payload(r).replace("--", "- -");
    while s.ends_with('-') {
        s.pop();
    }
    s
}
fn pi_payload(r: &mut Rng) -> String {
    let body = payload(r).replace("?>", "? >");
    let target = *r.pick(&["pi", "x", "xml-stylesheet", "xmlx", "p"]);
    if body.is_empty() {
        target.to_string()
    } else {
        format!("{} {}", target, body)
    }
}
fn cdata_new_payload(r: &mut Rng) -> String {
    payload(r).replace("]]>", "]] >")
}
fn attrs(r: &mut Rng, used: &mut Vec<&'static str>, max: usize) -> Vec<(String, String)> {
    let mut v = Vec::new();
    for _ in 0..r.below(max + 1) {
        let k = *r.pick(KEYS);
        if used.contains(&k) {
            continue;
        }
        used.push(k);
        v.push((k.to_string(), payload(r)));
    }
    v
}
fn edits(r: &mut Rng, used: &mut Vec<&'static str>) -> Vec<Edit> {
    let mut v = Vec::new();
    for _ in 0..r.below(4) {
        let one = |r: &mut Rng, used: &mut Vec<&'static str>| -> Option<(String, String)> {
            let k = *r.pick(KEYS);
            if used.contains(&k) {
                return None;
            }
            used.push(k);
            Some((k.to_string(), payload(r)))
        };
        match r.below(9) {
            0 | 1 => {
                if let Some((k, val)) = one(r, used) {
                    v.push(Edit::PushStr(k, val));
                }
            }
            2 => {
                if let Some((k, val)) = one(r, used) {
                    v.push(Edit::PushCow(k, val));
                }
            }
            3 => {
                if let Some((k, val)) = one(r, used) {
                    v.push(Edit::PushBytes(k, val));
                }
            }
            4 => {
                if let Some((k, val)) = one(r, used) {
                    v.push(Edit::PushAttribute(k, val));
                }
            }
            5 => v.push(Edit::Extend(attrs(r, used, 2))),
            6 => v.push(Edit::With(attrs(r, used, 2))),
            7 => {
                v.push(Edit::Clear);
                used.clear();
            }
            _ => v.push(Edit::SetName(r.pick(NAMES).to_string())),
        }
    }
    v
}

const KINDS: usize = 16;
fn gen_call(r: &mut Rng, kind: usize, depth: usize) -> Call {
    let name = r.pick(NAMES).to_string();
    let mut used: Vec<&'static str> = Vec::new();
    match kind {
        0 => Call::StartNew { name, edits: edits(r, &mut used), empty: false },
        1 => {
            let a = attrs(r, &mut used, 2);
            Call::StartFromContent { name, attrs: a, edits: edits(r, &mut used), empty: r.chance(1, 4) }
        }
        2 => Call::End(name),
        3 => Call::StartNew { name, edits: edits(r, &mut used), empty: true },
        4 => Call::TextNew(payload(r)),
        5 => {
            let pairs = [("&lt;", "<"), ("&#65;", "A"), ("&#x41;", "A"), ("a &amp; b", "a & b"), ("&quot;&apos;", "\"'"), ("plain", "plain"), ("&gt;&gt;", ">>"), ("&#10;", "\n"), ("", "")];
            let (e, m) = *r.pick(&pairs);
            Call::TextFromEscaped(e.to_string(), m.to_string())
        }
        6 => Call::CDataEscaped(payload(r)),
        7 => Call::CDataNew(cdata_new_payload(r)),
        8 => Call::Comment(comment_payload(r)),
        9 => Call::PI(pi_payload(r)),
        10 => Call::Decl {
            version: r.pick(&["1.0", "1.1"]).to_string(),
            encoding: r.pick(&[None, Some("UTF-8"), Some("utf-8")]).map(|s| s.to_string()),
            standalone: r.pick(&[None, Some("yes"), Some("no")]).map(|s| s.to_string()),
        },
        11 => Call::Elem { name, attrs: attrs(r, &mut used, 3), use_with_attributes: r.bool(), content: Content::Text(payload(r)) },
        12 => Call::Elem { name, attrs: attrs(r, &mut used, 3), use_with_attributes: r.bool(), content: Content::CData(cdata_new_payload(r)) },
        13 => Call::Elem {
            name,
            attrs: attrs(r, &mut used, 3),
            use_with_attributes: r.bool(),
            content: if r.bool() { Content::PI(pi_payload(r)) } else { Content::Empty },
        },
        14 => {
            let inner = if depth < 2 { (0..r.below(3)).map(|_| { let k = r.below(KINDS); gen_call(r, k, depth + 1) }).collect() } else { vec![] };
            Call::Elem { name, attrs: attrs(r, &mut used, 2), use_with_attributes: r.bool(), content: Content::Inner(inner) }
        }
        _ => {
            let inner = if depth < 2 { (0..r.below(3)).map(|_| { let k = r.below(KINDS); gen_call(r, k, depth + 1) }).collect() } else { vec![] };
            if r.chance(1, 6) {
                Call::DocType(r.pick(&["a", "html", "a SYSTEM 'x.dtd'", "a [<!ELEMENT a (b)>]"]).to_string())
            } else {
                Call::Pair { name, edits: edits(r, &mut used), inner }
            }
        }
    }
}

fn nontrivial(v: &Value) -> bool {
    let s = v.to_string();
    s.contains('<') || s.contains('&') || s.contains("\\\"") || s.contains('\'') || s.contains("]]") || s.contains("SetName") || s.contains("Clear")
}

fn run_case(ctx: &mut Ctx, loc: &mut Local, calls: &[Call]) -> bool {
    let cj = serde_json::to_value(calls).unwrap_or(Value::Null);
    ctx.journal(|| cj.clone());
    ctx.eval(H::new().str(&cj.to_string()).finish(), nontrivial(&cj));
    let r = guarded(|| check(calls, loc));
    let r = match r {
        Ok(r) => r,
        Err(p) => Err(p),
    };
    if let Err(d) = r {
        ctx.violation(cj, d);
        return !ctx.full();
    }
    ctx.sample(|| cj);
    true
}

fn run(ctx: &mut Ctx) {
    let mut loc = Local::default();
    let t = ctx.tier;
    let mut r = ctx.rng(10);
    // exhaustive over call kinds up to length 3 (payloads per position from the seed), several payload draws each
    let reps = t.pick(20, 100);
    let total = crate::gen::count_upto(KINDS as u64, 3);
    let mut digits = Vec::new();
    let mut i = ctx.shard as u64;
    'outer: while i < total {
        crate::gen::decode_index(i, KINDS as u64, &mut digits);
        for rep in 0..reps {
            let mut calls: Vec<Call> = digits.iter().map(|k| gen_call(&mut r, *k as usize, 1)).collect();
            if rep % 5 == 4 {
                calls.insert(0, Call::Bom);
            }
            if !run_case(ctx, &mut loc, &calls) {
                break 'outer;
            }
        }
        i += ctx.nshards as u64;
    }
    ctx.exhaustive(&format!("all {} sequences of <= 3 call kinds over the 16-kind call alphabet (payloads and edits drawn from the seed, {} draws each)", total, reps));
    // every hostile payload in every payload position, alone
    for (i, p) in HOSTILE.iter().enumerate() {
        if !ctx.owns(i as u64) {
            continue;
        }
        let p = p.to_string();
        let mut cases: Vec<Vec<Call>> = vec![
            vec![Call::TextNew(p.clone())],
            vec![Call::CDataEscaped(p.clone())],
            vec![Call::StartNew { name: "a".into(), edits: vec![Edit::PushStr("k".into(), p.clone())], empty: true }],
            vec![Call::StartNew { name: "a".into(), edits: vec![Edit::PushCow("k".into(), p.clone())], empty: false }],
            vec![Call::StartNew { name: "a".into(), edits: vec![Edit::PushBytes("k".into(), p.clone())], empty: true }],
            vec![Call::StartFromContent { name: "a".into(), attrs: vec![("k".into(), p.clone()), ("j".into(), p.clone())], edits: vec![], empty: true }],
            vec![Call::Elem { name: "a".into(), attrs: vec![("k".into(), p.clone())], use_with_attributes: true, content: Content::Text(p.clone()) }],
            vec![Call::TextNew("x".into()), Call::CDataEscaped(p.clone()), Call::TextNew(p.clone())],
        ];
        if !p.contains("--") && !p.ends_with('-') {
            cases.push(vec![Call::Comment(p.clone())]);
        }
        if !p.contains("]]>") {
            cases.push(vec![Call::CDataNew(p.clone())]);
            cases.push(vec![Call::Elem { name: "a".into(), attrs: vec![], use_with_attributes: false, content: Content::CData(p.clone()) }]);
        }
        if !p.contains("?>") {
            cases.push(vec![Call::PI(format!("t {}", p))]);
        }
        for c in cases {
            if !run_case(ctx, &mut loc, &c) {
                return flush(ctx, &loc);
            }
        }
    }
    ctx.exhaustive("every payload of the hostile pool alone in every payload position (text, CDATA, each attribute constructor, comment, PI, element writer)");
    // random longer sequences
    let n = ctx.scaled(t.pick(800_000, 40_000_000)) / ctx.nshards as u64;
    let maxlen = t.pick(6, 12);
    for _ in 0..n {
        let len = 1 + r.below(maxlen);
        let mut calls: Vec<Call> = (0..len).map(|_| { let k = r.below(KINDS); gen_call(&mut r, k, 0) }).collect();
        if r.chance(1, 10) {
            calls.insert(0, Call::Bom);
        }
        if !run_case(ctx, &mut loc, &calls) {
            break;
        }
    }
    flush(ctx, &loc);
}

fn flush(ctx: &mut Ctx, loc: &Local) {
    for (k, v) in &loc.calls {
        ctx.add(k, *v);
    }
    for (k, v) in &loc.edits {
        ctx.add(k, *v);
    }
    ctx.add("cdata_splits", loc.cdata_splits);
    ctx.add("async_bytes_compared", loc.async_cmp);
    ctx.add("attr_values_compared", loc.attr_vals);
    ctx.add("texts_read_back", loc.texts);
    ctx.add("bytes_written", loc.bytes_written);
    ctx.add("sink_short_write_calls", loc.short_writes);
    ctx.add("sink_failures_survived", loc.sink_failures);
    ctx.add("builder_indented_with_new_line", loc.builder_newlines);
    ctx.add("builder_indented_below_62_to_129_open_elements", loc.builder_deep);
}

fn replay(case: &Value, _ctx: &mut Ctx) -> Option<String> {
    let calls: Vec<Call> = match serde_json::from_value(case.clone()) {
        Ok(c) => c,
        Err(e) => return Some(format!("unreadable replay case: {}", e)),
    };
    let mut loc = Local::default();
    check(&calls, &mut loc).err()
}
