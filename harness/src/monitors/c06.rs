//! C06 — serialize-then-deserialize returns the original value.

use crate::ctx::{guarded, Ctx};
use crate::family::*;
use crate::rng::{Rng, H};
use crate::runner::PropSpec;
use serde_json::{json, Value};
use std::collections::BTreeMap;

pub const SPEC: PropSpec = PropSpec {
    id: "C06",
    level: "exploration",
    rule: "Cases = (value of a family type, serializer configuration). Family: 16 derive(Serialize, Deserialize) types covering every documented mapping row (attributes of every primitive kind incl. xs:list, child elements, Option skipped when None, element lists incl. empty, $text string/number/xs:list, $value choice / list of choices / mixed list with text items never adjacent, top-level enums, newtype and tuple, map with name-like keys, nested lists of structs, numeric extremes). Values come from seeded generators that favour markup characters, entity look-alikes, whitespace, control characters, non-ASCII, empty/singleton/long lists and numeric extremes; each value is serialized under several of the 36 configurations (3 quote levels x indent none/2 spaces/1 tab x expand-empty x root renamed) and the output is deserialized with from_str and compared with the value. Exhaustive part: every string of length <= 2 over {< > & ' \" ] - ? SP TAB LF CR NUL ; # x é} in each of 8 string positions under all 36 configurations. Non-trivial = the serialized document contains an entity reference or the value a markup-significant character.",
    assumptions: &[
        "domain restrictions taken from the crate documentation: element/$text strings and chars have no leading/trailing XML whitespace; xs:list items are non-empty and whitespace-free; $text String fields carry #[serde(default)]; text items of mixed lists are non-empty and never adjacent; map keys are XML names without ':'; Option fields are skipped when None (Some(\"\") is generated and must round-trip)",
        "values are regenerated from a per-case seed for replay",
    ],
    required: &["roundtrips_ok", "types_seen_all", "configs_seen_all36", "sweep.cases", "values_with_markup_chars", "rows_seen"],
    run,
    replay,
    thorough_layers: &[("novl", 50)],
    quick_layers: &[("novl", 50)],
    post: Some(post),
};

fn post(c: &mut BTreeMap<String, u64>) {
    let n_types = family().len() as u64;
    let seen = c.iter().filter(|(k, v)| k.starts_with("type.") && **v > 0).count() as u64;
    c.insert("types_seen_all".into(), (seen >= n_types) as u64);
    let cfgs = c.iter().filter(|(k, v)| k.starts_with("cfg.") && **v > 0).count() as u64;
    let keys: Vec<String> = c.keys().filter(|k| k.starts_with("cfg.")).cloned().collect();
    for k in keys {
        c.remove(&k);
    }
    c.insert("configs_seen".into(), cfgs);
    c.insert("configs_seen_all36".into(), (cfgs >= 36) as u64);
    let rows = c.iter().filter(|(k, v)| k.starts_with("row.") && **v > 0).count() as u64;
    c.insert("rows_seen".into(), rows);
}

#[derive(Default)]
pub struct Local {
    ok: u64,
    types: BTreeMap<&'static str, u64>,
    cfgs: BTreeMap<usize, u64>,
    sweep: u64,
    markup: u64,
    rows: BTreeMap<&'static str, u64>,
}

pub fn has_markup_chars(s: &str) -> bool {
    s.contains("&lt;") || s.contains("&amp;") || s.contains("&gt;") || s.contains("&quot;") || s.contains("&apos;") || s.contains("&#")
}

/// Returns Ok(xml) or Err(detail)
pub fn roundtrip(ops: &TypeOps, v: &dyn Val, cfg: &SerCfg) -> Result<String, String> {
    let xml = v.ser(cfg).map_err(|e| format!("serialization of {} failed: {} (value {})", ops.name, e, v.dbg()))?;
    match (ops.de_str)(&xml, None) {
        Ok(back) => {
            if back.eq_val(v) {
                Ok(xml)
            } else {
                Err(format!("{}: deserialized {} but serialized {} (document {:?})", ops.name, back.dbg(), v.dbg(), xml))
            }
        }
        Err(e) => Err(format!("{}: the serializer's output does not deserialize: {}: {} (document {:?}, value {})", ops.name, e.kind, e.msg, xml, v.dbg())),
    }
}

fn cfg_index(cfgs: &[SerCfg], c: &SerCfg) -> usize {
    cfgs.iter().position(|x| x == c).unwrap_or(0)
}

fn run_value(ctx: &mut Ctx, loc: &mut Local, ops: &TypeOps, vseed: u64, cfgs: &[SerCfg], which: &[usize]) -> bool {
    let gen = ops.gen.unwrap();
    let v = gen(&mut Rng::new(vseed));
    for &ci in which {
        let cfg = &cfgs[ci];
        // a top-level enum names its root after the variant: a root override does not apply
        let case = json!({"type": ops.name, "value_seed": vseed, "cfg": cfg.to_json(), "value": v.dbg()});
        ctx.journal(|| case.clone());
        let r = guarded(|| roundtrip(ops, v.as_ref(), cfg));
        let r = match r {
            Ok(r) => r,
            Err(p) => Err(p),
        };
        let h = H::new().str(ops.name).u64(vseed).u64(ci as u64).finish();
        match r {
            Ok(xml) => {
                let m = has_markup_chars(&xml);
                ctx.eval(h, m);
                loc.ok += 1;
                if m {
                    loc.markup += 1;
                }
                *loc.types.entry(ops.name).or_insert(0) += 1;
                *loc.cfgs.entry(ci).or_insert(0) += 1;
                for row in ops.rows {
                    *loc.rows.entry(row).or_insert(0) += 1;
                }
                ctx.sample(|| json!({"type": ops.name, "cfg": cfg.to_json(), "document": xml.chars().take(300).collect::<String>()}));
            }
            Err(d) => {
                ctx.eval(h, true);
                ctx.violation(case, d);
                if ctx.full() {
                    return false;
                }
            }
        }
    }
    true
}

const SWEEP_ALPHA: [&str; 17] = ["<", ">", "&", "'", "\"", "]", "-", "?", " ", "\t", "\n", "\r", "\0", ";", "#", "x", "é"];
pub const SWEEP_POSITIONS: [&str; 8] = ["attribute", "element", "$text", "attribute-list-item", "newtype-variant", "map-value", "mixed-text-item", "$text-list-item"];

/// the value that carries `s` at `position`, or None when `s` is outside that position's domain
pub fn sweep_value(position: usize, s: &str) -> Option<(usize, Box<dyn Val>)> {
    let edge_ws = s.starts_with(is_xml_ws) || s.ends_with(is_xml_ws);
    let any_ws = s.contains(is_xml_ws);
    let fam_index = |name: &str| family().iter().position(|o| o.name == name).unwrap();
    Some(match position {
        0 => (
            fam_index("TextStr"),
            Box::new(TextStr {
                k: s.to_string(),
                t: "t".into(),
            }),
        ),
        1 if !edge_ws => (
            fam_index("Lists"),
            Box::new(Lists {
                t_item: vec![s.to_string(), "z".into()],
                t_num: vec![],
                s_rec: vec![],
                t_tail: s.to_string(),
            }),
        ),
        2 if !edge_ws => (
            fam_index("TextStr"),
            Box::new(TextStr {
                k: "k".into(),
                t: s.to_string(),
            }),
        ),
        3 if !any_ws && !s.is_empty() => (
            fam_index("TextList"),
            Box::new(TextList {
                k: vec![s.to_string(), "z".into(), s.to_string()],
                l: vec![],
            }),
        ),
        4 if !edge_ws => (
            fam_index("HasChoice"),
            Box::new(HasChoice {
                k: 1,
                c: Choice::Newtype(s.to_string()),
            }),
        ),
        5 if !edge_ws => {
            let mut m = BTreeMap::new();
            m.insert("key".to_string(), s.to_string());
            m.insert("other".to_string(), "v".to_string());
            (fam_index("HasMap"), Box::new(HasMap { k: 0, k_m: m }))
        }
        6 if !edge_ws && !s.is_empty() => (
            fam_index("HasMixed"),
            Box::new(HasMixed {
                k: "k".into(),
                items: vec![Mixed::Br, Mixed::Text(s.to_string()), Mixed::Em(s.to_string()), Mixed::Text(s.to_string())],
            }),
        ),
        7 if !any_ws && !s.is_empty() => (
            fam_index("TextList"),
            Box::new(TextList {
                k: vec![],
                l: vec![s.to_string(), "z".into(), s.to_string()],
            }),
        ),
        _ => return None,
    })
}

fn run(ctx: &mut Ctx) {
    let mut loc = Local::default();
    let t = ctx.tier;
    let fam = family();
    let cfgs = SerCfg::all();
    let mut r = ctx.rng(12);
    // sweeps: exhaustive
    let mut strings: Vec<String> = vec![String::new()];
    for a in SWEEP_ALPHA {
        strings.push(a.to_string());
    }
    for a in SWEEP_ALPHA {
        for b in SWEEP_ALPHA {
            strings.push(format!("{}{}", a, b));
        }
    }
    let mut idx = 0u64;
    'sweep: for (pi, pname) in SWEEP_POSITIONS.iter().enumerate() {
        for s in &strings {
            idx += 1;
            if !ctx.owns(idx) {
                continue;
            }
            let (fi, v) = match sweep_value(pi, s) {
                Some(x) => x,
                None => continue,
            };
            for (ci, cfg) in cfgs.iter().enumerate() {
                let case = json!({"sweep_position": pi, "position": pname, "string": s, "cfg": cfg.to_json()});
                ctx.journal(|| case.clone());
                let rr = guarded(|| roundtrip(&fam[fi], v.as_ref(), cfg));
                let rr = match rr {
                    Ok(r) => r,
                    Err(p) => Err(p),
                };
                ctx.eval(H::new().str(s).u64(pi as u64).u64(ci as u64).u64(0x5EE).finish(), s.contains(|c| "<>&'\"".contains(c)));
                loc.sweep += 1;
                match rr {
                    Ok(_) => {
                        loc.ok += 1;
                        *loc.cfgs.entry(ci).or_insert(0) += 1;
                    }
                    Err(d) => {
                        ctx.violation(case, d);
                        if ctx.full() {
                            break 'sweep;
                        }
                    }
                }
            }
        }
    }
    ctx.exhaustive("every string of length <= 2 over 17 markup/whitespace/control symbols in each of 8 string positions (where inside the position's documented domain) under all 36 serializer configurations");
    // generated values
    let per_type = ctx.scaled(t.pick(20_000, 1_500_000)) / ctx.nshards as u64 + 1;
    'outer: for ops in &fam {
        for k in 0..per_type {
            let vseed = r.next();
            // every value under 3 configurations; every 8th under all 36
            let which: Vec<usize> = if k % 8 == 0 { (0..cfgs.len()).collect() } else { (0..3).map(|_| r.below(cfgs.len())).collect() };
            if !run_value(ctx, &mut loc, ops, vseed, &cfgs, &which) {
                break 'outer;
            }
        }
    }
    ctx.add("roundtrips_ok", loc.ok);
    for o in &fam {
        ctx.add(&format!("type.{}", o.name), loc.types.get(o.name).copied().unwrap_or(0));
    }
    for (k, v) in &loc.cfgs {
        ctx.add(&format!("cfg.{:02}", k), *v);
    }
    for (k, v) in &loc.rows {
        ctx.add(&format!("row.{}", k), *v);
    }
    ctx.add("sweep.cases", loc.sweep);
    ctx.add("values_with_markup_chars", loc.markup);
}

fn replay(case: &Value, _ctx: &mut Ctx) -> Option<String> {
    let fam = family();
    let cfg = SerCfg::from_json(&case["cfg"]);
    if let Some(pi) = case["sweep_position"].as_u64() {
        let s = case["string"].as_str().unwrap_or("");
        let (fi, v) = sweep_value(pi as usize, s)?;
        return roundtrip(&fam[fi], v.as_ref(), &cfg).err();
    }
    let name = case["type"].as_str().unwrap_or("");
    let ops = fam.iter().find(|o| o.name == name)?;
    let v = (ops.gen.unwrap())(&mut Rng::new(case["value_seed"].as_u64().unwrap_or(0)));
    roundtrip(ops, v.as_ref(), &cfg).err()
}
