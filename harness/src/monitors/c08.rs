//! C08 — positions account for every byte; reading then writing reproduces the input.
//! Oracle: reconstruct(event) must equal the input bytes between the positions
//! reported before and after the call (literal offsets), spans tile the input,
//! and the Writer's output equals the concatenation of the spans.

use super::common::*;
use crate::ctx::{guarded, show, Ctx};
use crate::obs::*;
use crate::refmodel::tok::is_ws;
use crate::runner::PropSpec;
use crate::sources::{ChunkedRead, ShortSink};
use quick_xml::events::Event;
use quick_xml::reader::Reader;
use quick_xml::writer::Writer;
use serde_json::{json, Value};

pub const SPEC: PropSpec = PropSpec {
    id: "C08",
    level: "exploration",
    rule: "Cases = (input bytes, source kind) under the neutral configuration (no trimming, no expansion, end names neither trimmed nor checked, unmatched ends allowed). Inputs as in C01: all byte strings up to length N over the 13 markup bytes, all sequences of up to k markup atoms, the terminator pool, grammar documents with and without BOM, mutants, truncations at every offset, the repository corpus. For each successful read the bytes between buffer_position() before and after the call must be exactly the event's markup (an independent reconstruct(event) oracle; the first span may additionally start with the byte-order mark), the first position is 0, consecutive spans tile, the position after Eof is the input length, and Writer::write_event over all events, into a sink that accepts 1, 2, 3 or any number of bytes per write call, reproduces the spans (DOCTYPE keyword spelling/spacing normalised). Non-trivial = input contains '<'.",
    assumptions: &[
        "positions are literal offsets into the input (the crate documents spans as indices into the input: read_text / read_to_end / into_inner examples)",
        "checks stop at the first Err returned by the reader",
    ],
    required: &["spans.Start", "spans.End", "spans.Empty", "spans.Text", "spans.CData", "spans.Comment", "spans.Decl", "spans.PI", "spans.DocType", "inputs_with_bom", "doctype_spellings_nonstandard", "written_bytes_compared", "writer_short_write_calls", "buffered_runs"],
    run,
    replay,
    thorough_layers: &[("fuzz", 45)],
    quick_layers: &[],
    post: None,
};

pub struct Local {
    spans: [u64; 10],
    zero_spans: u64,
    bom_inputs: u64,
    doctype_odd: u64,
    written: u64,
    short_writes: u64,
    buffered: u64,
    stopped_at_err: u64,
}

fn bom_len(input: &[u8]) -> usize {
    if input.starts_with(&[0xEF, 0xBB, 0xBF]) {
        3
    } else if input.starts_with(&[0xFE, 0xFF]) || input.starts_with(&[0xFF, 0xFE]) {
        2
    } else {
        0
    }
}

/// `span` must be `<!` + DOCTYPE in any case + XML whitespace* + content + `>`
fn doctype_span_ok(span: &[u8], content: &[u8]) -> bool {
    if span.len() < 10 || !span.starts_with(b"<!") || span.last() != Some(&b'>') {
        return false;
    }
    if !span[2..9].eq_ignore_ascii_case(b"DOCTYPE") {
        return false;
    }
    let mut i = 9;
    while i < span.len() - 1 && is_ws(span[i]) {
        i += 1;
    }
    &span[i..span.len() - 1] == content
}

fn reconstruct(ev: &Event) -> Option<Vec<u8>> {
    let mut v = Vec::new();
    match ev {
        Event::Start(e) => {
            v.push(b'<');
            v.extend_from_slice(e);
            v.push(b'>');
        }
        Event::Empty(e) => {
            v.push(b'<');
            v.extend_from_slice(e);
            v.extend_from_slice(b"/>");
        }
        Event::End(e) => {
            v.extend_from_slice(b"</");
            v.extend_from_slice(e.name().as_ref());
            v.push(b'>');
        }
        Event::Text(e) => v.extend_from_slice(e),
        Event::Comment(e) => {
            v.extend_from_slice(b"<!--");
            v.extend_from_slice(e);
            v.extend_from_slice(b"-->");
        }
        Event::CData(e) => {
            v.extend_from_slice(b"<![CDATA[");
            v.extend_from_slice(e);
            v.extend_from_slice(b"]]>");
        }
        Event::PI(e) => {
            v.extend_from_slice(b"<?");
            v.extend_from_slice(e);
            v.extend_from_slice(b"?>");
        }
        Event::Decl(e) => {
            v.extend_from_slice(b"<?");
            v.extend_from_slice(e);
            v.extend_from_slice(b"?>");
        }
        Event::DocType(_) | Event::Eof => return None,
    }
    Some(v)
}

struct Tiler<'a> {
    input: &'a [u8],
    prev: u64,
    first: bool,
    expected_out: Vec<u8>,
    turn: bool,
    writer: Writer<ShortSink>,
}

impl<'a> Tiler<'a> {
    fn new(input: &'a [u8]) -> Self {
        Tiler {
            input,
            prev: 0,
            first: true,
            expected_out: Vec::new(),
            turn: false,
            // the sink takes 1, 2, 3 or any number of bytes per write call, chosen by the input
            writer: Writer::new(ShortSink::new(match input.iter().fold(input.len(), |a, b| a.wrapping_mul(31).wrapping_add(*b as usize)) % 4 {
                0 => usize::MAX,
                k => k,
            })),
        }
    }
    /// returns Ok(true) to continue, Ok(false) when finished
    fn feed(&mut self, p0: u64, res: &Result<Event, quick_xml::Error>, p1: u64, loc: &mut Local) -> Result<bool, String> {
        let input = self.input;
        if p0 != self.prev {
            return Err(format!(
                "position before the call is {} but the previous call ended at {}",
                p0, self.prev
            ));
        }
        let ev = match res {
            Ok(ev) => ev,
            Err(_) => {
                loc.stopped_at_err += 1;
                // everything written so far must be the input up to the failing call
                return self.finish(loc).map(|_| false);
            }
        };
        if p1 < p0 || p1 as usize > input.len() {
            return Err(format!("position after {} is {} (before {}, input length {})", event_obs(ev).show(), p1, p0, input.len()));
        }
        let mut span = &input[p0 as usize..p1 as usize];
        if self.first {
            self.first = false;
            let b = bom_len(input);
            if b > 0 && span.len() >= b {
                span = &span[b..];
            }
        }
        self.prev = p1;
        match ev {
            Event::Eof => {
                if !span.is_empty() {
                    return Err(format!("Eof returned but the call consumed {:?}", show(span)));
                }
                if p1 as usize != input.len() {
                    return Err(format!("position after Eof is {} but the input length is {}", p1, input.len()));
                }
                self.finish(loc).map(|_| false)
            }
            Event::DocType(e) => {
                if !doctype_span_ok(span, e) {
                    return Err(format!(
                        "DocType({:?}) was read from the bytes {:?} at {}..{}",
                        show(e),
                        show(span),
                        p0,
                        p1
                    ));
                }
                if &span[..10.min(span.len())] != b"<!DOCTYPE " || span.get(10).map_or(false, |b| is_ws(*b)) {
                    loc.doctype_odd += 1;
                }
                loc.spans[Kind::DocType.idx()] += 1;
                self.expected_out.extend_from_slice(b"<!DOCTYPE ");
                self.expected_out.extend_from_slice(e);
                self.expected_out.push(b'>');
                self.writer.write_event(ev.borrow()).map_err(|e| format!("writer error {}", e))?;
                Ok(true)
            }
            _ => {
                let rec = reconstruct(ev).unwrap();
                if rec != span {
                    return Err(format!(
                        "{} was returned for the bytes {:?} at {}..{}, whose markup is {:?}",
                        event_obs(ev).show(),
                        show(span),
                        p0,
                        p1,
                        show(&rec)
                    ));
                }
                let k = event_obs(ev).kind().unwrap();
                loc.spans[k.idx()] += 1;
                if span.is_empty() {
                    loc.zero_spans += 1;
                }
                self.expected_out.extend_from_slice(span);
                // by reference and by value in turn
                self.turn = !self.turn;
                if self.turn {
                    self.writer.write_event(ev.borrow()).map_err(|e| format!("writer error {}", e))?;
                } else {
                    self.writer.write_event(ev.clone().into_owned()).map_err(|e| format!("writer error {}", e))?;
                }
                Ok(true)
            }
        }
    }
    fn finish(&mut self, loc: &mut Local) -> Result<(), String> {
        let sink = self.writer.get_ref();
        loc.short_writes += sink.short;
        let out = &sink.out;
        loc.written += out.len() as u64;
        if out != &self.expected_out {
            return Err(format!(
                "writing the events back gives {:?} but the bytes read were {:?}",
                show(out),
                show(&self.expected_out)
            ));
        }
        Ok(())
    }
}

fn check_slice(input: &[u8], loc: &mut Local) -> Result<(), String> {
    let mut r = Reader::from_reader(input);
    apply_cfg(r.config_mut(), CFG_NEUTRAL);
    let mut t = Tiler::new(input);
    if r.buffer_position() != 0 {
        return Err(format!("initial position is {}", r.buffer_position()));
    }
    for _ in 0..call_bound(input.len()) + 2 {
        let p0 = r.buffer_position();
        let res = r.read_event();
        let p1 = r.buffer_position();
        if !t.feed(p0, &res, p1, loc)? {
            return Ok(());
        }
    }
    Err("no Eof within the call bound".into())
}

fn check_buffered(input: &[u8], cuts: Vec<usize>, loc: &mut Local) -> Result<(), String> {
    let mut r = Reader::from_reader(ChunkedRead::new(input, cuts));
    apply_cfg(r.config_mut(), CFG_NEUTRAL);
    let mut t = Tiler::new(input);
    let mut buf = Vec::new();
    loc.buffered += 1;
    for call in 0..call_bound(input.len()) + 2 {
        let p0 = r.buffer_position();
        // the caller's buffer may be reused without clearing it: every other call here
        if (call + input.len()) % 2 == 0 {
            buf.clear();
        }
        let res = r.read_event_into(&mut buf);
        let owned: Result<Event<'static>, quick_xml::Error> = res.map(|e| e.into_owned());
        let p1 = r.buffer_position();
        if !t.feed(p0, &owned, p1, loc)? {
            return Ok(());
        }
    }
    Err("no Eof within the call bound".into())
}

fn case_json(input: &[u8], cuts: Option<&[usize]>) -> Value {
    json!({"input": input_json(input), "cuts": cuts})
}

fn run_case(ctx: &mut Ctx, loc: &mut Local, input: &[u8], cuts: Option<Vec<usize>>, src: Src) -> bool {
    ctx.journal(|| case_json(input, cuts.as_deref()));
    let mut h = crate::rng::H::new().bytes(input);
    if let Some(c) = &cuts {
        for x in c {
            h = h.u64(*x as u64);
        }
        h = h.u64(0xB0F);
    }
    ctx.eval(h.finish(), input.contains(&b'<'));
    if bom_len(input) > 0 {
        loc.bom_inputs += 1;
    }
    let cj = cuts.clone();
    let r = guarded(|| match cuts {
        None => check_slice(input, loc),
        Some(c) => check_buffered(input, c, loc),
    });
    let r = match r {
        Ok(r) => r,
        Err(p) => Err(p),
    };
    if let Err(d) = r {
        ctx.violation(case_json(input, cj.as_deref()), d);
        return !ctx.full();
    }
    ctx.sample(|| json!({"input": show(input), "source": src.name(), "cuts": cj}));
    true
}

fn run(ctx: &mut Ctx) {
    let mut loc = Local {
        spans: [0; 10],
        zero_spans: 0,
        bom_inputs: 0,
        doctype_odd: 0,
        written: 0,
        short_writes: 0,
        buffered: 0,
        stopped_at_err: 0,
    };
    let t = ctx.tier;
    let plan = Plan {
        bytes_n: t.pick(7, 8),
        tokens_k: t.pick(4, 5),
        pool: true,
        grammar_docs: t.pick(100_000, 1_000_000),
        mutants_per_doc: 3,
        truncate_all: true,
        bom_share: 4,
        corpus: true,
        corpus_truncs: t.pick(16, 64),
        random_atoms: t.pick(500_000, 5_000_000),
        scale_max: 8192,
        ..Plan::default()
    };
    for_each_input(ctx, &plan, &mut |ctx, input, src, r| {
        if !run_case(ctx, &mut loc, input, None, src) {
            return false;
        }
        if src == Src::Scale {
            // long pieces: whole pieces inside one construct
            for piece in crate::gen::SCALE_PIECES {
                if *piece < input.len() && !run_case(ctx, &mut loc, input, Some(crate::sources::cuts_for_piece(input.len(), *piece, 0)), src) {
                    return false;
                }
            }
            let cuts = crate::sources::big_random_cuts(r, input.len(), 0);
            if !run_case(ctx, &mut loc, input, Some(cuts), src) {
                return false;
            }
        }
        // buffered source: piece size 1 for every non-enumerated input and a sample of the enumerated ones
        if !src.exhaustive() || src == Src::Pool || r.chance(1, 16) {
            let first_min = if bom_len(input) > 0 { 4 } else { 0 };
            let cuts = crate::sources::cuts_for_piece(input.len(), 1, first_min);
            if !run_case(ctx, &mut loc, input, Some(cuts), src) {
                return false;
            }
            if input.len() > 4 && r.chance(1, 2) {
                let mut cuts = Vec::new();
                let mut p = first_min.max(1 + r.below(4));
                while p < input.len() {
                    cuts.push(p);
                    p += 1 + r.below(7);
                }
                if !run_case(ctx, &mut loc, input, Some(cuts), src) {
                    return false;
                }
            }
        }
        true
    });
    for k in ALL_KINDS {
        if k != Kind::Eof {
            ctx.add(&format!("spans.{}", k.name()), loc.spans[k.idx()]);
        }
    }
    ctx.add("zero_length_spans", loc.zero_spans);
    ctx.add("inputs_with_bom", loc.bom_inputs);
    ctx.add("doctype_spellings_nonstandard", loc.doctype_odd);
    ctx.add("written_bytes_compared", loc.written);
    ctx.add("writer_short_write_calls", loc.short_writes);
    ctx.add("buffered_runs", loc.buffered);
    ctx.add("runs_stopped_at_first_error", loc.stopped_at_err);
}

fn replay(case: &Value, _ctx: &mut Ctx) -> Option<String> {
    if let Some(h) = case.get("fuzz").and_then(|v| v.as_str()) {
        return fuzz_entry(&crate::ctx::unhex(h)).err();
    }
    let input = input_from_json(&case["input"]);
    let mut loc = Local {
        spans: [0; 10],
        zero_spans: 0,
        bom_inputs: 0,
        doctype_odd: 0,
        written: 0,
        short_writes: 0,
        buffered: 0,
        stopped_at_err: 0,
    };
    match case["cuts"].as_array() {
        None => check_slice(&input, &mut loc).err(),
        Some(a) => {
            let cuts: Vec<usize> = a.iter().map(|x| x.as_u64().unwrap_or(0) as usize).collect();
            check_buffered(&input, cuts, &mut loc).err()
        }
    }
}

/// libFuzzer entry: the whole input is the document (neutral configuration); byte parity picks the source
pub fn fuzz_entry(data: &[u8]) -> Result<(), String> {
    let mut loc = Local { spans: [0; 10], zero_spans: 0, bom_inputs: 0, doctype_odd: 0, written: 0, short_writes: 0, buffered: 0, stopped_at_err: 0 };
    check_slice(data, &mut loc)?;
    if data.len() > 1 && !matches!(data[0], 0xEF | 0xFE | 0xFF | 0) {
        check_buffered(data, crate::sources::cuts_for_piece(data.len(), 1 + (data.len() % 3), 0), &mut loc)?;
    }
    Ok(())
}
