pub mod common;
pub mod c01;
pub mod c02;
pub mod c03;
pub mod c04;
pub mod c05;
pub mod c06;
pub mod c07;
pub mod c08;
pub mod c09;
pub mod c10;
pub mod c11;
pub mod c12;
pub mod c13;
pub mod c14;
pub mod c15;
pub mod c16;
pub mod c17;
pub mod c18;
pub mod c19;
pub mod c19_serde;
pub mod c20;

use crate::runner::PropSpec;

pub fn registry() -> Vec<PropSpec> {
    vec![c01::SPEC, c02::SPEC, c03::SPEC, c04::SPEC, c05::SPEC, c06::SPEC, c07::SPEC, c08::SPEC, c09::SPEC, c10::SPEC, c11::SPEC, c12::SPEC, c13::SPEC, c14::SPEC, c15::SPEC, c16::SPEC, c17::SPEC, c18::SPEC, c19::SPEC, c20::SPEC]
}

/// Seed corpus for the libFuzzer layer: the terminator pool and a few repository documents, each
/// with the prefix bytes the target's `fuzz_entry` expects.
pub fn write_fuzz_seeds(id: &str, dir: &std::path::Path) {
    let prefix: &[u8] = match id {
        "C01" | "C16" => &[1],
        "C03" | "C07" => &[5, 0],
        "C02" => &[1, 0, 0],
        "C11" => &[3],
        _ => &[],
    };
    let mut docs: Vec<Vec<u8>> = crate::gen::TERMINATOR_DOCS.iter().map(|d| d.as_bytes().to_vec()).collect();
    match id {
        "C07" => {
            let mut r = crate::rng::Rng::new(7);
            for o in crate::family::family() {
                for _ in 0..3 {
                    if let Ok(x) = (o.gen.unwrap())(&mut r).ser(&crate::family::SerCfg::plain()) {
                        docs.push(x.into_bytes());
                    }
                }
            }
        }
        "C11" => {
            docs = ["a='1' b=\"2\"", " a = '1'  a = \"x\" c", "a=1 b c='", "k='v' k=\"w x\" z='3'"].iter().map(|d| d.as_bytes().to_vec()).collect();
        }
        "C10" => {
            docs = ["&lt;&amp;&#65;&#x41;", "a & b", "&#xD800;&#0;&bogus;", "<>&'\""].iter().map(|d| d.as_bytes().to_vec()).collect();
        }
        _ => {
            for (_, data) in crate::gen::load_corpus(2048) {
                docs.push(data);
            }
        }
    }
    for (i, d) in docs.iter().enumerate() {
        let mut v = prefix.to_vec();
        if id == "C07" {
            v[0] = (i % 48) as u8;
        }
        v.extend_from_slice(d);
        let _ = std::fs::write(dir.join(format!("seed-{:04}", i)), v);
    }
}
