pub mod common;
pub mod c01;
pub mod c02;
pub mod c03;
pub mod c04;
pub mod c05;
pub mod c06;
pub mod c07;
pub mod c08;
pub mod c09;
pub mod c10;
pub mod c11;
pub mod c12;
pub mod c13;
pub mod c14;
pub mod c15;
pub mod c16;
pub mod c17;
pub mod c18;
pub mod c19;
pub mod c19_serde;
pub mod c20;

use crate::runner::PropSpec;

pub fn registry() -> Vec<PropSpec> {
    vec![c01::SPEC, c02::SPEC, c03::SPEC, c04::SPEC, c05::SPEC, c06::SPEC, c07::SPEC, c08::SPEC, c09::SPEC, c10::SPEC, c11::SPEC, c12::SPEC, c13::SPEC, c14::SPEC, c15::SPEC, c16::SPEC, c17::SPEC, c18::SPEC, c19::SPEC, c20::SPEC]
}
