pub mod common;
pub mod c01;
pub mod c08;
pub mod c16;

use crate::runner::PropSpec;

pub fn registry() -> Vec<PropSpec> {
    vec![c01::SPEC, c08::SPEC, c16::SPEC]
}
