//! C15 — deserialized values do not depend on lexical presentation.
//! Metamorphic monitor: information-preserving rewrites of the serializer's output must
//! deserialize to the same value.

use crate::ctx::{guarded, Ctx};
use crate::family::*;
use crate::obs::*;
use crate::refmodel::attr::{parse as parse_attrs, AItem, AttrStats};
use crate::refmodel::tok::{is_ws, tokenize};
use crate::rng::{Rng, H};
use crate::runner::PropSpec;
use serde_json::{json, Value};
use std::collections::BTreeMap;

pub const SPEC: PropSpec = PropSpec {
    id: "C15",
    level: "exploration",
    rule: "Cases = (document = serialization of a generated family value, list of rewrites with sites). Rewrites, applied on R_tok's token stream of the document: comment or PI inserted at a token boundary or inside a text (never inside an entity reference); whitespace inserted between children of element-only content (elements named s_* / k_*, and o_* elements that have no character data in this document); a text replaced by a CDATA section (whole, or split at a point not adjacent to whitespace) or one non-whitespace character replaced by a decimal / hexadecimal character reference; <x/> <-> <x></x>; attribute order permuted, quote kind swapped (re-escaping that quote), spaces added around '=' and between attributes, whitespace added before the '>' / '/>' of any tag; XML declaration, prolog comment, trailing comment/whitespace added; unknown attribute added to struct elements; unknown child element with attributes and nested content added at the start or end of struct elements that have no $value field and are not maps, also in its pretty-printed form (on lines of its own). For documents of at most 12 tokens every rewrite is applied at EVERY applicable site and random pairs are composed; for larger ones 1-6 random rewrites are composed. Oracle: from_str(original) == Ok(value) and from_str(rewritten) == Ok(value). Non-trivial = the rewrite changed the document inside the root element.",
    assumptions: &["the element naming convention of the family (s_/k_/x_/t_/m_/u_/o_) tells the rewriter which content model an element has (o_ = named children and an optional $text: element-only content exactly where the document has no character data there)", "xs:list texts: the separator space is never replaced by a reference (an escaped space is documented to be part of an item)", "R_tok / R_attr are used as tools to find rewrite sites"],
    required: &["rewrite.comment_at_boundary", "rewrite.comment_in_text", "rewrite.pi", "rewrite.whitespace", "rewrite.cdata_whole", "rewrite.cdata_split", "rewrite.charref_dec", "rewrite.charref_hex", "rewrite.empty_to_pair", "rewrite.pair_to_empty", "rewrite.attr_permute", "rewrite.attr_quote_swap", "rewrite.attr_spacing", "rewrite.prolog", "rewrite.trailing", "rewrite.unknown_attr", "rewrite.unknown_child_start", "rewrite.unknown_child_end", "rewrite.unknown_child_spaced", "rewrite.tag_spacing", "exhaustive_site_docs", "types_seen_all"],
    run,
    replay,
    thorough_layers: &[("novl", 50)],
    quick_layers: &[("novl", 50)],
    post: Some(post),
};

fn post(c: &mut BTreeMap<String, u64>) {
    let total = family().len() as u64;
    let seen = c.iter().filter(|(k, v)| k.starts_with("type.") && **v > 0).count() as u64;
    c.insert("types_seen_all".into(), (seen >= total) as u64);
}

#[derive(Clone, Debug, PartialEq)]
pub struct Tok {
    pub kind: Kind,
    pub bytes: String,
    pub name: String,
}

pub fn tokens(xml: &str) -> Option<Vec<Tok>> {
    let mut out = Vec::new();
    for s in tokenize(xml.as_bytes(), CFG_NEUTRAL) {
        match &s.obs {
            Obs::Ev(Kind::Eof, _, _) => break,
            Obs::Ev(k, _, n) => out.push(Tok {
                kind: *k,
                bytes: xml[s.before as usize..s.after as usize].to_string(),
                name: String::from_utf8_lossy(n).into_owned(),
            }),
            Obs::Err(_) => return None,
            Obs::Raw(_) => {}
        }
    }
    Some(out)
}

pub const REWRITES: [&str; 20] = [
    "comment_at_boundary", "comment_in_text", "pi", "whitespace", "cdata_whole", "cdata_split", "charref_dec", "charref_hex", "empty_to_pair", "pair_to_empty", "attr_permute",
    "attr_quote_swap", "attr_spacing", "prolog", "trailing", "unknown_attr", "unknown_child_start", "unknown_child_end", "tag_spacing", "unknown_child_spaced",
];

/// structs with a `$value` field (an unknown child would be taken for a variant)
const NO_UNKNOWN_CHILD: [&str; 6] = ["s_choice", "s_choices", "s_ovlvalue", "s_valueplus", "s_tree", "s_group"];

/// parent element name at each boundary 0..=len (boundary i is before token i)
fn parents(t: &[Tok]) -> Vec<Option<String>> {
    let mut stack: Vec<String> = Vec::new();
    let mut out = Vec::with_capacity(t.len() + 1);
    for tok in t {
        if tok.kind == Kind::End {
            // boundary before an End token is still inside the element
            out.push(stack.last().cloned());
            stack.pop();
            continue;
        }
        out.push(stack.last().cloned());
        if tok.kind == Kind::Start {
            stack.push(tok.name.clone());
        }
    }
    out.push(stack.last().cloned());
    out
}

/// index of the parent's Start token at each boundary 0..=len
fn parent_idx(t: &[Tok]) -> Vec<Option<usize>> {
    let mut stack: Vec<usize> = Vec::new();
    let mut out = Vec::with_capacity(t.len() + 1);
    for (i, tok) in t.iter().enumerate() {
        out.push(stack.last().copied());
        if tok.kind == Kind::End {
            stack.pop();
        } else if tok.kind == Kind::Start {
            stack.push(i);
        }
    }
    out.push(stack.last().copied());
    out
}

/// does the element opened by token `s` have character data of its own (a direct Text / CDATA child)?
fn has_direct_text(t: &[Tok], s: usize) -> bool {
    let mut depth = 0i32;
    for tok in &t[s + 1..] {
        match tok.kind {
            Kind::Start => depth += 1,
            Kind::End => {
                if depth == 0 {
                    return false;
                }
                depth -= 1;
            }
            Kind::Text | Kind::CData if depth == 0 => return true,
            _ => {}
        }
    }
    false
}

/// Elements named `o_*` are structs with named children and an *optional* `$text`: where such an
/// element has no character data in this document its content is element-only, and it is treated
/// like an `s_*` element; where it has text, like an `x_*` element.
fn element_only(t: &[Tok], start: Option<usize>) -> bool {
    match start {
        Some(s) => {
            let n = &t[s].name;
            n.starts_with("s_") || n.starts_with("k_") || (n.starts_with("o_") && !has_direct_text(t, s))
        }
        None => false,
    }
}

/// positions inside a raw text at which it may be split: char boundaries, not inside `&...;`
fn split_points(raw: &str, avoid_ws: bool) -> Vec<usize> {
    let b = raw.as_bytes();
    let mut v = Vec::new();
    let mut in_ref = false;
    for i in 1..b.len() {
        if b[i - 1] == b'&' {
            in_ref = true;
        }
        if in_ref {
            if b[i - 1] == b';' {
                in_ref = false;
            } else {
                continue;
            }
        }
        if b[i] == b'&' && false {
            continue;
        }
        if !raw.is_char_boundary(i) {
            continue;
        }
        if avoid_ws && (is_ws(b[i - 1]) || is_ws(b[i])) {
            continue;
        }
        v.push(i);
    }
    v
}

/// Applies rewrite `kind` at its `site`-th applicable site. Returns None if there is no such site.
/// `count_only` = just count sites.
pub fn sites(t: &[Tok], kind: &str) -> usize {
    let mut n = 0;
    let _ = apply(t, kind, usize::MAX, &mut n, 0);
    n
}

pub fn apply(t: &[Tok], kind: &str, site: usize, counter: &mut usize, variant: u64) -> Option<Vec<Tok>> {
    let par = parents(t);
    let mk = |k: Kind, s: &str| Tok {
        kind: k,
        bytes: s.to_string(),
        name: String::new(),
    };
    let mut hit = |counter: &mut usize| -> bool {
        let h = *counter == site;
        *counter += 1;
        h
    };
    let root_start = t.iter().position(|x| matches!(x.kind, Kind::Start | Kind::Empty))?;
    let root_end = t.iter().rposition(|x| matches!(x.kind, Kind::End | Kind::Empty))?;
    match kind {
        "comment_at_boundary" | "pi" => {
            let ins = if kind == "pi" {
                mk(Kind::PI, ["<?zz?>", "<?zz a='>'?>", "<?zz ?? ?>"][(variant % 3) as usize])
            } else {
                mk(Kind::Comment, ["<!--c-->", "<!-- </t_s> -->", "<!---->", "<!-- - > -->"][(variant % 4) as usize])
            };
            for i in root_start + 1..=root_end {
                if hit(counter) {
                    let mut v = t.to_vec();
                    v.insert(i, ins);
                    return Some(v);
                }
            }
        }
        "comment_in_text" => {
            for (i, tok) in t.iter().enumerate() {
                if tok.kind != Kind::Text || i < root_start || i > root_end {
                    continue;
                }
                for p in split_points(&tok.bytes, false) {
                    if hit(counter) {
                        let mut v = t.to_vec();
                        let (a, b) = tok.bytes.split_at(p);
                        v[i] = mk(Kind::Text, a);
                        v.insert(i + 1, mk(Kind::Comment, if variant % 2 == 0 { "<!--c-->" } else { "<?zz?>" }));
                        v.insert(i + 2, mk(Kind::Text, b));
                        return Some(v);
                    }
                }
            }
        }
        "whitespace" => {
            let pidx = parent_idx(t);
            for i in root_start + 1..=root_end {
                if !element_only(t, pidx[i]) {
                    continue;
                }
                // only between markup tokens (element-only content has no text of its own)
                if hit(counter) {
                    let mut v = t.to_vec();
                    v.insert(i, mk(Kind::Text, [" ", "\n", "\n\t  ", "\r\n "][(variant % 4) as usize]));
                    return Some(v);
                }
            }
        }
        "cdata_whole" | "cdata_split" | "charref_dec" | "charref_hex" => {
            for (i, tok) in t.iter().enumerate() {
                if tok.kind != Kind::Text || i < root_start || i > root_end {
                    continue;
                }
                if tok.bytes.bytes().all(is_ws) {
                    continue;
                }
                // must be the only text of its element for the whole/split variants (no neighbour CDATA games needed)
                match kind {
                    "cdata_whole" => {
                        let un = match quick_xml::escape::unescape(&tok.bytes) {
                            Ok(u) => u.into_owned(),
                            Err(_) => continue,
                        };
                        if un.contains("]]>") {
                            continue;
                        }
                        if hit(counter) {
                            let mut v = t.to_vec();
                            v[i] = mk(Kind::CData, &format!("<![CDATA[{}]]>", un));
                            return Some(v);
                        }
                    }
                    "cdata_split" => {
                        for p in split_points(&tok.bytes, true) {
                            let (a, b) = tok.bytes.split_at(p);
                            let (ua, ub) = match (quick_xml::escape::unescape(a), quick_xml::escape::unescape(b)) {
                                (Ok(x), Ok(y)) => (x.into_owned(), y.into_owned()),
                                _ => continue,
                            };
                            if hit(counter) {
                                let mut v = t.to_vec();
                                if variant % 2 == 0 && !ub.contains("]]>") {
                                    v[i] = mk(Kind::Text, a);
                                    v.insert(i + 1, mk(Kind::CData, &format!("<![CDATA[{}]]>", ub)));
                                } else if !ua.contains("]]>") {
                                    v[i] = mk(Kind::CData, &format!("<![CDATA[{}]]>", ua));
                                    v.insert(i + 1, mk(Kind::Text, b));
                                } else {
                                    return None;
                                }
                                return Some(v);
                            }
                        }
                    }
                    _ => {
                        // one non-whitespace character outside entity references
                        let raw = &tok.bytes;
                        let mut in_ref = false;
                        for (p, ch) in raw.char_indices() {
                            if ch == '&' {
                                in_ref = true;
                                continue;
                            }
                            if in_ref {
                                if ch == ';' {
                                    in_ref = false;
                                }
                                continue;
                            }
                            if ch.is_whitespace() || ch == '<' || ch == '\0' {
                                continue;
                            }
                            if hit(counter) {
                                let mut s = String::new();
                                s.push_str(&raw[..p]);
                                if kind == "charref_dec" {
                                    s.push_str(&format!("&#{}{};", if variant % 3 == 0 { "00" } else { "" }, ch as u32));
                                } else if variant % 2 == 0 {
                                    s.push_str(&format!("&#x{:X};", ch as u32));
                                } else {
                                    s.push_str(&format!("&#x0{:x};", ch as u32));
                                }
                                s.push_str(&raw[p + ch.len_utf8()..]);
                                let mut v = t.to_vec();
                                v[i] = mk(Kind::Text, &s);
                                return Some(v);
                            }
                        }
                    }
                }
            }
        }
        "empty_to_pair" => {
            for (i, tok) in t.iter().enumerate() {
                if tok.kind == Kind::Empty && hit(counter) {
                    let inner = &tok.bytes[1..tok.bytes.len() - 2];
                    let mut v = t.to_vec();
                    v[i] = Tok {
                        kind: Kind::Start,
                        bytes: format!("<{}>", inner),
                        name: tok.name.clone(),
                    };
                    v.insert(
                        i + 1,
                        Tok {
                            kind: Kind::End,
                            bytes: format!("</{}{}>", tok.name, if variant % 3 == 0 { " " } else { "" }),
                            name: tok.name.clone(),
                        },
                    );
                    return Some(v);
                }
            }
        }
        "pair_to_empty" => {
            for i in 0..t.len().saturating_sub(1) {
                if t[i].kind == Kind::Start && t[i + 1].kind == Kind::End && hit(counter) {
                    let inner = &t[i].bytes[1..t[i].bytes.len() - 1];
                    let mut v = t.to_vec();
                    v[i] = Tok {
                        kind: Kind::Empty,
                        bytes: format!("<{}{}/>", inner, if variant % 2 == 0 { "" } else { " " }),
                        name: t[i].name.clone(),
                    };
                    v.remove(i + 1);
                    return Some(v);
                }
            }
        }
        "attr_permute" | "attr_quote_swap" | "attr_spacing" => {
            for (i, tok) in t.iter().enumerate() {
                if !matches!(tok.kind, Kind::Start | Kind::Empty) {
                    continue;
                }
                let close = if tok.kind == Kind::Empty { 2 } else { 1 };
                let content = &tok.bytes.as_bytes()[1..tok.bytes.len() - close];
                let mut st = AttrStats::default();
                let items = parse_attrs(content, tok.name.len(), false, false, &mut st);
                let mut attrs: Vec<(String, String, u8)> = Vec::new();
                let mut ok = true;
                for it in &items {
                    match it {
                        AItem::Ok { key, value: Some(v) } => attrs.push((
                            String::from_utf8_lossy(&content[key.0..key.1]).into_owned(),
                            String::from_utf8_lossy(&content[v.0..v.1]).into_owned(),
                            content[v.0 - 1],
                        )),
                        _ => ok = false,
                    }
                }
                if !ok || attrs.is_empty() || (kind == "attr_permute" && attrs.len() < 2) {
                    continue;
                }
                if hit(counter) {
                    match kind {
                        "attr_permute" => {
                            let k = 1 + (variant as usize % (attrs.len() - 1));
                            attrs.rotate_left(k);
                            if variant % 2 == 1 {
                                attrs.reverse();
                            }
                        }
                        "attr_quote_swap" => {
                            for (j, a) in attrs.iter_mut().enumerate() {
                                if (variant >> j) & 1 == 0 {
                                    if a.2 == b'"' {
                                        a.1 = a.1.replace('\'', "&apos;");
                                        a.2 = b'\'';
                                    } else {
                                        a.1 = a.1.replace('"', "&quot;");
                                        a.2 = b'"';
                                    }
                                }
                            }
                        }
                        _ => {}
                    }
                    let mut s = format!("<{}", tok.name);
                    for (j, (k, v, q)) in attrs.iter().enumerate() {
                        let (sp0, sp1, sp2) = if kind == "attr_spacing" {
                            ([" ", "  ", "\n", "\t "][(variant as usize + j) % 4], ["", " ", "  "][(variant as usize / 2 + j) % 3], ["", " ", "\n"][(variant as usize / 3 + j) % 3])
                        } else {
                            (" ", "", "")
                        };
                        s.push_str(sp0);
                        s.push_str(k);
                        s.push_str(sp1);
                        s.push('=');
                        s.push_str(sp2);
                        s.push(*q as char);
                        s.push_str(v);
                        s.push(*q as char);
                    }
                    if kind == "attr_spacing" && variant % 2 == 0 {
                        s.push(' ');
                    }
                    s.push_str(if tok.kind == Kind::Empty { "/>" } else { ">" });
                    let mut v = t.to_vec();
                    v[i].bytes = s;
                    return Some(v);
                }
            }
        }
        "prolog" => {
            if hit(counter) {
                let mut v = t.to_vec();
                let ins: Vec<Tok> = match variant % 4 {
                    0 => vec![mk(Kind::Decl, "<?xml version=\"1.0\"?>")],
                    1 => vec![mk(Kind::Decl, "<?xml version=\"1.0\" encoding=\"UTF-8\"?>"), mk(Kind::Text, "\n")],
                    2 => vec![mk(Kind::Comment, "<!-- prolog -->"), mk(Kind::Text, "\n")],
                    _ => vec![mk(Kind::Decl, "<?xml version='1.1' standalone='yes'?>"), mk(Kind::Comment, "<!--c-->"), mk(Kind::PI, "<?zz?>")],
                };
                // a declaration must be the very first thing
                let at = if v.first().map_or(false, |x| x.kind == Kind::Decl) { 1 } else { 0 };
                let ins: Vec<Tok> = if at == 1 { ins.into_iter().filter(|x| x.kind != Kind::Decl).collect() } else { ins };
                for (k, x) in ins.into_iter().enumerate() {
                    v.insert(at + k, x);
                }
                return Some(v);
            }
        }
        "trailing" => {
            if hit(counter) {
                let mut v = t.to_vec();
                match variant % 3 {
                    0 => v.push(mk(Kind::Comment, "<!-- end -->")),
                    1 => v.push(mk(Kind::Text, "\n")),
                    _ => {
                        v.push(mk(Kind::Text, "\n"));
                        v.push(mk(Kind::PI, "<?zz?>"));
                        v.push(mk(Kind::Comment, "<!---->"));
                    }
                }
                return Some(v);
            }
        }
        "tag_spacing" => {
            // whitespace before the closing `>` / `/>` of any tag
            for (i, tok) in t.iter().enumerate() {
                if !matches!(tok.kind, Kind::Start | Kind::Empty | Kind::End) {
                    continue;
                }
                if hit(counter) {
                    let close = if tok.kind == Kind::Empty { 2 } else { 1 };
                    let ws = [" ", "\n", "\t ", "  "][(variant % 4) as usize];
                    let mut v = t.to_vec();
                    v[i].bytes = format!("{}{}{}", &tok.bytes[..tok.bytes.len() - close], ws, &tok.bytes[tok.bytes.len() - close..]);
                    return Some(v);
                }
            }
        }
        "unknown_attr" => {
            for (i, tok) in t.iter().enumerate() {
                if matches!(tok.kind, Kind::Start | Kind::Empty) && (tok.name.starts_with("s_") || tok.name.starts_with("x_") || tok.name.starts_with("o_")) && hit(counter) {
                    let close = if tok.kind == Kind::Empty { 2 } else { 1 };
                    let mut s = tok.bytes[..tok.bytes.len() - close].to_string();
                    // a fresh name each time: a second unknown attribute of the same name would make the tag ill-formed
                    let n = tok.bytes.matches("zz").count();
                    s.push_str(&[" zz_uN=\"v&amp;&lt;\"", " zz:uN='x'", " zz_uN=\"\""][(variant % 3) as usize].replace('N', &n.to_string()));
                    s.push_str(&tok.bytes[tok.bytes.len() - close..]);
                    let mut v = t.to_vec();
                    v[i].bytes = s;
                    return Some(v);
                }
            }
        }
        "unknown_child_start" | "unknown_child_end" | "unknown_child_spaced" => {
            let unk = [
                "<zz_unknown a=\"1\"><zz_c>t</zz_c><zz_d/></zz_unknown>",
                "<zz_unknown/>",
                "<zz_unknown><zz_unknown>deep &amp; <![CDATA[x]]></zz_unknown></zz_unknown>",
                "<zz_unknown><t_s>not mine</t_s><t_item>x</t_item></zz_unknown>",
                "<zz_unknown><zz_unknown kind=\"a\"/>tail</zz_unknown>",
                "<zz_unknown><zz_other/><zz_unknown kind=\"a\">x</zz_unknown>tail</zz_unknown>",
                "<zz_unknown ><zz_unknown\n>x</zz_unknown ><zz_unknown/></zz_unknown >",
                "<zz_unknown xmlns:zz=\"u\"><zz:c zz:a=\"1\"/><zz_unknown a=\"1\"><zz_unknown/></zz_unknown></zz_unknown>",
                "<zz_unknown>text first</zz_unknown>",
                "<zz_unknown>t<zz_c/> </zz_unknown>",
            ][(variant % 10) as usize];
            // matching Start/End pairs of struct elements
            let mut stack: Vec<usize> = Vec::new();
            for (i, tok) in t.iter().enumerate() {
                match tok.kind {
                    Kind::Start => stack.push(i),
                    Kind::End => {
                        if let Some(s) = stack.pop() {
                            let n = &t[s].name;
                            if (n.starts_with("s_") || (n.starts_with("o_") && !has_direct_text(t, s))) && !NO_UNKNOWN_CHILD.contains(&n.as_str()) && hit(counter) {
                                let mut v = t.to_vec();
                                if kind == "unknown_child_spaced" {
                                    // the pretty-printed form: the unknown child on lines of its own, at the start
                                    // or at the end (two rewrites of the property's list in one step)
                                    let at = if variant % 2 == 0 { s + 1 } else { i };
                                    let ws = ["\n  ", " ", "\n\t", "\r\n    "][((variant / 2) % 4) as usize];
                                    v.insert(at, mk(Kind::Text, ws));
                                    v.insert(at + 1, mk(Kind::PI, unk));
                                    v.insert(at + 2, mk(Kind::Text, ws));
                                    // whitespace next to character data would change it
                                    let before_is_text = at > 0 && matches!(v[at - 1].kind, Kind::Text | Kind::CData);
                                    let after_is_text = v.get(at + 3).map_or(false, |x| matches!(x.kind, Kind::Text | Kind::CData));
                                    if before_is_text || after_is_text {
                                        continue;
                                    }
                                    return Some(v);
                                }
                                let at = if kind == "unknown_child_start" { s + 1 } else { i };
                                v.insert(at, mk(Kind::PI, unk)); // inert blob for later rewrites
                                return Some(v);
                            }
                        }
                    }
                    _ => {}
                }
            }
        }
        _ => {}
    }
    None
}

pub fn render(t: &[Tok]) -> String {
    t.iter().map(|x| x.bytes.as_str()).collect()
}

#[derive(Default)]
struct Local {
    applied: BTreeMap<&'static str, u64>,
    exhaustive_docs: u64,
    types: BTreeMap<&'static str, u64>,
    compositions: u64,
    nil_seed: Option<u64>,
    ent_seed: Option<u64>,
    ent_bases: u64,
    ent_judged: u64,
    nil_bases: u64,
    nil_bases_rejected: u64,
}

/// one step = (rewrite kind index, site, variant)
pub type Steps = Vec<(usize, usize, u64)>;

pub fn rewrite_doc(xml: &str, steps: &Steps) -> Option<String> {
    let mut t = tokens(xml)?;
    for (k, site, variant) in steps {
        let mut c = 0;
        t = apply(&t, REWRITES[*k % REWRITES.len()], *site, &mut c, *variant)?;
    }
    Some(render(&t))
}

/// Optional child elements per type (name, what a hand-written document may put there instead of leaving
/// the element out): the element with `xsi:nil="true"`, whose content has to be ignored.
const NIL_FIELDS: &[(&str, &[(&str, &[&str])])] = &[
    ("Opt", &[("t_a", &["", "ignored", "<zz/>ignored"]), ("t_b", &["", "7", "<t_b>1</t_b>"]), ("s_c", &["", "<t_x>q</t_x>", "<s_c><zz/></s_c>tail"])]),
    ("OptTextEl", &[("t_a", &["", "ignored"])]),
    ("NamePrefix", &[("t_nxyz", &["", "ignored", "<t_n>x</t_n>"])]),
];

/// A hand-written presentation of the serializer's output: every optional child element that is absent
/// may instead be present with `xsi:nil="true"` (prefix declared on the root). The caller accepts it as a
/// base document only if it still deserializes to the original value.
pub fn nil_base(type_name: &str, xml: &str, seed: u64) -> Option<String> {
    let fields = NIL_FIELDS.iter().find(|(t, _)| *t == type_name)?.1;
    let toks = tokenize(xml.as_bytes(), CFG_NEUTRAL);
    let first = toks.first()?;
    if !matches!(first.obs, Obs::Ev(Kind::Start, _, _)) {
        return None;
    }
    let mut r = Rng::new(seed);
    // boundaries between the children of the root, and the names present
    let mut points: Vec<usize> = vec![first.after as usize];
    let mut present: Vec<Vec<u8>> = Vec::new();
    let mut depth = 0;
    for t in &toks {
        match &t.obs {
            Obs::Ev(Kind::Start, _, n) => {
                if depth == 1 {
                    present.push(n.clone());
                }
                depth += 1;
            }
            Obs::Ev(Kind::Empty, _, n) => {
                if depth == 1 {
                    present.push(n.clone());
                    points.push(t.after as usize);
                }
            }
            Obs::Ev(Kind::End, _, _) => {
                depth -= 1;
                if depth == 1 {
                    points.push(t.after as usize);
                }
            }
            _ => {}
        }
    }
    let mut inserts: Vec<(usize, String)> = Vec::new();
    for (name, contents) in fields {
        if present.iter().any(|p| p == name.as_bytes()) || r.below(4) == 0 {
            continue;
        }
        let c = contents[r.below(contents.len())];
        let el = if c.is_empty() && r.bool() { format!("<{} xsi:nil=\"true\"/>", name) } else { format!("<{} xsi:nil=\"true\">{}</{}>", name, c, name) };
        inserts.push((points[r.below(points.len())], el));
    }
    if inserts.is_empty() {
        return None;
    }
    inserts.sort_by(|a, b| b.0.cmp(&a.0));
    let mut out = xml.to_string();
    for (at, el) in inserts {
        out.insert_str(at, &el);
    }
    // the declaration goes into the root's start tag
    let gt = first.after as usize - 1;
    out.insert_str(gt, " xmlns:xsi=\"http://www.w3.org/2001/XMLSchema-instance\"");
    Some(out)
}

/// A base document in which a piece of one text is written as a reference to an entity that the document's own
/// DOCTYPE declares (read through a deserializer with an entity resolver that captures DOCTYPE declarations).
pub fn entity_base(xml: &str, seed: u64) -> Option<String> {
    let toks = tokenize(xml.as_bytes(), CFG_NEUTRAL);
    let mut r = Rng::new(seed);
    // text tokens inside elements whose bytes can stand in an entity literal
    let cands: Vec<(usize, usize)> = toks
        .iter()
        .filter_map(|t| match &t.obs {
            Obs::Ev(Kind::Text, raw, _) if raw.len() >= 2 && !raw.iter().any(|b| matches!(b, b'&' | b'"' | b'%' | b'<' | b'\'' | b'>')) && !raw.iter().all(|b| is_ws(*b)) => Some((t.before as usize, t.after as usize)),
            _ => None,
        })
        .collect();
    if cands.is_empty() || xml.contains("<!DOCTYPE") {
        return None;
    }
    let (a, b) = cands[r.below(cands.len())];
    let text = &xml[a..b];
    // an inner piece on character boundaries, never whitespace at its own edges or at the text's edges
    let idx: Vec<usize> = text.char_indices().map(|(i, _)| i).chain(std::iter::once(text.len())).collect();
    let i = r.below(idx.len() - 1);
    let j = i + 1 + r.below(idx.len() - 1 - i);
    let piece = &text[idx[i]..idx[j]];
    if piece.is_empty() || piece.starts_with(|c: char| c.is_whitespace()) || piece.ends_with(|c: char| c.is_whitespace()) {
        return None;
    }
    let root_at = toks.iter().find(|t| matches!(t.obs, Obs::Ev(Kind::Start | Kind::Empty, _, _)))?.before as usize;
    let mut out = String::new();
    out.push_str(&xml[..root_at]);
    out.push_str(&format!("<!DOCTYPE d [<!ENTITY unused \"u\"><!ENTITY ent \"{}\">]>", piece));
    out.push_str(&xml[root_at..a]);
    out.push_str(&text[..idx[i]]);
    out.push_str("&ent;");
    out.push_str(&text[idx[j]..]);
    out.push_str(&xml[b..]);
    Some(out)
}

/// the same relation through `Deserializer::from_str_with_resolver` / `with_resolver`
pub fn check_resolver(ops: &TypeOps, v: &dyn Val, xml: &str, steps: &Steps) -> Result<bool, String> {
    let re = match rewrite_doc(xml, steps) {
        Some(r) => r,
        None => return Ok(false),
    };
    for reader in [false, true] {
        let entry = if reader { "Deserializer::with_resolver" } else { "Deserializer::from_str_with_resolver" };
        match (ops.de_resolver)(xml, reader) {
            Ok(x) if x.eq_val(v) => {}
            // not a presentation of the value (e.g. the entity sits where the type takes no text): not judged
            _ => return Ok(false),
        }
        let names: Vec<&str> = steps.iter().map(|s| REWRITES[s.0 % REWRITES.len()]).collect();
        match (ops.de_resolver)(&re, reader) {
            Ok(x) if x.eq_val(v) => {}
            Ok(x) => return Err(format!("{}: after rewrites {:?} the document deserializes to {} instead of {} (original {:?}, rewritten {:?})", entry, names, x.dbg(), v.dbg(), xml, re)),
            Err(e) => return Err(format!("{}: after rewrites {:?} the document fails to deserialize: {}: {} (original {:?}, rewritten {:?})", entry, names, e.kind, e.msg, xml, re)),
        }
    }
    Ok(true)
}

pub fn check(ops: &TypeOps, v: &dyn Val, xml: &str, steps: &Steps) -> Result<bool, String> {
    let re = match rewrite_doc(xml, steps) {
        Some(r) => r,
        None => return Ok(false),
    };
    match (ops.de_str)(xml, None) {
        Ok(x) if x.eq_val(v) => {}
        Ok(x) => return Err(format!("the unrewritten document already deserializes to {} instead of {} (document {:?})", x.dbg(), v.dbg(), xml)),
        Err(e) => return Err(format!("the unrewritten document does not deserialize: {} (document {:?})", e.msg, xml)),
    }
    let names: Vec<&str> = steps.iter().map(|s| REWRITES[s.0 % REWRITES.len()]).collect();
    match (ops.de_str)(&re, None) {
        Ok(x) if x.eq_val(v) => Ok(true),
        Ok(x) => Err(format!("after rewrites {:?} the document deserializes to {} instead of {} (original {:?}, rewritten {:?})", names, x.dbg(), v.dbg(), xml, re)),
        Err(e) => Err(format!("after rewrites {:?} the document fails to deserialize: {}: {} (original {:?}, rewritten {:?})", names, e.kind, e.msg, xml, re)),
    }
}

fn run_case(ctx: &mut Ctx, loc: &mut Local, ops: &TypeOps, v: &dyn Val, vseed: u64, cfg: &SerCfg, xml: &str, steps: &Steps) -> bool {
    let case = json!({"type": ops.name, "value_seed": vseed, "cfg": cfg.to_json(), "nil_seed": loc.nil_seed, "entity_seed": loc.ent_seed, "steps": steps, "rewrites": steps.iter().map(|s| REWRITES[s.0 % REWRITES.len()]).collect::<Vec<_>>()});
    ctx.journal(|| case.clone());
    let with_entity = loc.ent_seed.is_some();
    let res = guarded(|| if with_entity { check_resolver(ops, v, xml, steps) } else { check(ops, v, xml, steps) });
    if with_entity && matches!(res, Ok(Ok(true))) {
        loc.ent_judged += 1;
    }
    let res = match res {
        Ok(r) => r,
        Err(p) => Err(p),
    };
    let mut h = H::new().str(ops.name).u64(vseed).u64(cfg.level as u64);
    for s in steps {
        h = h.u64((s.0 as u64) << 40 | (s.1 as u64) << 8 | (s.2 & 0xFF));
    }
    match res {
        Ok(applied) => {
            if applied {
                let inside = steps.iter().any(|s| !matches!(REWRITES[s.0 % REWRITES.len()], "prolog" | "trailing"));
                ctx.eval(h.finish(), inside);
                for s in steps {
                    *loc.applied.entry(REWRITES[s.0 % REWRITES.len()]).or_insert(0) += 1;
                }
                *loc.types.entry(ops.name).or_insert(0) += 1;
                ctx.sample(|| json!({"type": ops.name, "original": xml.chars().take(200).collect::<String>(), "rewritten": rewrite_doc(xml, steps).unwrap_or_default().chars().take(260).collect::<String>(), "rewrites": steps.iter().map(|s| REWRITES[s.0 % REWRITES.len()]).collect::<Vec<_>>()}));
            }
            true
        }
        Err(d) => {
            ctx.eval(h.finish(), true);
            ctx.violation(case, d);
            !ctx.full()
        }
    }
}

fn run(ctx: &mut Ctx) {
    let mut loc = Local::default();
    let t = ctx.tier;
    let fam = family();
    // the root keeps its own name: the rewriter reads the content model of an element off its name
    let cfgs: Vec<SerCfg> = SerCfg::all().into_iter().filter(|c| c.root.is_none()).collect();
    let mut r = ctx.rng(17);
    let n = ctx.scaled(t.pick(50_000, 4_000_000)) / ctx.nshards as u64 + 1;
    'outer: for k in 0..n {
        let ops = &fam[(k as usize) % fam.len()];
        let vseed = r.next();
        let v = (ops.gen.unwrap())(&mut Rng::new(vseed));
        let cfg = &cfgs[r.below(cfgs.len())];
        let xml = match v.ser(cfg) {
            Ok(x) => x,
            Err(_) => continue,
        };
        // now and then the base document is a hand-written presentation: absent optional elements are
        // present with xsi:nil="true" (accepted only if it still gives the value)
        loc.nil_seed = None;
        let xml = if k % 3 == 0 && NIL_FIELDS.iter().any(|(t, _)| *t == ops.name) {
            let ns = r.next();
            match nil_base(ops.name, &xml, ns) {
                Some(b) if matches!(guarded(|| (ops.de_str)(&b, None)), Ok(Ok(x)) if x.eq_val(v.as_ref())) => {
                    loc.nil_seed = Some(ns);
                    loc.nil_bases += 1;
                    b
                }
                Some(_) => {
                    loc.nil_bases_rejected += 1;
                    xml
                }
                None => xml,
            }
        } else {
            xml
        };
        // ... or a piece of a text is a reference to an entity declared in the document's own DOCTYPE
        loc.ent_seed = None;
        let xml = if k % 5 == 1 && loc.nil_seed.is_none() {
            let es = r.next();
            match entity_base(&xml, es) {
                Some(b) => {
                    loc.ent_seed = Some(es);
                    loc.ent_bases += 1;
                    b
                }
                None => xml,
            }
        } else {
            xml
        };
        let toks = match tokens(&xml) {
            Some(t) => t,
            None => continue,
        };
        if toks.len() <= 12 {
            loc.exhaustive_docs += 1;
            for (ki, kind) in REWRITES.iter().enumerate() {
                let ns = sites(&toks, kind);
                for site in 0..ns {
                    if !run_case(ctx, &mut loc, ops, v.as_ref(), vseed, cfg, &xml, &vec![(ki, site, r.next() % 256)]) {
                        break 'outer;
                    }
                }
            }
            // random pairs
            for _ in 0..12 {
                let steps: Steps = (0..2).map(|_| (r.below(REWRITES.len()), r.below(6), r.next() % 256)).collect();
                loc.compositions += 1;
                if !run_case(ctx, &mut loc, ops, v.as_ref(), vseed, cfg, &xml, &steps) {
                    break 'outer;
                }
            }
        } else {
            for _ in 0..10 {
                let len = 1 + r.below(6);
                let steps: Steps = (0..len).map(|_| (r.below(REWRITES.len()), r.below(toks.len()), r.next() % 256)).collect();
                loc.compositions += 1;
                if !run_case(ctx, &mut loc, ops, v.as_ref(), vseed, cfg, &xml, &steps) {
                    break 'outer;
                }
            }
            // one single rewrite of each kind at a random site
            for ki in 0..REWRITES.len() {
                let ns = sites(&toks, REWRITES[ki]);
                if ns > 0 {
                    let site = r.below(ns);
                    if !run_case(ctx, &mut loc, ops, v.as_ref(), vseed, cfg, &xml, &vec![(ki, site, r.next() % 256)]) {
                        break 'outer;
                    }
                }
            }
        }
    }
    ctx.exhaustive("for every generated document of at most 12 tokens: every rewrite kind at every applicable site");
    for k in REWRITES {
        ctx.add(&format!("rewrite.{}", k), loc.applied.get(k).copied().unwrap_or(0));
    }
    ctx.add("exhaustive_site_docs", loc.exhaustive_docs);
    ctx.add("base_documents_with_xsi_nil_elements", loc.nil_bases);
    ctx.add("base_documents_with_a_reference_to_a_doctype_declared_entity", loc.ent_bases);
    ctx.add("rewrites_judged_through_a_deserializer_with_entity_resolver", loc.ent_judged);
    ctx.add("base_documents_with_xsi_nil_elements_rejected_not_the_same_value", loc.nil_bases_rejected);
    ctx.add("compositions", loc.compositions);
    for o in &fam {
        ctx.add(&format!("type.{}", o.name), loc.types.get(o.name).copied().unwrap_or(0));
    }
}

fn replay(case: &Value, _ctx: &mut Ctx) -> Option<String> {
    let fam = family();
    let ops = fam.iter().find(|o| o.name == case["type"].as_str().unwrap_or(""))?;
    let vseed = case["value_seed"].as_u64().unwrap_or(0);
    let v = (ops.gen.unwrap())(&mut Rng::new(vseed));
    let cfg = SerCfg::from_json(&case["cfg"]);
    let mut xml = v.ser(&cfg).ok()?;
    if let Some(ns) = case["nil_seed"].as_u64() {
        xml = nil_base(ops.name, &xml, ns)?;
    }
    if let Some(es) = case["entity_seed"].as_u64() {
        xml = entity_base(&xml, es)?;
        let steps: Steps = case["steps"].as_array()?.iter().map(|s| (s[0].as_u64().unwrap_or(0) as usize, s[1].as_u64().unwrap_or(0) as usize, s[2].as_u64().unwrap_or(0))).collect();
        return check_resolver(ops, v.as_ref(), &xml, &steps).err();
    }
    let steps: Steps = case["steps"].as_array()?.iter().map(|s| (s[0].as_u64().unwrap_or(0) as usize, s[1].as_u64().unwrap_or(0) as usize, s[2].as_u64().unwrap_or(0))).collect();
    check(ops, v.as_ref(), &xml, &steps).err()
}
