//! C03 — reading is total: no panic, always terminates, Eof is final; positions are
//! monotone, bounded by the input length, and error positions never run ahead.

use super::common::*;
use crate::ctx::{guarded, show, Ctx};
use crate::obs::*;
use crate::rng::{Rng, H};
use crate::runner::PropSpec;
use crate::sources::*;
use quick_xml::encoding::Decoder;
use quick_xml::events::attributes::Attributes;
use quick_xml::events::{BytesStart, Event};
use quick_xml::name::QName;
use quick_xml::reader::{NsReader, Reader};
use serde_json::{json, Value};

pub const SPEC: PropSpec = PropSpec {
    id: "C03",
    level: "exploration",
    rule: "Cases = (input bytes over all 256 values, configuration, reader kind Reader/NsReader, source kind slice/buffered/async). Every read call (read_event*, read_resolved_event*, and - in a separate mode - read_to_end / read_text after some Start events) and every payload accessor of every returned event (name, local_name, prefix, decompose, as_namespace_binding, attributes()/html_attributes() with checks on and off iterated past None, try_get_attribute, unescape, decode, CDATA escape variants, BytesDecl fields, BytesPI target/content/attributes, to_end, into_owned, Debug; NsReader resolve_*/prefixes) runs under catch_unwind; the monitor asserts: no panic, at most 2*len+3 calls before Eof, Eof after Eof and after a syntax error, buffer_position non-decreasing and <= len, error_position <= buffer_position when an error is returned, attribute iterators end within len+3 items and stay ended. Exhaustive: all byte strings of length <= 2 over all 256 values, length 3 over a 48-value class set, all strings up to length N over the 13 markup bytes, all sequences of <= k atoms; random: strings of length <= 64 over all bytes with markup boosted, grammar documents, mutants, truncations, corpus. Non-trivial = input contains '<'.",
    assumptions: &[
        "a panic anywhere inside the guarded region is attributed to quick-xml (the harness accessors themselves are panic-free by construction: no indexing, no unwrap on results)",
        "termination is checked as the logical bound on the number of calls, not by wall-clock time",
    ],
    required: &["reader.slice", "reader.buffered", "reader.async", "nsreader.slice", "nsreader.buffered", "nsreader.async", "accessor_calls", "syntax_errors_then_eof", "illformed_errors_continued", "attr_items", "skip_calls", "skip_calls_not_directly_after_start", "stream_reads"],
    run,
    replay,
    thorough_layers: &[("plain", 100), ("asan", 20), ("valgrind", 1), ("miri", 1), ("fuzz", 60)],
    quick_layers: &[],
    post: None,
};

#[derive(Default)]
pub struct Local {
    runs: std::collections::BTreeMap<&'static str, u64>,
    accessor_calls: u64,
    grown_after_eof: u64,
    attr_items: u64,
    attr_errors: u64,
    syntax_then_eof: u64,
    illformed_continued: u64,
    max_calls_ratio_pct: u64,
    events: u64,
    skip_calls: u64,
    skip_calls_not_after_start: u64,
    stream_reads: u64,
}

/// The 48-value class representative set for exhaustive length-3 strings.
pub const CLASS48: [u8; 48] = [
    b'<', b'>', b'/', b'!', b'-', b'[', b']', b'?', b'"', b'\'', b'=', b' ', b'\t', b'\n', b'\r', b'a', b'x', b'm', b'l', b'D', b'd', b'C', b'&',
    b';', b'#', b':', b'0', 0x00, 0x01, 0x7F, 0x80, 0xBF, 0xC2, 0xC3, 0xE0, 0xEF, 0xBB, 0xF0, 0xF4, 0xFE, 0xFF, b'A', b'T', b'O', b'Y', b'P', b'E', b'n',
];

fn iterate_attrs(mut it: Attributes, len: usize, dec: Decoder, loc: &mut Local) -> Result<(), String> {
    let mut n = 0usize;
    loop {
        match it.next() {
            None => break,
            Some(item) => {
                n += 1;
                loc.attr_items += 1;
                match item {
                    Ok(a) => {
                        let _ = a.key.local_name();
                        let _ = a.key.prefix();
                        let _ = a.key.decompose();
                        let _ = a.key.as_namespace_binding();
                        let _ = a.decode_and_unescape_value(dec);
                        let _ = a.as_bool();
                        let _ = format!("{:?}", a);
                        loc.accessor_calls += 7;
                    }
                    Err(e) => {
                        loc.attr_errors += 1;
                        let _ = format!("{:?} {}", e, e);
                    }
                }
                if n > len + 3 {
                    return Err(format!("attribute iterator yielded more than len+3 = {} items", len + 3));
                }
            }
        }
    }
    for _ in 0..2 {
        if it.next().is_some() {
            return Err("attribute iterator yielded Some after None".into());
        }
    }
    Ok(())
}

fn exercise_start(e: &BytesStart, len: usize, dec: Decoder, loc: &mut Local) -> Result<(), String> {
    let n = e.name();
    let _ = n.local_name();
    let _ = n.prefix();
    let _ = n.decompose();
    let _ = n.as_namespace_binding();
    let _ = e.local_name();
    let _ = e.attributes_raw();
    let _ = e.to_end();
    let _ = e.borrow();
    let _ = e.to_owned();
    let _ = format!("{:?}", e);
    loc.accessor_calls += 10;
    iterate_attrs(e.attributes(), len, dec, loc)?;
    iterate_attrs(e.html_attributes(), len, dec, loc)?;
    let mut a = e.attributes();
    a.with_checks(false);
    iterate_attrs(a, len, dec, loc)?;
    let mut a = e.html_attributes();
    a.with_checks(false);
    iterate_attrs(a, len, dec, loc)?;
    let _ = e.try_get_attribute("a");
    let _ = e.try_get_attribute(b"xmlns".as_ref());
    let _ = e.try_get_attribute("");
    loc.accessor_calls += 3;
    Ok(())
}

pub fn exercise_event(ev: &Event, len: usize, dec: Decoder, loc: &mut Local) -> Result<(), String> {
    loc.events += 1;
    match ev {
        Event::Start(e) | Event::Empty(e) => exercise_start(e, len, dec, loc)?,
        Event::End(e) => {
            let n = e.name();
            let _ = n.local_name();
            let _ = n.prefix();
            let _ = n.decompose();
            let _ = e.local_name();
            let _ = e.borrow();
            let _ = format!("{:?}", e);
            loc.accessor_calls += 6;
        }
        Event::Text(e) | Event::Comment(e) | Event::DocType(e) => {
            let _ = e.unescape();
            let _ = dec.decode(e);
            let _ = e.unescape_with(|_| Some("x"));
            let mut c = e.clone();
            let _ = c.inplace_trim_start();
            let _ = c.inplace_trim_end();
            let _ = e.clone().into_inner();
            let _ = format!("{:?}", e);
            loc.accessor_calls += 7;
        }
        Event::CData(e) => {
            let _ = dec.decode(e);
            let _ = e.clone().escape();
            let _ = e.clone().partial_escape();
            let _ = e.clone().minimal_escape();
            let _ = e.clone().into_inner();
            let _ = format!("{:?}", e);
            loc.accessor_calls += 6;
        }
        Event::Decl(e) => {
            let _ = e.version();
            let _ = e.encoding();
            let _ = e.standalone();
            let _ = e.encoder();
            let _ = e.borrow();
            let _ = format!("{:?}", e);
            loc.accessor_calls += 6;
        }
        Event::PI(e) => {
            let _ = e.target();
            let _ = e.content();
            iterate_attrs(e.attributes(), len, dec, loc)?;
            let _ = e.clone().into_inner();
            let _ = format!("{:?}", e);
            loc.accessor_calls += 5;
        }
        Event::Eof => {}
    }
    let o = ev.clone().into_owned();
    if &o != ev {
        return Err("into_owned() changed the event".into());
    }
    let b = ev.borrow();
    let _ = b.as_ref();
    let _ = format!("{:?}", ev);
    loc.accessor_calls += 3;
    Ok(())
}

/// Shared per-call invariants.
struct Inv {
    len: u64,
    calls: usize,
    prev_pos: u64,
    terminal: bool,
    after_terminal_calls: usize,
    eof_at_call: Option<usize>,
}
impl Inv {
    fn new(len: usize) -> Self {
        Inv {
            len: len as u64,
            calls: 0,
            prev_pos: 0,
            terminal: false,
            after_terminal_calls: 0,
            eof_at_call: None,
        }
    }
    /// returns Ok(true) when the run may stop
    fn step(&mut self, obs: &Obs, pos: u64, err_pos: u64, loc: &mut Local) -> Result<bool, String> {
        self.calls += 1;
        if pos < self.prev_pos {
            return Err(format!("call {}: buffer_position went back from {} to {}", self.calls - 1, self.prev_pos, pos));
        }
        if pos > self.len {
            return Err(format!("call {}: buffer_position {} exceeds the input length {}", self.calls - 1, pos, self.len));
        }
        self.prev_pos = pos;
        if let Obs::Err(e) = obs {
            if err_pos > pos {
                return Err(format!(
                    "call {}: {} reports error_position {} > buffer_position {}",
                    self.calls - 1,
                    obs.show(),
                    err_pos,
                    pos
                ));
            }
            if e.is_illformed() {
                loc.illformed_continued += 1;
            }
        }
        if self.terminal {
            self.after_terminal_calls += 1;
            if !obs.is_eof() {
                return Err(format!(
                    "call {}: {} returned after Eof / a syntax error had already been returned",
                    self.calls - 1,
                    obs.show()
                ));
            }
            return Ok(self.after_terminal_calls >= 3);
        }
        match obs {
            Obs::Ev(Kind::Eof, _, _) => {
                self.terminal = true;
                self.eof_at_call = Some(self.calls);
            }
            Obs::Err(e) if e.is_syntax() => {
                self.terminal = true;
                loc.syntax_then_eof += 1;
            }
            _ => {}
        }
        if !self.terminal && self.calls > call_bound(self.len as usize) {
            return Err(format!(
                "no Eof after {} calls on an input of {} bytes (bound 2*len+3)",
                self.calls, self.len
            ));
        }
        Ok(false)
    }
}

/// plain or namespace-aware slice reader behind one interface (for the skip-call mode)
enum Either<'a> {
    R(Reader<&'a [u8]>),
    N(NsReader<&'a [u8]>),
}
impl<'a> Either<'a> {
    fn read_event(&mut self) -> Result<Event<'a>, quick_xml::Error> {
        match self {
            Either::R(r) => r.read_event(),
            Either::N(r) => r.read_event(),
        }
    }
    fn read_to_end(&mut self, q: QName) -> Result<std::ops::Range<u64>, quick_xml::Error> {
        match self {
            Either::R(r) => r.read_to_end(q),
            Either::N(r) => r.read_to_end(q),
        }
    }
    fn read_text(&mut self, q: QName) -> Result<std::borrow::Cow<'a, str>, quick_xml::Error> {
        match self {
            Either::R(r) => r.read_text(q),
            Either::N(r) => r.read_text(q),
        }
    }
    fn config_mut(&mut self) -> &mut quick_xml::reader::Config {
        match self {
            Either::R(r) => r.config_mut(),
            Either::N(r) => r.config_mut(),
        }
    }
    fn config(&self) -> &quick_xml::reader::Config {
        match self {
            Either::R(r) => r.config(),
            Either::N(r) => r.config(),
        }
    }
    fn buffer_position(&self) -> u64 {
        match self {
            Either::R(r) => r.buffer_position(),
            Either::N(r) => r.buffer_position(),
        }
    }
    fn error_position(&self) -> u64 {
        match self {
            Either::R(r) => r.error_position(),
            Either::N(r) => r.error_position(),
        }
    }
}

#[derive(Clone, Copy, Debug, PartialEq, Eq)]
pub enum Mode {
    /// async reader with raw reads through `Reader::stream()` interleaved between events
    ReaderAsyncStream,
    /// like ReaderSlice, but after some Start events read_to_end / read_text is called as well
    ReaderSliceSkips,
    NsSliceSkips,
    ReaderSlice,
    ReaderBuffered,
    /// buffered source that reports end of input, and delivers more bytes once Eof (or a syntax
    /// error) has been returned: the reader must not go back to it
    ReaderBufferedGrowing,
    /// slice / buffered reader with raw reads through the synchronous `Reader::stream()` between events:
    /// `read` into buffers that are larger than what is left, `read_exact` that cannot be satisfied, `read_to_end`
    ReaderSyncStream,
    ReaderAsync,
    NsSlice,
    NsBuffered,
    NsAsync,
}
impl Mode {
    fn name(self) -> &'static str {
        match self {
            Mode::ReaderAsyncStream => "reader.async_with_stream_reads",
            Mode::ReaderSliceSkips => "reader.slice_with_skips",
            Mode::NsSliceSkips => "nsreader.slice_with_skips",
            Mode::ReaderSlice => "reader.slice",
            Mode::ReaderBuffered => "reader.buffered",
            Mode::ReaderBufferedGrowing => "reader.buffered_source_grows_after_eof",
            Mode::ReaderSyncStream => "reader.sync_with_stream_reads",
            Mode::ReaderAsync => "reader.async",
            Mode::NsSlice => "nsreader.slice",
            Mode::NsBuffered => "nsreader.buffered",
            Mode::NsAsync => "nsreader.async",
        }
    }
    fn from(s: &str) -> Mode {
        match s {
            "reader.async_with_stream_reads" => Mode::ReaderAsyncStream,
            "reader.slice_with_skips" => Mode::ReaderSliceSkips,
            "nsreader.slice_with_skips" => Mode::NsSliceSkips,
            "reader.buffered" => Mode::ReaderBuffered,
            "reader.buffered_source_grows_after_eof" => Mode::ReaderBufferedGrowing,
            "reader.sync_with_stream_reads" => Mode::ReaderSyncStream,
            "reader.async" => Mode::ReaderAsync,
            "nsreader.slice" => Mode::NsSlice,
            "nsreader.buffered" => Mode::NsBuffered,
            "nsreader.async" => Mode::NsAsync,
            _ => Mode::ReaderSlice,
        }
    }
}

fn ns_probe<R>(r: &NsReader<R>, ev: &Event, loc: &mut Local) {
    match ev {
        Event::Start(e) | Event::Empty(e) => {
            let _ = r.resolve_element(e.name());
            let _ = r.resolve(e.name(), true);
            for a in e.attributes().with_checks(false).flatten() {
                let _ = r.resolve_attribute(a.key);
                loc.accessor_calls += 1;
            }
            let _ = e.attributes().has_nil(r);
            loc.accessor_calls += 3;
        }
        Event::End(e) => {
            let _ = r.resolve_element(e.name());
            loc.accessor_calls += 1;
        }
        _ => {}
    }
    let _ = r.resolve_attribute(QName(b"xml:lang"));
    let _ = r.resolve_element(QName(b"p:x"));
    let mut n = 0;
    for _ in r.prefixes() {
        n += 1;
        if n > 100_000 {
            break;
        }
    }
    loc.accessor_calls += 3;
}

pub fn drive(input: &[u8], cfg: u8, mode: Mode, cuts: &[usize], pending: &[u8], loc: &mut Local) -> Result<(), String> {
    let len = input.len();
    let mut inv = Inv::new(len);
    let limit = call_bound(len) + 8;
    macro_rules! body {
        ($r:ident, $read:expr, $ns:expr) => {{
            apply_cfg($r.config_mut(), cfg);
            for _ in 0..limit {
                let res = guarded(|| $read);
                let res = match res {
                    Ok(r) => r,
                    Err(p) => return Err(format!("read call {}: {}", inv.calls, p)),
                };
                let obs = match &res {
                    Ok(ev) => event_obs(ev),
                    Err(e) => Obs::Err(err_obs(e)),
                };
                let dec = $r.decoder();
                if let Ok(ev) = &res {
                    let ex = guarded(|| exercise_event(ev, len, dec, loc));
                    match ex {
                        Ok(Ok(())) => {}
                        Ok(Err(d)) => return Err(format!("call {} ({}): {}", inv.calls, obs.show(), d)),
                        Err(p) => return Err(format!("accessor on {} (call {}): {}", obs.show(), inv.calls, p)),
                    }
                    if $ns {
                        // (NsReader only) resolution helpers must not panic either
                    }
                }
                drop(res);
                if inv.step(&obs, $r.buffer_position(), $r.error_position(), loc)? {
                    break;
                }
            }
        }};
    }
    match mode {
        Mode::ReaderSliceSkips | Mode::NsSliceSkips => {
            // the skipping calls are read calls too: no panic, positions stay ordered, Eof stays final
            let ns = mode == Mode::NsSliceSkips;
            let mut r = if ns { Either::N(NsReader::from_reader(input)) } else { Either::R(Reader::from_reader(input)) };
            apply_cfg(r.config_mut(), cfg);
            let mut k = 0usize;
            let mut open: Vec<Vec<u8>> = Vec::new();
            for _ in 0..limit {
                let res = guarded(|| r.read_event());
                let res = match res {
                    Ok(r) => r,
                    Err(p) => return Err(format!("read call {}: {}", inv.calls, p)),
                };
                let obs = result_obs(&res);
                let mut start_name = match &res {
                    Ok(Event::Start(e)) => Some(e.name().as_ref().to_vec()),
                    _ => None,
                };
                // open elements, for skip calls that are made later than directly after the start tag
                match &res {
                    Ok(Event::Start(e)) => open.push(e.name().as_ref().to_vec()),
                    Ok(Event::End(_)) => {
                        open.pop();
                    }
                    _ => {}
                }
                let plain_event = matches!(&res, Ok(Event::Text(_)) | Ok(Event::End(_)) | Ok(Event::Empty(_)) | Ok(Event::Comment(_)) | Ok(Event::CData(_)) | Ok(Event::PI(_)));
                drop(res);
                if inv.step(&obs, r.buffer_position(), r.error_position(), loc)? {
                    break;
                }
                // ... also after a text, an end tag, ... : skip the rest of any element that is still open
                if start_name.is_none() && plain_event && !open.is_empty() && (inv.calls as usize + cfg as usize) % 5 == 0 {
                    let i = (inv.calls as usize + k) % open.len();
                    start_name = Some(open[i].clone());
                    open.truncate(i + 1);
                    k = k.wrapping_add(2 - (k + cfg as usize) % 3); // make the trigger below fire
                    loc.skip_calls_not_after_start += 1;
                }
                if let Some(name) = start_name {
                    k += 1;
                    if (k + cfg as usize) % 3 == 0 {
                        open.pop();
                        let use_text = k % 2 == 0;
                        let cfg_before = cfg_bits(r.config());
                        let pos_before = r.buffer_position();
                        let sk = guarded(|| -> Result<Option<(u64, u64)>, quick_xml::Error> {
                            let q = QName(&name);
                            if use_text {
                                r.read_text(q).map(|_| None)
                            } else {
                                r.read_to_end(q).map(|s| Some((s.start, s.end)))
                            }
                        });
                        let sk = match sk {
                            Ok(x) => x,
                            Err(p) => return Err(format!("read_to_end/read_text({:?}) after call {}: {}", show(&name), inv.calls, p)),
                        };
                        loc.skip_calls += 1;
                        if cfg_bits(r.config()) != cfg_before {
                            return Err(format!("read_to_end/read_text({:?}) changed the configuration from {} to {}", show(&name), cfg_show(cfg_before), cfg_show(cfg_bits(r.config()))));
                        }
                        let pos = r.buffer_position();
                        if pos < pos_before || pos > len as u64 {
                            return Err(format!("position after read_to_end/read_text is {} (before {}, input length {})", pos, pos_before, len));
                        }
                        match sk {
                            Ok(Some((s, e))) => {
                                if s > e || e > pos || s < pos_before {
                                    return Err(format!("read_to_end({:?}) returned the span {}..{} with the position going {} -> {}", show(&name), s, e, pos_before, pos));
                                }
                            }
                            Ok(None) => {}
                            Err(e) => {
                                // any failure of a skip call leaves the reader finished or at least consistent:
                                // model it as an error observation for the invariants
                                let o = Obs::Err(err_obs(&e));
                                let terminal = matches!(&o, Obs::Err(x) if x.is_syntax()) || matches!(&o, Obs::Err(ErrObs::MissingEndTag(_)));
                                if r.error_position() > pos && !matches!(&o, Obs::Err(ErrObs::MissingEndTag(_))) {
                                    return Err(format!("{} from a skip call reports error_position {} > buffer_position {}", o.show(), r.error_position(), pos));
                                }
                                if terminal {
                                    // everything afterwards must be Eof
                                    for _ in 0..3 {
                                        let again = guarded(|| r.read_event().map(|e| e.into_owned()));
                                        match again {
                                            Ok(Ok(Event::Eof)) => {}
                                            Ok(other) => return Err(format!("after {} from a skip call the reader returned {:?} instead of Eof", o.show(), other.map(|e| event_obs(&e).show()))),
                                            Err(p) => return Err(p),
                                        }
                                    }
                                    inv.terminal = true;
                                    break;
                                }
                            }
                        }
                        inv.prev_pos = pos;
                    }
                }
            }
        }
        Mode::ReaderSlice => {
            let mut r = Reader::from_reader(input);
            body!(r, r.read_event(), false);
        }
        Mode::ReaderBuffered => {
            let mut r = Reader::from_reader(ChunkedRead::new(input, cuts.to_vec()));
            let mut buf = Vec::new();
            body!(
                r,
                {
                    buf.clear();
                    r.read_event_into(&mut buf).map(|e| e.into_owned())
                },
                false
            );
        }
        Mode::ReaderSyncStream => {
            use std::io::Read;
            // cuts empty: the borrowing reader; otherwise the buffering one
            macro_rules! run {
                ($r:ident, $read:expr) => {{
                    apply_cfg($r.config_mut(), cfg);
                    let mut finished = false;
                    for _ in 0..limit {
                        if !inv.terminal && (inv.calls + cfg as usize) % 3 == 1 {
                            let before = $r.buffer_position();
                            let kind = (inv.calls / 3 + cfg as usize) % 4;
                            let n = [1usize, 5, len + 3, 64][(inv.calls + cfg as usize) % 4];
                            let mut raw = vec![0u8; n];
                            let res = guarded(|| -> Result<Option<usize>, String> {
                                let mut st = $r.stream();
                                Ok(match kind {
                                    0 | 1 => Some(st.read(&mut raw).map_err(|e| e.to_string())?),
                                    2 => match st.read_exact(&mut raw) {
                                        Ok(()) => Some(n),
                                        Err(_) => None,
                                    },
                                    _ => {
                                        let mut v = Vec::new();
                                        let got = st.read_to_end(&mut v).map_err(|e| e.to_string())?;
                                        finished = true;
                                        Some(got)
                                    }
                                })
                            });
                            let got = match res {
                                Ok(Ok(g)) => g,
                                Ok(Err(e)) => return Err(format!("stream() read after call {}: {}", inv.calls, e)),
                                Err(p) => return Err(format!("stream() read after call {}: {}", inv.calls, p)),
                            };
                            loc.stream_reads += 1;
                            let pos = $r.buffer_position();
                            if pos < before || pos > len as u64 {
                                return Err(format!("after a raw read through stream() the position went from {} to {} (input length {})", before, pos, len));
                            }
                            if let Some(g) = got {
                                if pos - before != g as u64 {
                                    return Err(format!("a raw read through stream() returned {} byte(s) but the position went from {} to {} (input length {})", g, before, pos, len));
                                }
                            }
                            // (after a text the reader has already taken the '<' of the next markup and reports the
                            // position in front of it, so the end of a raw read_to_end is len or len - 1)
                            if finished && pos + 1 < len as u64 {
                                return Err(format!("stream().read_to_end() left the position at {} of {}", pos, len));
                            }
                            inv.prev_pos = pos;
                        }
                        let res = match guarded(|| $read) {
                            Ok(r) => r,
                            Err(p) => return Err(format!("read call {}: {}", inv.calls, p)),
                        };
                        let obs = result_obs(&res);
                        drop(res);
                        // every byte is accounted for, whoever took it: at Eof the position is the input length
                        if obs.is_eof() && !inv.terminal && $r.buffer_position() != len as u64 {
                            return Err(format!(
                                "Eof is reported at position {} of an input of {} bytes after raw reads through stream() took part of it",
                                $r.buffer_position(),
                                len
                            ));
                        }
                        if inv.step(&obs, $r.buffer_position(), $r.error_position(), loc)? {
                            break;
                        }
                    }
                }};
            }
            if cuts.is_empty() {
                let mut r = Reader::from_reader(input);
                run!(r, r.read_event().map(|e| e.into_owned()));
            } else {
                let mut r = Reader::from_reader(ChunkedRead::new(input, cuts.to_vec()));
                let mut buf = Vec::new();
                run!(r, {
                    buf.clear();
                    r.read_event_into(&mut buf).map(|e| e.into_owned())
                });
            }
        }
        Mode::ReaderBufferedGrowing => {
            let mut data = input.to_vec();
            data.extend_from_slice(b"<more k='v'>late</more> tail");
            let mut src = ChunkedRead::new(&data, cuts.to_vec());
            src.hold_at = Some(len);
            let mut r = Reader::from_reader(src);
            apply_cfg(r.config_mut(), cfg);
            let mut buf = Vec::new();
            let mut released = false;
            for _ in 0..limit {
                buf.clear();
                let res = match guarded(|| r.read_event_into(&mut buf).map(|e| e.into_owned())) {
                    Ok(r) => r,
                    Err(p) => return Err(format!("read call {}: {}", inv.calls, p)),
                };
                let obs = result_obs(&res);
                drop(res);
                let stop = inv.step(&obs, r.buffer_position(), r.error_position(), loc).map_err(|e| if released { format!("{} (the source delivered more bytes after the reader had returned Eof / a syntax error)", e) } else { e })?;
                if inv.terminal && !released {
                    r.get_mut().release();
                    released = true;
                    loc.grown_after_eof += 1;
                }
                if stop {
                    break;
                }
            }
        }
        Mode::ReaderAsync | Mode::ReaderAsyncStream => {
            let with_stream = mode == Mode::ReaderAsyncStream;
            let mut r = Reader::from_reader(AsyncChunked::new(input, cuts.to_vec(), pending.to_vec()));
            apply_cfg(r.config_mut(), cfg);
            let mut buf = Vec::new();
            for _ in 0..limit {
                if with_stream && !inv.terminal && inv.calls % 3 == 1 {
                    // a raw read of a few bytes; read_exact re-polls with a partially filled ReadBuf
                    use tokio::io::AsyncReadExt;
                    let n = 1 + (inv.calls + cfg as usize) % 7;
                    let mut raw = vec![0u8; n];
                    let before = r.buffer_position();
                    let res = guarded(|| -> Result<(), String> {
                        let mut st = r.stream();
                        let _ = block_on(st.read_exact(&mut raw), 64 + 300 * (len as u64 + 2))?;
                        Ok(())
                    });
                    match res {
                        Ok(Ok(())) => {}
                        Ok(Err(e)) => return Err(e),
                        Err(p) => return Err(format!("stream().read_exact after call {}: {}", inv.calls, p)),
                    }
                    loc.stream_reads += 1;
                    let pos = r.buffer_position();
                    if pos < before || pos > len as u64 || pos - before > n as u64 {
                        return Err(format!(
                            "after reading at most {} raw bytes through stream() the position went from {} to {} (input length {})",
                            n, before, pos, len
                        ));
                    }
                    inv.prev_pos = pos;
                }
                buf.clear();
                let maxp = 64 + 300 * (len as u64 + 2);
                let res = guarded(|| -> Result<Result<Event<'static>, quick_xml::Error>, String> {
                    let (res, _) = block_on(r.read_event_into_async(&mut buf), maxp)?;
                    Ok(res.map(|e| e.into_owned()))
                });
                let res = match res {
                    Ok(Ok(r)) => r,
                    Ok(Err(e)) => return Err(e),
                    Err(p) => return Err(format!("async read call {}: {}", inv.calls, p)),
                };
                let obs = result_obs(&res);
                let dec = r.decoder();
                if let Ok(ev) = &res {
                    match guarded(|| exercise_event(ev, len, dec, loc)) {
                        Ok(Ok(())) => {}
                        Ok(Err(d)) => return Err(format!("call {} ({}): {}", inv.calls, obs.show(), d)),
                        Err(p) => return Err(format!("accessor on {} (call {}): {}", obs.show(), inv.calls, p)),
                    }
                }
                if inv.step(&obs, r.buffer_position(), r.error_position(), loc)? {
                    break;
                }
            }
        }
        Mode::NsSlice => {
            let mut r = NsReader::from_reader(input);
            apply_cfg(r.config_mut(), cfg);
            let mut flip = false;
            for _ in 0..limit {
                flip = !flip;
                let res = guarded(|| if flip { r.read_resolved_event().map(|(_, e)| e) } else { r.read_event() });
                let res = match res {
                    Ok(r) => r,
                    Err(p) => return Err(format!("NsReader read call {}: {}", inv.calls, p)),
                };
                let obs = result_obs(&res);
                let dec = r.decoder();
                if let Ok(ev) = &res {
                    match guarded(|| {
                        ns_probe(&r, ev, loc);
                        exercise_event(ev, len, dec, loc)
                    }) {
                        Ok(Ok(())) => {}
                        Ok(Err(d)) => return Err(format!("call {} ({}): {}", inv.calls, obs.show(), d)),
                        Err(p) => return Err(format!("accessor on {} (call {}): {}", obs.show(), inv.calls, p)),
                    }
                }
                drop(res);
                if inv.step(&obs, r.buffer_position(), r.error_position(), loc)? {
                    break;
                }
            }
        }
        Mode::NsBuffered => {
            let mut r = NsReader::from_reader(ChunkedRead::new(input, cuts.to_vec()));
            apply_cfg(r.config_mut(), cfg);
            let mut buf = Vec::new();
            let mut flip = false;
            for _ in 0..limit {
                flip = !flip;
                buf.clear();
                let res = guarded(|| {
                    if flip {
                        r.read_resolved_event_into(&mut buf).map(|(_, e)| e.into_owned())
                    } else {
                        r.read_event_into(&mut buf).map(|e| e.into_owned())
                    }
                });
                let res = match res {
                    Ok(r) => r,
                    Err(p) => return Err(format!("NsReader read call {}: {}", inv.calls, p)),
                };
                let obs = result_obs(&res);
                let dec = r.decoder();
                if let Ok(ev) = &res {
                    match guarded(|| {
                        ns_probe(&r, ev, loc);
                        exercise_event(ev, len, dec, loc)
                    }) {
                        Ok(Ok(())) => {}
                        Ok(Err(d)) => return Err(format!("call {} ({}): {}", inv.calls, obs.show(), d)),
                        Err(p) => return Err(format!("accessor on {} (call {}): {}", obs.show(), inv.calls, p)),
                    }
                }
                if inv.step(&obs, r.buffer_position(), r.error_position(), loc)? {
                    break;
                }
            }
        }
        Mode::NsAsync => {
            let mut r = NsReader::from_reader(AsyncChunked::new(input, cuts.to_vec(), pending.to_vec()));
            apply_cfg(r.config_mut(), cfg);
            let mut buf = Vec::new();
            let mut flip = false;
            for _ in 0..limit {
                flip = !flip;
                buf.clear();
                let maxp = 64 + 300 * (len as u64 + 2);
                let res = guarded(|| -> Result<Result<Event<'static>, quick_xml::Error>, String> {
                    if flip {
                        let (res, _) = block_on(r.read_resolved_event_into_async(&mut buf), maxp)?;
                        Ok(res.map(|(_, e)| e.into_owned()))
                    } else {
                        let (res, _) = block_on(r.read_event_into_async(&mut buf), maxp)?;
                        Ok(res.map(|e| e.into_owned()))
                    }
                });
                let res = match res {
                    Ok(Ok(r)) => r,
                    Ok(Err(e)) => return Err(e),
                    Err(p) => return Err(format!("NsReader async read call {}: {}", inv.calls, p)),
                };
                let obs = result_obs(&res);
                let dec = r.decoder();
                if let Ok(ev) = &res {
                    match guarded(|| {
                        ns_probe(&r, ev, loc);
                        exercise_event(ev, len, dec, loc)
                    }) {
                        Ok(Ok(())) => {}
                        Ok(Err(d)) => return Err(format!("call {} ({}): {}", inv.calls, obs.show(), d)),
                        Err(p) => return Err(format!("accessor on {} (call {}): {}", obs.show(), inv.calls, p)),
                    }
                }
                if inv.step(&obs, r.buffer_position(), r.error_position(), loc)? {
                    break;
                }
            }
        }
    }
    if !inv.terminal {
        return Err(format!("no Eof and no syntax error within {} calls", limit));
    }
    if len > 0 {
        loc.max_calls_ratio_pct = loc.max_calls_ratio_pct.max((inv.calls as u64 * 100) / len as u64);
    }
    Ok(())
}

fn case_json(input: &[u8], cfg: u8, mode: Mode, cuts: &[usize], pending: &[u8]) -> Value {
    json!({"input": input_json(input), "config": cfg, "config_show": cfg_show(cfg), "mode": mode.name(), "cuts": cuts, "pending": pending})
}

pub fn run_case(ctx: &mut Ctx, loc: &mut Local, input: &[u8], cfg: u8, mode: Mode, cuts: &[usize], pending: &[u8]) -> bool {
    ctx.journal(|| case_json(input, cfg, mode, cuts, pending));
    let h = H::new().bytes(input).u64(cfg as u64).u64(mode as u64).u64(cuts.len() as u64).finish();
    ctx.eval(h, input.contains(&b'<'));
    *loc.runs.entry(mode.name()).or_insert(0) += 1;
    let r = guarded(|| drive(input, cfg, mode, cuts, pending, loc));
    let r = match r {
        Ok(r) => r,
        Err(p) => Err(p),
    };
    if let Err(d) = r {
        ctx.violation(case_json(input, cfg, mode, cuts, pending), d);
        return !ctx.full();
    }
    ctx.sample(|| json!({"input": show(input), "config": cfg_show(cfg), "mode": mode.name()}));
    true
}

fn one_input(ctx: &mut Ctx, loc: &mut Local, input: &[u8], r: &mut Rng, heavy: bool) -> bool {
    let cfg = (r.next() & 0x7F) as u8;
    if !run_case(ctx, loc, input, cfg, Mode::ReaderSlice, &[], &[]) {
        return false;
    }
    let cfg2 = (r.next() & 0x7F) as u8;
    if !run_case(ctx, loc, input, cfg2, Mode::NsSlice, &[], &[]) {
        return false;
    }
    if heavy || r.chance(1, 8) {
        let m = if r.bool() { Mode::ReaderSliceSkips } else { Mode::NsSliceSkips };
        if !run_case(ctx, loc, input, (r.next() & 0x7F) as u8, m, &[], &[]) {
            return false;
        }
    }
    if (heavy && r.chance(1, 3)) || r.chance(1, 24) {
        let cuts = if r.bool() || input.len() < 2 { vec![] } else { cuts_for_piece(input.len(), 1 + r.below(3), 0) };
        if !run_case(ctx, loc, input, (r.next() & 0x7F) as u8, Mode::ReaderSyncStream, &cuts, &[]) {
            return false;
        }
    }
    let pick = r.below(if heavy { 2 } else { 16 });
    if pick == 0 && input.len() > 1 {
        let c1 = cuts_for_piece(input.len(), 1, 0);
        let modes = [Mode::ReaderBuffered, Mode::NsBuffered, Mode::ReaderAsync, Mode::NsAsync, Mode::ReaderAsyncStream, Mode::ReaderBufferedGrowing];
        let m = modes[r.below(6)];
        let mut cuts = c1;
        if r.bool() {
            cuts = Vec::new();
            let mut p = 1 + r.below(4);
            while p < input.len() {
                cuts.push(p);
                p += 1 + r.below(6);
            }
        }
        let pend: Vec<u8> = (0..5).map(|_| r.below(3) as u8).collect();
        if !run_case(ctx, loc, input, (r.next() & 0x7F) as u8, m, &cuts, &pend) {
            return false;
        }
    }
    true
}

fn run(ctx: &mut Ctx) {
    let mut loc = Local::default();
    let t = ctx.tier;
    let mut rng = ctx.rng(3);
    let small_layer = ctx.layer == "miri" || ctx.layer == "valgrind";
    if !small_layer {
        // all byte strings of length <= 2 over all 256 values
        let total: u64 = 1 + 256 + 65536;
        let mut i = ctx.shard as u64;
        while i < total {
            let v: Vec<u8> = if i == 0 {
                vec![]
            } else if i <= 256 {
                vec![(i - 1) as u8]
            } else {
                let x = i - 257;
                vec![(x >> 8) as u8, (x & 0xFF) as u8]
            };
            if !one_input(ctx, &mut loc, &v, &mut rng, false) {
                return flush(ctx, &loc);
            }
            i += ctx.nshards as u64;
        }
        ctx.exhaustive("all 65793 byte strings of length <= 2 over all 256 byte values");
        // length 3 (and 4 in the thorough tier) over the 48-value class set
        for n in 3..=t.pick(3u32, 4u32) {
            let total = 48u64.pow(n);
            let mut i = ctx.shard as u64;
            while i < total {
                let mut x = i;
                let mut v = Vec::with_capacity(n as usize);
                for _ in 0..n {
                    v.push(CLASS48[(x % 48) as usize]);
                    x /= 48;
                }
                if !one_input(ctx, &mut loc, &v, &mut rng, false) {
                    return flush(ctx, &loc);
                }
                i += ctx.nshards as u64;
            }
            ctx.exhaustive(&format!("all {} strings of length {} over a 48-value byte class set", total, n));
        }
    }
    let plan = if small_layer {
        Plan {
            pool: true,
            grammar_docs: 400,
            mutants_per_doc: 2,
            random_bytes: 3_000,
            random_len: 40,
            random_atoms: 2_000,
            ..Plan::default()
        }
    } else {
        Plan {
            bytes_n: t.pick(6, 7),
            tokens_k: t.pick(3, 4),
            pool: true,
            grammar_docs: t.pick(40_000, 400_000),
            mutants_per_doc: 4,
            truncate_all: true,
            bom_share: 6,
            corpus: true,
            corpus_truncs: t.pick(8, 32),
            corpus_max_len: 64 << 10,
            random_bytes: t.pick(4_000_000, 40_000_000),
            random_len: 64,
            random_atoms: t.pick(1_000_000, 8_000_000),
            scale_max: 8192,
            ..Plan::default()
        }
    };
    for_each_input(ctx, &plan, &mut |ctx, input, src, r| {
        if src == Src::Scale {
            // every mode, with long pieces
            for m in [Mode::ReaderSlice, Mode::NsSlice, Mode::ReaderSliceSkips, Mode::NsSliceSkips] {
                if !run_case(ctx, &mut loc, input, (r.next() & 0x7F) as u8, m, &[], &[]) {
                    return false;
                }
            }
            for m in [Mode::ReaderBuffered, Mode::NsBuffered, Mode::ReaderAsync, Mode::NsAsync, Mode::ReaderBufferedGrowing] {
                let piece = crate::gen::SCALE_PIECES[r.below(crate::gen::SCALE_PIECES.len())];
                let cuts = if r.bool() { cuts_for_piece(input.len(), piece, 0) } else { crate::sources::big_random_cuts(r, input.len(), 0) };
                if !run_case(ctx, &mut loc, input, (r.next() & 0x7F) as u8, m, &cuts, &[0, 1, 0, 2]) {
                    return false;
                }
            }
            return true;
        }
        one_input(ctx, &mut loc, input, r, !src.exhaustive())
    });
    flush(ctx, &loc);
}

fn flush(ctx: &mut Ctx, loc: &Local) {
    for (k, v) in &loc.runs {
        ctx.add(k, *v);
    }
    ctx.add("accessor_calls", loc.accessor_calls);
    ctx.add("sources_that_grew_after_eof", loc.grown_after_eof);
    ctx.add("attr_items", loc.attr_items);
    ctx.add("attr_errors", loc.attr_errors);
    ctx.add("events_exercised", loc.events);
    ctx.add("skip_calls", loc.skip_calls);
    ctx.add("skip_calls_not_directly_after_start", loc.skip_calls_not_after_start);
    ctx.add("stream_reads", loc.stream_reads);
    ctx.add("syntax_errors_then_eof", loc.syntax_then_eof);
    ctx.add("illformed_errors_continued", loc.illformed_continued);
    ctx.max("max.calls_per_100_input_bytes", loc.max_calls_ratio_pct);
}

fn replay(case: &Value, _ctx: &mut Ctx) -> Option<String> {
    if let Some(h) = case.get("fuzz").and_then(|v| v.as_str()) {
        return fuzz_entry(&crate::ctx::unhex(h)).err();
    }
    let input = input_from_json(&case["input"]);
    let cfg = case["config"].as_u64().unwrap_or(0) as u8;
    let mode = Mode::from(case["mode"].as_str().unwrap_or(""));
    let cuts: Vec<usize> = case["cuts"].as_array().map(|a| a.iter().map(|x| x.as_u64().unwrap_or(0) as usize).collect()).unwrap_or_default();
    let pending: Vec<u8> = case["pending"].as_array().map(|a| a.iter().map(|x| x.as_u64().unwrap_or(0) as u8).collect()).unwrap_or_default();
    let mut loc = Local::default();
    match guarded(|| drive(&input, cfg, mode, &cuts, &pending, &mut loc)) {
        Ok(r) => r.err(),
        Err(p) => Some(p),
    }
}

/// libFuzzer entry: byte 0 = configuration, byte 1 = mode / piece size, rest = input
pub fn fuzz_entry(data: &[u8]) -> Result<(), String> {
    if data.len() < 2 {
        return Ok(());
    }
    let cfg = data[0] & 0x7F;
    let mode = [Mode::ReaderSlice, Mode::NsSlice, Mode::ReaderBuffered, Mode::NsBuffered, Mode::ReaderAsync, Mode::NsAsync][(data[1] % 6) as usize];
    let input = &data[2..];
    let cuts = cuts_for_piece(input.len(), 1 + (data[1] / 6 % 5) as usize, 0);
    let mut loc = Local::default();
    match guarded(|| drive(input, cfg, mode, &cuts, &[1, 0, 2], &mut loc)) {
        Ok(r) => r,
        Err(p) => Err(p),
    }
}
