//! C01 — reader events match the document's lexical structure.
//! Oracle: R_tok run in lock-step with `Reader::<&[u8]>::read_event`.

use super::common::*;
use crate::ctx::{guarded, Ctx};
use crate::obs::*;
use crate::refmodel::tok::{TokModel, TokStats};
use crate::runner::PropSpec;
use quick_xml::reader::Reader;
use serde_json::{json, Value};

pub const SPEC: PropSpec = PropSpec {
    id: "C01",
    level: "exploration",
    rule: "Cases = (input bytes, reader configuration). Exhaustive part: every byte string up to length N over the 13 markup bytes under the neutral configuration and, up to a smaller N, under all 128 configurations; every sequence of up to k markup atoms; the terminator pool. Random part: grammar-generated documents, their mutants, truncations at every offset, the repository corpus (whole and truncated), each under neutral + 2 random configurations. Each case runs the real slice reader in lock-step with the reference tokenizer R_tok and compares every event (kind, raw bytes, name/target) and every error (variant, payload); error_position() is observed (counted at / not at the start of the construct), not judged. Non-trivial = the input contains '<'.",
    assumptions: &[
        "R_tok (harness/src/refmodel/tok.rs) is the lexical grammar quick-xml documents; it is pinned against tests/reader-errors.rs corner cases",
        "an empty Text event is accepted only at the sites of known finding F6 (trim_text_end on, trim_text_start off, whitespace-only text followed by markup; judged and listed by C16); any other empty Text event is reported as invented",
        "the byte position reported inside a DoubleHyphenInComment error is not compared (no property states it)",
        "strings inside name-mismatch errors are compared only while the decoder is known to be UTF-8",
    ],
    required: &[
        "hostile.gt_in_quoted",
        "hostile.other_quote_in_quoted",
        "hostile.gt_in_cdata",
        "hostile.brackets_in_cdata",
        "hostile.gt_in_comment",
        "hostile.dash_in_comment",
        "hostile.q_in_pi",
        "hostile.gt_in_pi",
        "hostile.nested_in_doctype",
        "hostile.eof_in_construct",
        "configs_seen_all128",
    ],
    run,
    replay,
    thorough_layers: &[("fuzz", 60)],
    quick_layers: &[],
    post: Some(post_cfgs),
};

/// folds the per-configuration counters into "configs_seen" / "configs_seen_all128"
pub fn post_cfgs(c: &mut std::collections::BTreeMap<String, u64>) {
    let keys: Vec<String> = c.keys().filter(|k| k.starts_with("cfg.")).cloned().collect();
    let seen = keys.len() as u64;
    let min = keys.iter().map(|k| c[k]).min().unwrap_or(0);
    for k in keys {
        c.remove(&k);
    }
    c.insert("configs_seen".into(), seen);
    c.insert("configs_seen_min_cases_per_config".into(), min);
    c.insert("configs_seen_all128".into(), (seen == 128) as u64);
}

pub struct Local {
    pub kinds: [u64; 10],
    pub errs: std::collections::BTreeMap<String, u64>,
    pub tok: TokStats,
    pub empty_text_ignored: u64,
    pub errpos_as_documented: u64,
    pub errpos_other: u64,
    pub buffered: u64,
    pub cfg_seen: [u64; 128],
    pub by_src: [u64; 10],
}
impl Default for Local {
    fn default() -> Self {
        Local {
            kinds: [0; 10],
            errs: Default::default(),
            tok: Default::default(),
            empty_text_ignored: 0,
            errpos_as_documented: 0,
            errpos_other: 0,
            buffered: 0,
            cfg_seen: [0; 128],
            by_src: [0; 10],
        }
    }
}
impl Local {
    pub fn absorb_tok(&mut self, t: &TokStats) {
        self.tok.gt_in_quoted += t.gt_in_quoted;
        self.tok.other_quote_in_quoted += t.other_quote_in_quoted;
        self.tok.gt_in_cdata += t.gt_in_cdata;
        self.tok.brackets_in_cdata += t.brackets_in_cdata;
        self.tok.gt_in_comment += t.gt_in_comment;
        self.tok.dash_in_comment += t.dash_in_comment;
        self.tok.q_in_pi += t.q_in_pi;
        self.tok.gt_in_pi += t.gt_in_pi;
        self.tok.nested_in_doctype += t.nested_in_doctype;
        self.tok.eof_in_construct += t.eof_in_construct;
        self.tok.max_depth = self.tok.max_depth.max(t.max_depth);
    }
    pub fn flush(&self, ctx: &mut Ctx) {
        for k in ALL_KINDS {
            ctx.add(&format!("events.{}", k.name()), self.kinds[k.idx()]);
        }
        for (k, v) in &self.errs {
            ctx.add(&format!("errors.{}", k), *v);
        }
        ctx.add("hostile.gt_in_quoted", self.tok.gt_in_quoted);
        ctx.add("hostile.other_quote_in_quoted", self.tok.other_quote_in_quoted);
        ctx.add("hostile.gt_in_cdata", self.tok.gt_in_cdata);
        ctx.add("hostile.brackets_in_cdata", self.tok.brackets_in_cdata);
        ctx.add("hostile.gt_in_comment", self.tok.gt_in_comment);
        ctx.add("hostile.dash_in_comment", self.tok.dash_in_comment);
        ctx.add("hostile.q_in_pi", self.tok.q_in_pi);
        ctx.add("hostile.gt_in_pi", self.tok.gt_in_pi);
        ctx.add("hostile.nested_in_doctype", self.tok.nested_in_doctype);
        ctx.add("hostile.eof_in_construct", self.tok.eof_in_construct);
        ctx.max("max.depth", self.tok.max_depth);
        ctx.add("real_empty_text_events_ignored", self.empty_text_ignored);
        ctx.add("observation.error_position_at_construct_start", self.errpos_as_documented);
        ctx.add("observation.error_position_elsewhere", self.errpos_other);
        ctx.add("cases_also_on_buffered_source", self.buffered);
        for (i, n) in self.cfg_seen.iter().enumerate() {
            if *n > 0 {
                ctx.add(&format!("cfg.{:03}", i), *n);
            }
        }
        for (i, n) in self.by_src.iter().enumerate() {
            let names = [
                "bytes", "tokens", "pool", "grammar", "mutant", "truncation", "corpus", "corpus_truncation", "random", "scale",
            ];
            ctx.add(&format!("cases.{}", names[i]), *n);
        }
    }
}

fn obs_match(real: &Obs, model: &Obs, strings_exact: bool) -> bool {
    if real == model {
        return true;
    }
    if !strings_exact {
        return matches!(
            (real, model),
            (Obs::Err(ErrObs::Mismatched { .. }), Obs::Err(ErrObs::Mismatched { .. }))
                | (Obs::Err(ErrObs::Unmatched(_)), Obs::Err(ErrObs::Unmatched(_)))
        );
    }
    false
}

/// Lock-step comparison. Returns Err(detail) on the first discrepancy.
pub fn lockstep(input: &[u8], cfg: &CfgHist, loc: &mut Local) -> Result<(), String> {
    let mut r = Reader::from_reader(input);
    lockstep_with(input, cfg, loc, &mut |c| {
        apply_cfg(r.config_mut(), c);
        let res = r.read_event();
        (result_obs(&res), r.error_position())
    })
}

/// The same comparison for the buffering reader over a source that delivers the input in pieces
/// (the first piece holds at least 4 bytes: the documented one-piece encoding sniff).
pub fn lockstep_buffered(input: &[u8], cfg: &CfgHist, piece: usize, loc: &mut Local) -> Result<(), String> {
    let mut r = Reader::from_reader(crate::sources::ChunkedRead::new(input, crate::sources::cuts_for_piece(input.len(), piece, 4)));
    let mut buf = Vec::new();
    lockstep_with(input, cfg, loc, &mut |c| {
        apply_cfg(r.config_mut(), c);
        buf.clear();
        let res = r.read_event_into(&mut buf);
        (result_obs(&res), r.error_position())
    })
    .map_err(|d| format!("buffered source, pieces of {}: {}", piece, d))
}

fn lockstep_with(input: &[u8], cfg: &CfgHist, loc: &mut Local, next: &mut dyn FnMut(u8) -> (Obs, u64)) -> Result<(), String> {
    let mut m = TokModel::new(input);
    let limit = call_bound(input.len()) + 2;
    let mut call: u32 = 0;
    let mut eofs = 0;
    let mut result = Ok(());
    while (call as usize) < limit {
        let c = cfg.at(call);
        let (real, real_errpos) = next(c);
        call += 1;
        if real.is_empty_text() && m.accept_f6_empty_text(c) {
            // the one known source of empty Text events (finding F6, judged and listed by C16)
            loc.empty_text_ignored += 1;
            continue;
        }
        let s = m.step(c);
        match &real {
            Obs::Ev(k, _, _) => loc.kinds[k.idx()] += 1,
            Obs::Err(e) => *loc.errs.entry(e.name()).or_insert(0) += 1,
            Obs::Raw(_) => {}
        }
        if !obs_match(&real, &s.obs, s.strings_exact) {
            result = Err(format!(
                "call {} (config {}): reader returned {} but the lexical grammar gives {}",
                call - 1,
                cfg_show(c),
                real.show(),
                s.obs.show()
            ));
            break;
        }
        // error_position() is documented to point at the '<' of the offending construct, but C01
        // does not speak about it: a difference is counted as an observation, not judged
        if matches!(real, Obs::Err(_)) && s.err_pos != u64::MAX {
            if real_errpos == s.err_pos {
                loc.errpos_as_documented += 1;
            } else {
                loc.errpos_other += 1;
            }
        }
        if real.is_eof() {
            eofs += 1;
            if eofs >= 2 {
                break;
            }
        }
    }
    if result.is_ok() && eofs == 0 {
        result = Err(format!("no Eof within {} calls", limit));
    }
    loc.absorb_tok(&m.stats);
    result
}

fn case_json(input: &[u8], cfg: &CfgHist) -> Value {
    json!({"input": input_json(input), "cfg": cfg.to_json()})
}

pub fn check_case(ctx: &mut Ctx, loc: &mut Local, input: &[u8], cfg: &CfgHist, src: Src) -> bool {
    ctx.journal(|| case_json(input, cfg));
    let h = crate::rng::H::new().bytes(input).u64(cfg.base as u64).finish();
    ctx.eval(h, input.contains(&b'<'));
    loc.cfg_seen[(cfg.base & 0x7F) as usize] += 1;
    loc.by_src[src as usize] += 1;
    let r = guarded(|| lockstep(input, cfg, loc));
    let mut r = match r {
        Ok(r) => r,
        Err(p) => Err(p),
    };
    // the sampled inputs also through the buffering reader
    if r.is_ok() && !src.exhaustive() {
        loc.buffered += 1;
        r = guarded(|| lockstep_buffered(input, cfg, 1 + (h % 3) as usize, loc)).unwrap_or_else(Err);
    }
    // long inputs also in long pieces (whole pieces inside one value, text, comment, ...)
    if r.is_ok() && src == Src::Scale {
        for piece in crate::gen::SCALE_PIECES {
            if *piece < input.len() && r.is_ok() {
                loc.buffered += 1;
                r = guarded(|| lockstep_buffered(input, cfg, *piece, loc)).unwrap_or_else(Err);
            }
        }
    }
    if let Err(d) = r {
        ctx.violation(case_json(input, cfg), d);
        return !ctx.full();
    }
    ctx.sample(|| json!({"input": crate::ctx::show(input), "config": cfg_show(cfg.base), "source": src.name()}));
    true
}

fn run(ctx: &mut Ctx) {
    let mut loc = Local::default();
    let t = ctx.tier;
    // part 1: enumerations under the neutral configuration
    let plan = Plan {
        bytes_n: t.pick(7, 8),
        tokens_k: t.pick(4, 5),
        pool: true,
        ..Plan::default()
    };
    let neutral = CfgHist::fixed(CFG_NEUTRAL);
    for_each_input(ctx, &plan, &mut |ctx, input, src, _r| check_case(ctx, &mut loc, input, &neutral, src));
    // part 2: smaller enumeration under all 128 configurations
    let plan = Plan {
        bytes_n: t.pick(5, 6),
        tokens_k: t.pick(2, 3),
        pool: true,
        ..Plan::default()
    };
    for_each_input(ctx, &plan, &mut |ctx, input, src, _r| {
        for c in 0..128u8 {
            if c == CFG_NEUTRAL {
                continue;
            }
            if !check_case(ctx, &mut loc, input, &CfgHist::fixed(c), src) {
                return false;
            }
        }
        true
    });
    ctx.exhaustive("the second, smaller enumeration is crossed with all 128 reader configurations");
    // part 3: random exploration
    let plan = Plan {
        grammar_docs: t.pick(100_000, 1_000_000),
        mutants_per_doc: 3,
        truncate_all: true,
        bom_share: 8,
        corpus: true,
        corpus_truncs: t.pick(16, 64),
        random_atoms: t.pick(500_000, 5_000_000),
        scale_max: 8192,
        ..Plan::default()
    };
    for_each_input(ctx, &plan, &mut |ctx, input, src, r| {
        if !check_case(ctx, &mut loc, input, &neutral, src) {
            return false;
        }
        for _ in 0..2 {
            let c = (r.next() & 0x7F) as u8;
            if !check_case(ctx, &mut loc, input, &CfgHist::fixed(c), src) {
                return false;
            }
        }
        true
    });
    loc.flush(ctx);
}

fn replay(case: &Value, _ctx: &mut Ctx) -> Option<String> {
    if let Some(h) = case.get("fuzz").and_then(|v| v.as_str()) {
        return fuzz_entry(&crate::ctx::unhex(h)).err();
    }
    let input = input_from_json(&case["input"]);
    let cfg = CfgHist::from_json(&case["cfg"]);
    let mut loc = Local::default();
    lockstep(&input, &cfg, &mut loc).err()
}

/// libFuzzer entry: first byte = configuration bits, rest = input
pub fn fuzz_entry(data: &[u8]) -> Result<(), String> {
    if data.is_empty() {
        return Ok(());
    }
    let cfg = CfgHist::fixed(data[0] & 0x7F);
    let mut loc = Local::default();
    lockstep(&data[1..], &cfg, &mut loc)
}
