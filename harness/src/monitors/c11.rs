//! C11 — attribute iteration yields exactly the tag's attributes or the documented error.
//! Oracle: R_attr (grammar + documented error positions and recovery points).

use super::common::*;
use crate::ctx::{guarded, show, Ctx};
use crate::refmodel::attr::{parse, AItem, AttrStats};
use crate::rng::{Rng, H};
use crate::runner::PropSpec;
use quick_xml::events::attributes::{AttrError, Attributes};
use quick_xml::events::BytesStart;
use serde_json::{json, Value};

pub const SPEC: PropSpec = PropSpec {
    id: "C11",
    level: "exploration",
    rule: "Cases = (tag content, mode XML/HTML, duplicate checking on/off). Exhaustive: every content 't' + w for all w of length <= N over {space, tab, '=', '\"', ''', 'a', 'b', '/'} in all 4 modes. Random: generated lists of 1-6 attributes with every quote/spacing variant, values containing whitespace, '=', the other quote and '>', with injected faults (missing '=', missing value, unquoted value, unterminated quote, repeated key), including errors after errors and intact attributes behind a bad one. The item sequence of the real iterator (key bytes, value bytes, error variant with positions) must equal R_attr's, the iterator must return None forever after the first None and yield at most len+1 items. Non-trivial = the content has at least one '=' or an error item.",
    assumptions: &["R_attr encodes the recovery points documented on AttrError (src/events/attributes.rs:381-458): after Duplicated the '=' and the complete value are skipped"],
    required: &["items.ok", "items.ExpectedEq", "items.ExpectedValue", "items.UnquotedValue", "items.ExpectedQuote", "items.Duplicated", "recovered_then_intact", "dup.skipped_ws_in_value", "dup.skipped_other_quote", "dup.skipped_spaces_around_eq", "modes_seen_all4", "via_bytes_start"],
    run,
    replay,
    thorough_layers: &[("fuzz", 30)],
    quick_layers: &[],
    post: Some(post),
};

fn post(c: &mut std::collections::BTreeMap<String, u64>) {
    let n = (0..4).filter(|i| c.get(&format!("mode.{}", i)).copied().unwrap_or(0) > 0).count() as u64;
    c.insert("modes_seen_all4".into(), (n == 4) as u64);
}

#[derive(Default)]
pub struct Local {
    ok: u64,
    errs: [u64; 5],
    recovered: u64,
    stats: AttrStats,
    modes: [u64; 4],
    via_start: u64,
    err_after_err: u64,
    renamed: u64,
}

const ALPHA: &[u8] = b" \t=\"'ab/";

fn real_items(content: &str, pos: usize, html: bool, checks: bool, via_start: bool) -> Result<Vec<AItem>, String> {
    let base = content.as_ptr() as usize;
    let start;
    let mut it: Attributes = if via_start {
        start = BytesStart::from_content(content, pos);
        if html {
            start.html_attributes()
        } else {
            start.attributes()
        }
    } else if html {
        Attributes::html(content, pos)
    } else {
        Attributes::new(content, pos)
    };
    it.with_checks(checks);
    let mut out = Vec::new();
    let len = content.len();
    loop {
        // setting the switch again to the value it has is allowed at any time and changes nothing
        if (len + out.len()) % 2 == 0 {
            it.with_checks(checks);
        }
        match it.next() {
            None => break,
            Some(Ok(a)) => {
                // identify the ranges by content: search key/value as sub-slices via pointers
                let k = a.key.as_ref();
                let ks = k.as_ptr() as usize;
                let v: &[u8] = a.value.as_ref();
                let vs = v.as_ptr() as usize;
                // `via_start` borrows from the BytesStart's own Cow (same backing str when borrowed)
                let key = (ks.wrapping_sub(base), ks.wrapping_sub(base) + k.len());
                // a key-only attribute has an empty value that does not point into the content
                let inside = vs >= base && vs + v.len() <= base + len && !(v.is_empty() && !(vs >= base && vs <= base + len));
                let value = if inside { Some((vs - base, vs - base + v.len())) } else { None };
                out.push(AItem::Ok { key, value });
            }
            Some(Err(e)) => out.push(match e {
                AttrError::ExpectedEq(p) => AItem::ExpectedEq(p),
                AttrError::ExpectedValue(p) => AItem::ExpectedValue(p),
                AttrError::UnquotedValue(p) => AItem::UnquotedValue(p),
                AttrError::ExpectedQuote(p, q) => AItem::ExpectedQuote(p, q),
                AttrError::Duplicated(a, b) => AItem::Duplicated(a, b),
            }),
        }
        if out.len() > len + 1 {
            return Err(format!("the iterator yielded more than len+1 = {} items", len + 1));
        }
    }
    for _ in 0..3 {
        if it.next().is_some() {
            return Err("the iterator yielded Some after None".into());
        }
    }
    Ok(out)
}

/// The attributes of a start tag do not depend on its name: after `set_name` (on the still borrowed
/// event, as for an event that comes from a reader) the iteration gives the same keys, values and
/// errors, with the positions moved by the difference of the name lengths.
fn renamed_relation(content: &str, pos: usize, html: bool, checks: bool) -> Result<(), String> {
    #[derive(Debug, PartialEq)]
    enum It {
        Ok(Vec<u8>, Vec<u8>),
        Err(String),
    }
    fn collect(mut it: Attributes, shift: i64, limit: usize) -> Vec<It> {
        let mut out = Vec::new();
        while let Some(x) = it.next() {
            out.push(match x {
                Ok(a) => It::Ok(a.key.as_ref().to_vec(), a.value.as_ref().to_vec()),
                Err(AttrError::ExpectedEq(p)) => It::Err(format!("ExpectedEq({})", p as i64 - shift)),
                Err(AttrError::ExpectedValue(p)) => It::Err(format!("ExpectedValue({})", p as i64 - shift)),
                Err(AttrError::UnquotedValue(p)) => It::Err(format!("UnquotedValue({})", p as i64 - shift)),
                Err(AttrError::ExpectedQuote(p, q)) => It::Err(format!("ExpectedQuote({}, {})", p as i64 - shift, q)),
                Err(AttrError::Duplicated(a, b)) => It::Err(format!("Duplicated({}, {})", a as i64 - shift, b as i64 - shift)),
            });
            if out.len() > limit {
                break;
            }
        }
        out
    }
    let plain = BytesStart::from_content(content, pos);
    let mut it0 = if html { plain.html_attributes() } else { plain.attributes() };
    it0.with_checks(checks);
    let want = collect(it0, 0, content.len() + 2);
    for new_name in ["n", "a-much-longer-name-than-before"] {
        if new_name.len() == pos {
            continue;
        }
        let mut renamed = BytesStart::from_content(content, pos);
        renamed.set_name(new_name.as_bytes());
        let mut it1 = if html { renamed.html_attributes() } else { renamed.attributes() };
        it1.with_checks(checks);
        let got = collect(it1, new_name.len() as i64 - pos as i64, content.len() + 2);
        if got != want {
            let i = (0..want.len().max(got.len())).find(|&i| want.get(i) != got.get(i)).unwrap_or(0);
            return Err(format!(
                "after set_name({:?}) on the start tag the attribute iteration differs at item {}: {:?} instead of {:?}",
                new_name,
                i,
                got.get(i),
                want.get(i)
            ));
        }
    }
    Ok(())
}

fn show_item(c: &[u8], i: &AItem) -> String {
    match i {
        AItem::Ok { key, value } => match value {
            Some(v) => format!("{}={:?}@{}..{}", show(&c[key.0.min(c.len())..key.1.min(c.len())]), show(&c[v.0.min(c.len())..v.1.min(c.len())]), key.0, v.1),
            None => format!("{}(no value)@{}", show(&c[key.0.min(c.len())..key.1.min(c.len())]), key.0),
        },
        other => format!("{:?}", other),
    }
}

/// keys and values are compared as ranges into the tag content; a key-only (HTML) attribute is
/// reported by the real iterator with an empty value that does not point into the content
fn same(_c: &[u8], a: &AItem, b: &AItem) -> bool {
    match (a, b) {
        (AItem::Ok { key: k1, value: v1 }, AItem::Ok { key: k2, value: v2 }) => {
            k1 == k2
                && match (v1, v2) {
                    (Some(x), Some(y)) => x == y,
                    (None, None) => true,
                    (Some(x), None) | (None, Some(x)) => x.0 == x.1,
                }
        }
        _ => a == b,
    }
}

pub fn check(content: &[u8], pos: usize, html: bool, checks: bool, via_start: bool, loc: &mut Local) -> Result<(), String> {
    let s = std::str::from_utf8(content).map_err(|_| "content is not UTF-8 (harness generator error)".to_string())?;
    let real = real_items(s, pos, html, checks, via_start)?;
    if via_start && pos <= s.len() && s.is_char_boundary(pos) {
        renamed_relation(s, pos, html, checks)?;
        loc.renamed += 1;
    }
    let model = parse(content, pos, html, checks, &mut loc.stats);
    let n = real.len().max(model.len());
    for i in 0..n {
        let (r, m) = (real.get(i), model.get(i));
        let eq = match (r, m) {
            (Some(r), Some(m)) => same(content, r, m),
            _ => false,
        };
        if !eq {
            return Err(format!(
                "item {} ({} mode, duplicate checks {}): iterator yielded {} but the attribute grammar / documented recovery gives {}",
                i,
                if html { "HTML" } else { "XML" },
                if checks { "on" } else { "off" },
                r.map(|x| show_item(content, x)).unwrap_or_else(|| "None (end)".into()),
                m.map(|x| show_item(content, x)).unwrap_or_else(|| "None (end)".into())
            ));
        }
    }
    // statistics
    let mut prev_err = false;
    let mut pending_recovery = false;
    for it in &real {
        match it {
            AItem::Ok { .. } => {
                loc.ok += 1;
                if pending_recovery {
                    loc.recovered += 1;
                    pending_recovery = false;
                }
                prev_err = false;
            }
            e => {
                let idx = match e {
                    AItem::ExpectedEq(_) => 0,
                    AItem::ExpectedValue(_) => 1,
                    AItem::UnquotedValue(_) => 2,
                    AItem::ExpectedQuote(_, _) => 3,
                    _ => 4,
                };
                loc.errs[idx] += 1;
                if prev_err {
                    loc.err_after_err += 1;
                }
                prev_err = true;
                pending_recovery = true;
            }
        }
    }
    Ok(())
}

fn case_json(content: &[u8], pos: usize, html: bool, checks: bool, via_start: bool) -> Value {
    json!({"content": input_json(content), "pos": pos, "html": html, "checks": checks, "via_bytes_start": via_start})
}

fn run_case(ctx: &mut Ctx, loc: &mut Local, content: &[u8], pos: usize, html: bool, checks: bool, via_start: bool) -> bool {
    ctx.journal(|| case_json(content, pos, html, checks, via_start));
    let h = H::new().bytes(content).u64(pos as u64).u64(html as u64 * 2 + checks as u64).finish();
    loc.modes[html as usize * 2 + checks as usize] += 1;
    if via_start {
        loc.via_start += 1;
    }
    let errs_before: u64 = loc.errs.iter().sum();
    let r = guarded(|| check(content, pos, html, checks, via_start, loc));
    let r = match r {
        Ok(r) => r,
        Err(p) => Err(p),
    };
    let errs_after: u64 = loc.errs.iter().sum();
    ctx.eval(h, content.contains(&b'=') || errs_after > errs_before);
    if let Err(d) = r {
        ctx.violation(case_json(content, pos, html, checks, via_start), d);
        return !ctx.full();
    }
    ctx.sample(|| json!({"content": show(content), "html": html, "checks": checks}));
    true
}

fn gen_list(r: &mut Rng) -> Vec<u8> {
    let mut out = b"tag".to_vec();
    let keys = ["a", "b", "key", "k2", "x:y", "a", "=k", "a"];
    let vals = ["v", "", " ", "a b", "x=y", ">", "c='3", "d=\"4", "  ", "\t", "é", "/"];
    let n = 1 + r.below(6);
    // now and then a key of 63..=130 bytes, used more than once in the same tag (the duplicate check
    // must not depend on the length of the name), and a long value
    let long_key: String = if r.chance(1, 12) { "k".repeat([63, 64, 65, 127, 128, 130][r.below(6)]) } else { String::new() };
    let long_val: String = if r.chance(1, 16) { "v ".repeat([16, 32, 33, 64, 100][r.below(5)]) } else { String::new() };
    for _ in 0..n {
        out.extend_from_slice(r.pick(&[" ", "  ", "\t", "\n", " \t ", "\r", "\r\n", "\r\n\t"]).as_bytes());
        let k = if !long_key.is_empty() && r.chance(2, 3) { long_key.as_str() } else { *r.pick(&keys) };
        let v = if !long_val.is_empty() && r.bool() { long_val.as_str() } else { *r.pick(&vals) };
        let sp1 = *r.pick(&["", "", " ", "  ", "\r"]);
        let sp2 = *r.pick(&["", "", " ", "\t", "\r\n"]);
        match r.below(12) {
            0 => {
                // missing '='
                out.extend_from_slice(k.as_bytes());
            }
            1 => {
                // missing value
                out.extend_from_slice(k.as_bytes());
                out.extend_from_slice(sp1.as_bytes());
                out.push(b'=');
            }
            2 => {
                // unquoted
                out.extend_from_slice(k.as_bytes());
                out.extend_from_slice(sp1.as_bytes());
                out.push(b'=');
                out.extend_from_slice(sp2.as_bytes());
                out.extend_from_slice(r.pick(&["v", "v1", "x\"y", "x'y", "a=b"]).as_bytes());
            }
            3 => {
                // unterminated
                out.extend_from_slice(k.as_bytes());
                out.push(b'=');
                out.push(if r.bool() { b'"' } else { b'\'' });
                out.extend_from_slice(v.as_bytes());
            }
            _ => {
                out.extend_from_slice(k.as_bytes());
                out.extend_from_slice(sp1.as_bytes());
                out.push(b'=');
                out.extend_from_slice(sp2.as_bytes());
                let q = if r.bool() { b'"' } else { b'\'' };
                out.push(q);
                let v: Vec<u8> = v.bytes().filter(|b| *b != q).collect();
                out.extend_from_slice(&v);
                out.push(q);
            }
        }
    }
    if r.chance(1, 4) {
        out.extend_from_slice(r.pick(&[" ", "/", " /", "  ", "\r", "\r\n"]).as_bytes());
    }
    out
}

fn run(ctx: &mut Ctx) {
    let mut loc = Local::default();
    let t = ctx.tier;
    let n = t.pick(8u32, 9u32);
    let total = crate::gen::count_upto(ALPHA.len() as u64, n);
    let mut digits = Vec::new();
    let mut content = Vec::new();
    let mut i = ctx.shard as u64;
    'outer: while i < total {
        crate::gen::decode_index(i, ALPHA.len() as u64, &mut digits);
        content.clear();
        content.push(b't');
        for d in &digits {
            content.push(ALPHA[*d as usize]);
        }
        for mode in 0..4 {
            if !run_case(ctx, &mut loc, &content, 1, mode & 2 != 0, mode & 1 != 0, i % 64 == 0) {
                break 'outer;
            }
        }
        i += ctx.nshards as u64;
    }
    ctx.exhaustive(&format!(
        "all {} tag contents 't'+w, |w| <= {}, over the 8 attribute-significant bytes, x XML/HTML x duplicate checks on/off",
        total, n
    ));
    let mut r = ctx.rng(6);
    let n = ctx.scaled(t.pick(2_000_000, 20_000_000)) / ctx.nshards as u64;
    for k in 0..n {
        let c = gen_list(&mut r);
        for mode in 0..4 {
            if !run_case(ctx, &mut loc, &c, 3, mode & 2 != 0, mode & 1 != 0, k % 4 == 0) {
                return flush(ctx, &loc);
            }
        }
    }
    flush(ctx, &loc);
}

fn flush(ctx: &mut Ctx, loc: &Local) {
    ctx.add("items.ok", loc.ok);
    for (i, n) in ["ExpectedEq", "ExpectedValue", "UnquotedValue", "ExpectedQuote", "Duplicated"].iter().enumerate() {
        ctx.add(&format!("items.{}", n), loc.errs[i]);
    }
    ctx.add("recovered_then_intact", loc.recovered);
    ctx.add("errors_after_errors", loc.err_after_err);
    ctx.add("dup.skipped_ws_in_value", loc.stats.dup_skipped_ws_in_value);
    ctx.add("dup.skipped_other_quote", loc.stats.dup_skipped_other_quote);
    ctx.add("dup.skipped_spaces_around_eq", loc.stats.dup_skipped_spaces_around_eq);
    ctx.add("dup.skipped_unquoted", loc.stats.dup_skipped_unquoted);
    for i in 0..4 {
        ctx.add(&format!("mode.{}", i), loc.modes[i]);
    }
    ctx.add("via_bytes_start", loc.via_start);
    ctx.add("renamed_start_tag_relations", loc.renamed);
}

fn replay(case: &Value, _ctx: &mut Ctx) -> Option<String> {
    if let Some(h) = case.get("fuzz").and_then(|v| v.as_str()) {
        return fuzz_entry(&crate::ctx::unhex(h)).err();
    }
    let content = input_from_json(&case["content"]);
    let mut loc = Local::default();
    check(
        &content,
        case["pos"].as_u64().unwrap_or(0) as usize,
        case["html"].as_bool().unwrap_or(false),
        case["checks"].as_bool().unwrap_or(true),
        case["via_bytes_start"].as_bool().unwrap_or(false),
        &mut loc,
    )
    .err()
}

/// libFuzzer entry: byte 0 = mode bits, rest = tag content (ASCII part only)
pub fn fuzz_entry(data: &[u8]) -> Result<(), String> {
    if data.is_empty() {
        return Ok(());
    }
    let content: Vec<u8> = std::iter::once(b't').chain(data[1..].iter().map(|b| b & 0x7F)).collect();
    let mut loc = Local::default();
    check(&content, 1, data[0] & 1 == 1, data[0] & 2 == 2, data[0] & 4 == 4, &mut loc)
}
