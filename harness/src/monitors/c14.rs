//! C14 — deserializing from a string and from any reader gives the same result.

use super::c07::{all_targets, mutate_tokens, soup};
use crate::ctx::{guarded, Ctx};
use crate::family::*;
use crate::rng::{Rng, H};
use crate::runner::PropSpec;
use crate::sources::{cuts_for_piece, ChunkedRead};
use serde_json::{json, Value};
use std::collections::BTreeMap;

pub const SPEC: PropSpec = PropSpec {
    id: "C14",
    level: "exploration",
    rule: "Cases = (UTF-8 document not declaring another encoding, owned target type, cut set). Documents: serializations of generated family values (36 serializer configurations), their token-level mutants (so that error paths, unknown-field skipping, look-ahead, xsi:nil, CDATA/text merging, DOCTYPE are reached), truncations and token soup. For each case from_str::<T>(doc) is compared with from_reader::<_, T>(ChunkedRead) for piece sizes 1, 2, 3, 7, whole and 3 random cut sets (first piece >= 4 bytes for BOM inputs): both must fail, or both succeed with equal values. The overlapped-lists replay buffer is active. Non-trivial = the document contains at least one start tag and at least one cut.",
    assumptions: &["ChunkedRead implements BufRead correctly", "error values are not compared, only Ok/Err agreement and equality of Ok values", "for inputs that start with a byte-order mark the first piece has at least 4 bytes: the reader documents that the BOM / encoding sniff looks at the first piece only (the exception C02 states)"],
    required: &["agree.ok", "agree.err", "docs.unknown_element", "docs.xsi_nil", "docs.xsi_nil_after_skipped_element_declaring_xsi", "docs.cdata", "docs.doctype", "docs.mutated", "docs.valid", "targets_seen_all", "cutsets"],
    run,
    replay,
    thorough_layers: &[("novl", 50)],
    quick_layers: &[("novl", 50)],
    post: Some(post),
};

fn post(c: &mut BTreeMap<String, u64>) {
    let total = all_targets().len() as u64;
    let seen = c.iter().filter(|(k, v)| k.starts_with("target.") && **v > 0).count() as u64;
    c.insert("targets_seen".into(), seen);
    c.insert("targets_seen_all".into(), (seen >= total) as u64);
}

#[derive(Default)]
struct Local {
    ok: u64,
    err: u64,
    unknown: u64,
    nil: u64,
    scope_probe: u64,
    cdata: u64,
    doctype: u64,
    mutated: u64,
    valid: u64,
    cutsets: u64,
    many_runs: u64,
    many_ok_values: u64,
    targets: BTreeMap<&'static str, u64>,
}

pub fn declares_other_encoding(doc: &str) -> bool {
    let mut rest = doc;
    while let Some(i) = rest.find("encoding") {
        let tail = &rest[i + 8..];
        let t = tail.trim_start_matches(|c: char| c.is_whitespace() || c == '=');
        let ok = t.starts_with("\"utf-8\"") || t.starts_with("\"UTF-8\"") || t.starts_with("'utf-8'") || t.starts_with("'UTF-8'");
        if !ok {
            return true;
        }
        rest = tail;
    }
    false
}

pub fn compare(ops: &TypeOps, doc: &str, cuts: &[usize]) -> Result<bool, String> {
    let a = guarded(|| (ops.de_str)(doc, None)).map_err(|p| format!("from_str panicked: {}", p))?;
    let b = guarded(|| (ops.de_reader)(ChunkedRead::new(doc.as_bytes(), cuts.to_vec()))).map_err(|p| format!("from_reader panicked: {}", p))?;
    match (&a, &b) {
        (Ok(x), Ok(y)) => {
            if x.eq_val(y.as_ref()) {
                Ok(true)
            } else {
                Err(format!("{}: from_str gives {} but from_reader (cuts {:?}) gives {}", ops.name, x.dbg(), &cuts[..cuts.len().min(12)], y.dbg()))
            }
        }
        (Err(_), Err(_)) => Ok(false),
        (Ok(x), Err(e)) => Err(format!("{}: from_str gives Ok({}) but from_reader (cuts {:?}) fails with {}: {}", ops.name, x.dbg(), &cuts[..cuts.len().min(12)], e.kind, e.msg)),
        (Err(e), Ok(y)) => Err(format!("{}: from_str fails with {}: {} but from_reader (cuts {:?}) gives Ok({})", ops.name, e.kind, e.msg, &cuts[..cuts.len().min(12)], y.dbg())),
    }
}

/// Several values in a row from one deserializer (`Deserializer::from_str` / `from_reader` driven by hand)
/// over documents written one after the other, until the first error: the two entry points must agree on
/// every result (so also on where the first error is).
pub fn compare_many(ops: &TypeOps, docs: &str, n: usize, cuts: &[usize]) -> Result<u64, String> {
    let a = guarded(|| (ops.de_str_many)(docs, n)).map_err(|p| format!("Deserializer::from_str panicked: {}", p))?;
    let b = guarded(|| (ops.de_reader_many)(ChunkedRead::new(docs.as_bytes(), cuts.to_vec()), n)).map_err(|p| format!("Deserializer::from_reader panicked: {}", p))?;
    let mut oks = 0;
    if a.len() != b.len() {
        return Err(format!("{}: from one deserializer from_str gives {} result(s) up to its first error but from_reader (cuts {:?}) gives {}", ops.name, a.len(), &cuts[..cuts.len().min(12)], b.len()));
    }
    for (i, (x, y)) in a.iter().zip(b.iter()).enumerate() {
        match (x, y) {
            (Ok(x), Ok(y)) if x.eq_val(y.as_ref()) => oks += 1,
            (Err(_), Err(_)) => {}
            (Ok(x), Ok(y)) => return Err(format!("{}: value {} of {} from one deserializer: from_str gives {} but from_reader (cuts {:?}) gives {}", ops.name, i, n, x.dbg(), &cuts[..cuts.len().min(12)], y.dbg())),
            (Ok(x), Err(e)) => return Err(format!("{}: value {} of {} from one deserializer: from_str gives Ok({}) but from_reader (cuts {:?}) fails with {}: {}", ops.name, i, n, x.dbg(), &cuts[..cuts.len().min(12)], e.kind, e.msg)),
            (Err(e), Ok(y)) => return Err(format!("{}: value {} of {} from one deserializer: from_str fails with {}: {} but from_reader (cuts {:?}) gives Ok({})", ops.name, i, n, e.kind, e.msg, &cuts[..cuts.len().min(12)], y.dbg())),
        }
    }
    Ok(oks)
}

fn run_doc(ctx: &mut Ctx, loc: &mut Local, all: &[TypeOps], doc: &str, own: usize, r: &mut Rng) -> bool {
    if declares_other_encoding(doc) {
        return true;
    }
    if doc.contains("<unknown") {
        loc.unknown += 1;
    }
    if doc.contains("xsi:nil") {
        loc.nil += 1;
        if doc.contains("<unknown xmlns:xsi=") || doc.contains("<unknown><v xmlns:xsi=") {
            loc.scope_probe += 1;
        }
    }
    if doc.contains("<![CDATA[") {
        loc.cdata += 1;
    }
    if doc.contains("<!DOCTYPE") {
        loc.doctype += 1;
    }
    let has_start = doc.as_bytes().windows(2).any(|w| w[0] == b'<' && (w[1].is_ascii_alphabetic() || w[1] == b'_'));
    let fmin = if doc.starts_with('\u{FEFF}') { 4 } else { 0 };
    let mut targets = vec![own];
    targets.push(r.below(all.len()));
    for ti in targets {
        let ops = &all[ti];
        *loc.targets.entry(ops.name).or_insert(0) += 1;
        let mut cutsets: Vec<Vec<usize>> = vec![];
        for piece in [1usize, 2, 3, 7] {
            cutsets.push(cuts_for_piece(doc.len(), piece, fmin));
        }
        cutsets.push(vec![]);
        for _ in 0..3 {
            let mut cuts = Vec::new();
            let mut p = fmin.max(1 + r.below(5));
            while p < doc.len() {
                cuts.push(p);
                p += 1 + r.below(9);
            }
            cutsets.push(cuts);
        }
        for cuts in cutsets {
            let case = json!({"document": doc, "target": ops.name, "cuts": cuts});
            ctx.journal(|| case.clone());
            let mut h = H::new().str(doc).str(ops.name);
            for c in &cuts {
                h = h.u64(*c as u64);
            }
            ctx.eval(h.finish(), has_start && !cuts.is_empty());
            loc.cutsets += 1;
            match compare(ops, doc, &cuts) {
                Ok(true) => loc.ok += 1,
                Ok(false) => loc.err += 1,
                Err(d) => {
                    ctx.violation(case, d);
                    if ctx.full() {
                        return false;
                    }
                }
            }
        }
    }
    // the document twice (and a third read past the end) from one deserializer
    if !doc.starts_with('\u{FEFF}') && r.chance(1, 4) {
        let sep = *r.pick(&["", "\n", " <!--between--> ", "<?pi?>"]);
        let docs = format!("{}{}{}", doc, sep, doc);
        let ops = &all[own];
        for piece in [0usize, 1, 5] {
            let cuts = if piece == 0 { vec![] } else { cuts_for_piece(docs.len(), piece, 0) };
            let case = json!({"document": docs, "target": ops.name, "cuts": cuts, "values": 3});
            ctx.journal(|| case.clone());
            match compare_many(ops, &docs, 3, &cuts) {
                Ok(n) => {
                    loc.many_runs += 1;
                    loc.many_ok_values += n;
                }
                Err(d) => {
                    ctx.violation(case, d);
                    if ctx.full() {
                        return false;
                    }
                }
            }
        }
    }
    ctx.sample(|| json!({"document": doc.chars().take(200).collect::<String>(), "own_type": all[own].name}));
    true
}

fn run(ctx: &mut Ctx) {
    let mut loc = Local::default();
    let t = ctx.tier;
    let all = all_targets();
    let fam = family();
    let ovl = ovl_family();
    let opt = optional_family();
    let cfgs = SerCfg::all();
    let mut r = ctx.rng(14);
    let mut mloc = super::c07::Local::default();
    let n = ctx.scaled(t.pick(80_000, 4_000_000)) / ctx.nshards as u64;
    let mut prev = String::from("<s_inner a_id=\"1\"><t_v>v</t_v></s_inner>");
    'outer: for k in 0..n {
        let (own, doc) = super::c07::base_doc(&mut r, &fam, &ovl, &opt, &cfgs);
        loc.valid += 1;
        if !run_doc(ctx, &mut loc, &all, &doc, own, &mut r) {
            break 'outer;
        }
        for _ in 0..2 {
            let m = mutate_tokens(&mut r, &doc, &prev, &mut mloc);
            loc.mutated += 1;
            if !run_doc(ctx, &mut loc, &all, &m, own, &mut r) {
                break 'outer;
            }
        }
        if k % 4 == 0 {
            let c = r.below(doc.len().max(1));
            if doc.is_char_boundary(c) && !run_doc(ctx, &mut loc, &all, &doc[..c], own, &mut r) {
                break 'outer;
            }
            let s = soup(&mut r);
            let o = r.below(all.len());
            if !run_doc(ctx, &mut loc, &all, &s, o, &mut r) {
                break 'outer;
            }
        }
        prev = doc;
    }
    ctx.add("agree.ok", loc.ok);
    ctx.add("agree.err", loc.err);
    ctx.add("docs.unknown_element", loc.unknown);
    ctx.add("docs.xsi_nil", loc.nil);
    ctx.add("docs.xsi_nil_after_skipped_element_declaring_xsi", loc.scope_probe);
    ctx.add("docs.cdata", loc.cdata);
    ctx.add("docs.doctype", loc.doctype);
    ctx.add("docs.mutated", loc.mutated);
    ctx.add("docs.valid", loc.valid);
    ctx.add("cutsets", loc.cutsets);
    ctx.add("runs_reading_three_values_from_one_deserializer", loc.many_runs);
    ctx.add("values_agreeing_ok_in_those_runs", loc.many_ok_values);
    for (k, v) in &loc.targets {
        ctx.add(&format!("target.{}", k), *v);
    }
}

fn replay(case: &Value, _ctx: &mut Ctx) -> Option<String> {
    let all = all_targets();
    let ops = all.iter().find(|o| o.name == case["target"].as_str().unwrap_or(""))?;
    let cuts: Vec<usize> = case["cuts"].as_array().map(|a| a.iter().map(|x| x.as_u64().unwrap_or(0) as usize).collect()).unwrap_or_default();
    if let Some(n) = case["values"].as_u64() {
        return compare_many(ops, case["document"].as_str().unwrap_or(""), n as usize, &cuts).err();
    }
    compare(ops, case["document"].as_str().unwrap_or(""), &cuts).err()
}
