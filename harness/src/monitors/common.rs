//! Shared workload driver for the reader monitors (C01, C03, C08, C16, ...).

use crate::ctx::Ctx;
use crate::gen::*;
use crate::rng::Rng;

#[derive(Clone, Copy, Debug, PartialEq, Eq)]
pub enum Src {
    Bytes,
    Tokens,
    Pool,
    Grammar,
    Mutant,
    Trunc,
    Corpus,
    CorpusTrunc,
    Random,
    /// lengths, counts and depths at buffer / chunk / counter sizes (gen::scale_docs)
    Scale,
}
impl Src {
    pub fn name(self) -> &'static str {
        match self {
            Src::Bytes => "bytes",
            Src::Tokens => "tokens",
            Src::Pool => "pool",
            Src::Grammar => "grammar",
            Src::Mutant => "mutant",
            Src::Trunc => "truncation",
            Src::Corpus => "corpus",
            Src::CorpusTrunc => "corpus_truncation",
            Src::Random => "random",
            Src::Scale => "scale",
        }
    }
    pub fn exhaustive(self) -> bool {
        matches!(self, Src::Bytes | Src::Tokens | Src::Pool)
    }
}

#[derive(Clone, Debug)]
pub struct Plan {
    /// all strings up to this length over MARKUP13 (0 = off)
    pub bytes_n: u32,
    /// all atom sequences up to this length (0 = off)
    pub tokens_k: u32,
    pub pool: bool,
    pub grammar_docs: u64,
    pub mutants_per_doc: u32,
    /// truncate each grammar document at every offset
    pub truncate_all: bool,
    pub bom_share: u32, // one in N grammar docs gets a BOM (0 = never)
    pub corpus: bool,
    pub corpus_truncs: u32,
    pub corpus_max_len: usize,
    pub random_bytes: u64,
    pub random_len: usize,
    pub random_atoms: u64,
    /// scale documents up to this size parameter (0 = off)
    pub scale_max: usize,
}
impl Default for Plan {
    fn default() -> Self {
        Plan {
            bytes_n: 0,
            tokens_k: 0,
            pool: false,
            grammar_docs: 0,
            mutants_per_doc: 0,
            truncate_all: false,
            bom_share: 0,
            corpus: false,
            corpus_truncs: 0,
            corpus_max_len: 1 << 20,
            random_bytes: 0,
            random_len: 64,
            random_atoms: 0,
            scale_max: 0,
        }
    }
}

/// Drives `f` over every input of the plan that belongs to this shard.
/// `f` returns false to stop early (violation budget exhausted).
pub fn for_each_input(ctx: &mut Ctx, plan: &Plan, f: &mut dyn FnMut(&mut Ctx, &[u8], Src, &mut Rng) -> bool) {
    // sanitizer layers run a scaled-down workload: shorter enumerations, no large corpus files
    let mut plan = plan.clone();
    if ctx.scale_pct <= 2 {
        plan.bytes_n = plan.bytes_n.min(3);
        plan.tokens_k = plan.tokens_k.min(2);
        plan.corpus_max_len = plan.corpus_max_len.min(2048);
        plan.truncate_all = false;
    } else if ctx.scale_pct < 100 {
        plan.bytes_n = plan.bytes_n.saturating_sub(2).max(plan.bytes_n.min(3));
        plan.tokens_k = plan.tokens_k.saturating_sub(1).max(plan.tokens_k.min(2));
        plan.corpus_max_len = plan.corpus_max_len.min(64 << 10);
    }
    // interpreter layers (Miri, valgrind): fixed small per-shard budgets for the random parts
    let tiny = ctx.scale_pct <= 2;
    let budget = |ctx: &Ctx, planned: u64, per_shard: u64| -> u64 {
        if planned == 0 {
            0
        } else if tiny {
            per_shard
        } else {
            ctx.scaled(planned) / ctx.nshards as u64 + 1
        }
    };
    let plan = &plan;
    let mut rng = ctx.rng(1);
    let mut digits = Vec::new();
    let mut buf = Vec::new();
    if plan.bytes_n > 0 {
        let total = count_upto(MARKUP13.len() as u64, plan.bytes_n);
        let mut i = ctx.shard as u64;
        while i < total {
            decode_index(i, MARKUP13.len() as u64, &mut digits);
            bytes_from_digits(&digits, MARKUP13, &mut buf);
            if !f(ctx, &buf, Src::Bytes, &mut rng) {
                return;
            }
            i += ctx.nshards as u64;
        }
        ctx.exhaustive(&format!(
            "all {} byte strings of length <= {} over the 13 markup bytes {:?}",
            total,
            plan.bytes_n,
            String::from_utf8_lossy(MARKUP13)
        ));
    }
    if plan.tokens_k > 0 {
        let total = count_upto(ATOMS.len() as u64, plan.tokens_k);
        let mut i = ctx.shard as u64;
        while i < total {
            decode_index(i, ATOMS.len() as u64, &mut digits);
            atoms_from_digits(&digits, ATOMS, &mut buf);
            if !f(ctx, &buf, Src::Tokens, &mut rng) {
                return;
            }
            i += ctx.nshards as u64;
        }
        ctx.exhaustive(&format!(
            "all {} sequences of <= {} atoms over {} markup atoms",
            total,
            plan.tokens_k,
            ATOMS.len()
        ));
    }
    if plan.pool {
        for (i, d) in TERMINATOR_DOCS.iter().enumerate() {
            if ctx.owns(i as u64) {
                if !f(ctx, d.as_bytes(), Src::Pool, &mut rng) {
                    return;
                }
            }
        }
    }
    if plan.grammar_docs > 0 {
        let n = budget(ctx, plan.grammar_docs, 5);
        let opts = DocOpts::default();
        let mut prev: Vec<u8> = Vec::new();
        for k in 0..n {
            let mut o = opts.clone();
            o.bom = plan.bom_share > 0 && rng.below(plan.bom_share as usize) == 0;
            o.max_depth = 1 + rng.below(5);
            o.max_children = 1 + rng.below(5);
            let doc = gen_doc(&mut rng, &o);
            if !f(ctx, &doc, Src::Grammar, &mut rng) {
                return;
            }
            for m in 0..plan.mutants_per_doc {
                let mut d = if m % 3 == 2 && !prev.is_empty() {
                    splice(&mut rng, &doc, &prev)
                } else {
                    doc.clone()
                };
                mutate(&mut rng, &mut d);
                if !f(ctx, &d, Src::Mutant, &mut rng) {
                    return;
                }
            }
            if plan.truncate_all {
                // every offset for every 4th document, 8 sampled offsets otherwise
                if k % 4 == 0 {
                    for cut in 0..doc.len() {
                        if !f(ctx, &doc[..cut], Src::Trunc, &mut rng) {
                            return;
                        }
                    }
                } else {
                    for _ in 0..8 {
                        let cut = rng.below(doc.len().max(1));
                        if !f(ctx, &doc[..cut], Src::Trunc, &mut rng) {
                            return;
                        }
                    }
                }
            }
            prev = doc;
        }
    }
    if plan.corpus {
        let corpus = load_corpus(plan.corpus_max_len);
        ctx.add("corpus_files_seen", 0);
        for (i, (_name, data)) in corpus.iter().enumerate() {
            if !ctx.owns(i as u64) || (tiny && i >= ctx.nshards as usize) {
                continue;
            }
            ctx.count("corpus_files_seen");
            if !f(ctx, data, Src::Corpus, &mut rng) {
                return;
            }
            for _ in 0..plan.corpus_truncs {
                let cut = rng.below(data.len().max(1));
                if !f(ctx, &data[..cut], Src::CorpusTrunc, &mut rng) {
                    return;
                }
            }
        }
    }
    if plan.scale_max > 0 {
        let max = if tiny { plan.scale_max.min(64) } else if ctx.scale_pct < 100 { plan.scale_max.min(1024) } else { plan.scale_max };
        for (_kind, _n, d) in scale_docs(ctx.shard, ctx.nshards, ctx.seed, max) {
            ctx.count("scale_documents");
            if !f(ctx, &d, Src::Scale, &mut rng) {
                return;
            }
        }
    }
    if plan.random_bytes > 0 {
        let n = budget(ctx, plan.random_bytes, 20);
        for _ in 0..n {
            let d = random_bytes(&mut rng, plan.random_len);
            if !f(ctx, &d, Src::Random, &mut rng) {
                return;
            }
        }
    }
    if plan.random_atoms > 0 {
        let n = budget(ctx, plan.random_atoms, 15);
        for _ in 0..n {
            let d = random_atoms(&mut rng, 12);
            if !f(ctx, &d, Src::Random, &mut rng) {
                return;
            }
        }
    }
}

pub fn input_json(input: &[u8]) -> serde_json::Value {
    serde_json::json!({"hex": crate::ctx::hex(input), "show": crate::ctx::show(input)})
}
pub fn input_from_json(v: &serde_json::Value) -> Vec<u8> {
    crate::ctx::unhex(v["hex"].as_str().unwrap_or(""))
}
