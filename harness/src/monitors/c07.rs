//! C07 — deserialization is total: any input gives a value or an error, never a panic.

use crate::ctx::{guarded, Ctx};
use crate::family::*;
use crate::obs::CFG_NEUTRAL;
use crate::refmodel::tok::tokenize;
use crate::rng::{Rng, H};
use crate::runner::PropSpec;
use crate::sources::{cuts_for_piece, ChunkedRead};
use serde_json::{json, Value};
use std::collections::BTreeMap;

pub const SPEC: PropSpec = PropSpec {
    id: "C07",
    level: "exploration",
    rule: "Cases = (document bytes, target type, entry point from_str / from_reader with piece size 1 or whole). Documents: serializations of generated family values under token-level mutation (insert / delete / duplicate / swap / splice of start tags, end tags, empty tags, text, whitespace, CDATA, comments, DOCTYPE between any tokens incl. between two texts, PIs, XML declarations, valid / unknown / zero / unterminated entity and character references, xsi:nil with and without its namespace declaration, duplicate and malformed attributes, BOM), truncation at every byte, token soup with no valid base, and documents in a legacy encoding (windows-1251, koi8-r) with element and attribute names outside ASCII, intact and with one byte damaged. Targets: every family type, every overlapped-list shape, the optional-content types and about 110 further targets (String, numbers, bool, char, unit, tuples, top-level compositions of Option / Vec / unit / maps, HashMap/BTreeMap with typed keys, IgnoredAny, one-field holders with any kind of type in $text / $value / attribute / element position, $text variants of every kind, flatten, untagged / internally / adjacently tagged enums, serde_json::Value, byte buffers, tuple structs); the evidence lists them under targets.*. Each worker caps its address space, so a case that allocates without bound ends as a reported worker death. Every call runs under catch_unwind; a panic is a violation (signature = file:line + message); a case that makes no progress for 30 s (and again 90 s when re-run alone in journal mode) is a violation; Ok and Err are both fine. Non-trivial = the document reached the deserializer with at least one start tag.",
    assumptions: &["documents are valid UTF-8 strings for from_str (the API requires &str); from_reader additionally receives the same bytes", "termination is decided by the stall detector on logical progress (cases finished), not by a deadline on the whole run"],
    required: &["mutation.legacy_encoding_document", "docs_with_start_tag", "results.ok", "results.err", "entry.from_str", "entry.from_reader", "mutation.doctype_between_texts", "mutation.insert", "mutation.delete", "mutation.duplicate", "mutation.splice", "mutation.truncate", "mutation.soup", "mutation.xsi_nil_attr", "mutation.attr_added", "targets_seen_all"],
    run,
    replay,
    thorough_layers: &[("novl", 50), ("plain", 100), ("asan", 20), ("miri", 1), ("fuzz", 60)],
    quick_layers: &[("novl", 50)],
    post: Some(post),
};

fn post(c: &mut BTreeMap<String, u64>) {
    let total = all_targets().len() as u64;
    let seen = c.iter().filter(|(k, v)| k.starts_with("target.") && **v > 0).count() as u64;
    c.insert("targets_total".into(), total);
    c.insert("targets_seen".into(), seen);
    c.insert("targets_seen_all".into(), (seen >= total) as u64);
}

#[derive(Default)]
pub struct Local {
    with_start: u64,
    ok: u64,
    err: u64,
    from_str: u64,
    from_reader: u64,
    many: u64,
    with_limit: u64,
    many_values: u64,
    panics_after_err: u64,
    pub muts: BTreeMap<&'static str, u64>,
    targets: BTreeMap<&'static str, u64>,
    err_kinds: BTreeMap<&'static str, u64>,
}

pub const ATOMS: &[&str] = &[
    "<t_s>", "</t_s>", "<t_s/>", "<s_inner a_id=\"1\">", "</s_inner>", "<t_v>", "</t_v>", "<t_item>", "</t_item>", "<t_a>", "</t_a>", "<t_b>", "</t_b>", "<u_unit/>", "<u_br/>",
    "<t_em>", "</t_em>", "<s_struct a_x=\"1\">", "</s_struct>", "<t_new>", "</t_new>", "<unknown>", "</unknown>", "<unknown a=\"1\"/>", "<s_rec a_id=\"7\"><t_v>v</t_v></s_rec>",
    "text", "x", " ", "\n  ", "1", "true", "-1", "u_A", "<![CDATA[cd]]>", "<![CDATA[]]>", "<![CDATA[ ]]>", "<!--c-->", "<!---->", "<!DOCTYPE d>", "<!DOCTYPE d [<!ENTITY e \"v\">]>",
    "<!DOCTYPE>", "<?pi?>", "<?pi x?>", "<?xml version=\"1.0\"?>", "<?xml version=\"1.0\" encoding=\"utf-8\"?>", "&amp;", "&lt;", "&e;", "&bogus;", "&#0;", "&#65;", "&#x41;", "&#xD800;",
    "&#x41", "&", "&;", "<t_a xsi:nil=\"true\"/>", "<t_a xmlns:xsi=\"http://www.w3.org/2001/XMLSchema-instance\" xsi:nil=\"true\"/>",
    "<s_inner xmlns:xsi=\"http://www.w3.org/2001/XMLSchema-instance\" xsi:nil=\"true\" a_id=\"2\">", "<t_s a=\"1\" a=\"2\">", "<t_s a=1>", "<t_s a>", "<t_s a=\"1>", "<t_s =\"1\">",
    "</>", "<>", "< >", "</ t_s>", "<t_s", "<", ">", "]]>", "\u{FEFF}", "<$text>", "<@a/>", "<xml:x/>", "<a:b xmlns:a=\"u\"/>", "<t_pair>p</t_pair>", "<k_m>", "</k_m>", "<key>v</key>",
    // skipped elements that declare or re-bind the xsi prefix and have children of their own
    "<unknown xmlns:xsi=\"http://www.w3.org/2001/XMLSchema-instance\"><v/><w/></unknown>", "<unknown xmlns:xsi=\"http://www.w3.org/2001/XMLSchema-instance\"><v>t</v> </unknown>",
    "<unknown xmlns:xsi=\"u\"><v/></unknown>", "<unknown><v xmlns:xsi=\"http://www.w3.org/2001/XMLSchema-instance\"><w/></v>t</unknown>",
];

pub const ATTR_ATOMS: &[&str] = &[
    " xmlns:xsi=\"http://www.w3.org/2001/XMLSchema-instance\" xsi:nil=\"true\"",
    " xmlns:xsi=\"http://www.w3.org/2001/XMLSchema-instance\" xsi:nil=\"1\"",
    " xmlns:n=\"http://www.w3.org/2001/XMLSchema-instance\" n:nil=\"true\"",
    " xmlns:xsi=\"http://www.w3.org/2001/XMLSchema-instance\" xsi:nil=\"false\"",
    " xsi:nil=\"true\"",
    " nil=\"true\"",
    " xmlns:xsi=\"u\" xsi:nil=\"true\"",
    " a_k=\"dup\" a_k=\"dup\"",
    " a_id=\"300\"",
    " a_id=\"x\"",
    " zz=\"1\"",
    " xmlns=\"u\"",
    " xml:space=\"preserve\"",
    " a",
    " a=",
    " ='v'",
];

pub fn mutate_tokens(r: &mut Rng, doc: &str, other: &str, loc: &mut Local) -> String {
    let toks: Vec<(usize, usize)> = tokenize(doc.as_bytes(), CFG_NEUTRAL)
        .iter()
        .filter(|s| s.after > s.before)
        .map(|s| (s.before as usize, s.after as usize))
        .collect();
    let mut parts: Vec<String> = toks.iter().map(|(a, b)| String::from_utf8_lossy(&doc.as_bytes()[*a..*b]).into_owned()).collect();
    if parts.is_empty() {
        parts.push(doc.to_string());
    }
    let n = 1 + r.below(4);
    for _ in 0..n {
        match r.below(11) {
            9 => {
                // a skipped element that declares (or re-binds) xsi before a sibling whose xsi:nil depends
                // on what is in scope *there*: right after the root's start tag, and xsi:nil="true"
                // (without a declaration of its own) on a later start / empty tag
                let tags: Vec<usize> = (1..parts.len()).filter(|i| parts[*i].starts_with('<') && parts[*i].ends_with('>') && !parts[*i].starts_with("</") && !parts[*i].starts_with("<!") && !parts[*i].starts_with("<?")).collect();
                let root_ok = parts[0].starts_with('<') && parts[0].ends_with('>') && !parts[0].starts_with("</") && !parts[0].starts_with("<!") && !parts[0].starts_with("<?");
                if !tags.is_empty() && root_ok {
                    let i = tags[r.below(tags.len())];
                    let t = parts[i].clone();
                    let cut = if t.ends_with("/>") { t.len() - 2 } else { t.len() - 1 };
                    parts[i] = format!("{} xsi:nil=\"true\"{}", &t[..cut], &t[cut..]);
                    let probe = *r.pick(&ATOMS[ATOMS.len() - 4..]);
                    parts.insert(1, probe.to_string());
                    if r.bool() {
                        // ... with xsi properly bound on the root, so that a re-binding inside the skipped element matters
                        let t0 = parts[0].clone();
                        let c0 = if t0.ends_with("/>") { t0.len() - 2 } else { t0.len() - 1 };
                        parts[0] = format!("{} xmlns:xsi=\"http://www.w3.org/2001/XMLSchema-instance\"{}", &t0[..c0], &t0[c0..]);
                    }
                    *loc.muts.entry("mutation.scope_probe").or_insert(0) += 1;
                }
            }
            0 | 1 => {
                let i = r.below(parts.len() + 1);
                parts.insert(i, r.pick(ATOMS).to_string());
                *loc.muts.entry("mutation.insert").or_insert(0) += 1;
            }
            10 if r.bool() => {
                // another spelling of a value: booleans as 1 / 0, numbers with sign, zeros, exponent or blanks
                let texts: Vec<usize> = (0..parts.len()).filter(|i| !parts[*i].starts_with('<') && !parts[*i].trim().is_empty()).collect();
                if !texts.is_empty() {
                    let i = texts[r.below(texts.len())];
                    let t = parts[i].trim().to_string();
                    parts[i] = match t.as_str() {
                        "true" => r.pick(&["1", "True", "TRUE", " true "]).to_string(),
                        "false" => r.pick(&["0", "False", " false"]).to_string(),
                        _ if t.parse::<f64>().is_ok() => match r.below(6) {
                            0 => format!("+{}", t),
                            1 => format!("0{}", t),
                            2 => format!(" {} ", t),
                            3 => format!("{}e0", t),
                            4 => format!("{}.0", t),
                            _ => format!("{}\n", t),
                        },
                        _ => format!("{}\u{a0}", t),
                    };
                    *loc.muts.entry("mutation.other_spelling_of_a_value").or_insert(0) += 1;
                }
            }
            2 => {
                if parts.len() > 1 {
                    let i = r.below(parts.len());
                    parts.remove(i);
                    *loc.muts.entry("mutation.delete").or_insert(0) += 1;
                }
            }
            3 => {
                let i = r.below(parts.len());
                let p = parts[i].clone();
                let j = r.below(parts.len() + 1);
                parts.insert(j, p);
                *loc.muts.entry("mutation.duplicate").or_insert(0) += 1;
            }
            4 => {
                if parts.len() > 1 {
                    let i = r.below(parts.len());
                    let j = r.below(parts.len());
                    parts.swap(i, j);
                    *loc.muts.entry("mutation.swap").or_insert(0) += 1;
                }
            }
            5 => {
                // splice a token run of another document
                let ot: Vec<(usize, usize)> = tokenize(other.as_bytes(), CFG_NEUTRAL).iter().filter(|s| s.after > s.before).map(|s| (s.before as usize, s.after as usize)).collect();
                if !ot.is_empty() {
                    let a = r.below(ot.len());
                    let b = (a + 1 + r.below(4)).min(ot.len());
                    let piece = String::from_utf8_lossy(&other.as_bytes()[ot[a].0..ot[b - 1].1]).into_owned();
                    let i = r.below(parts.len() + 1);
                    parts.insert(i, piece);
                    *loc.muts.entry("mutation.splice").or_insert(0) += 1;
                }
            }
            6 => {
                // the shape of F2: a DOCTYPE / comment / PI in the middle of a text token
                if let Some(i) = (0..parts.len()).find(|i| !parts[*i].starts_with('<') && parts[*i].len() >= 2 && parts[*i].is_char_boundary(1)) {
                    let t = parts[i].clone();
                    let ins = *r.pick(&[
                        "<!DOCTYPE y>", "<!--c-->", "<?p?>", "<![CDATA[z]]>", "<!DOCTYPE y [<!ENTITY q \"r\">]>",
                        // a whitespace-only piece of its own next to the DOCTYPE
                        "<!--c--> <!DOCTYPE y>", "<![CDATA[q]]> <!DOCTYPE y>", "<?p?>\n<!DOCTYPE y>", "<!DOCTYPE y> <!--d-->", "<!--c--> <!DOCTYPE y> <!--d--> ",
                    ]);
                    parts[i] = format!("{}{}{}", &t[..1], ins, &t[1..]);
                    if ins.starts_with("<!DOCTYPE") {
                        *loc.muts.entry("mutation.doctype_between_texts").or_insert(0) += 1;
                    }
                    *loc.muts.entry("mutation.markup_inside_text").or_insert(0) += 1;
                } else {
                    let i = r.below(parts.len() + 1);
                    parts.insert(i, "a<!DOCTYPE y>b".to_string());
                    *loc.muts.entry("mutation.doctype_between_texts").or_insert(0) += 1;
                }
            }
            7 | 8 => {
                // add attributes to a start / empty tag (xsi:nil with and without its namespace, duplicates, junk)
                let tags: Vec<usize> = (0..parts.len()).filter(|i| parts[*i].starts_with('<') && parts[*i].ends_with('>') && !parts[*i].starts_with("</") && !parts[*i].starts_with("<!") && !parts[*i].starts_with("<?")).collect();
                if !tags.is_empty() {
                    let i = tags[r.below(tags.len())];
                    let add = *r.pick(ATTR_ATOMS);
                    let t = parts[i].clone();
                    let cut = if t.ends_with("/>") { t.len() - 2 } else { t.len() - 1 };
                    parts[i] = format!("{}{}{}", &t[..cut], add, &t[cut..]);
                    *loc.muts.entry(if add.contains("nil") { "mutation.xsi_nil_attr" } else { "mutation.attr_added" }).or_insert(0) += 1;
                }
            }
            _ => {
                // byte-level damage inside one token
                let i = r.below(parts.len());
                let mut b = parts[i].clone().into_bytes();
                if !b.is_empty() {
                    let k = r.below(b.len());
                    b[k] = *r.pick(b"<>/!-[]?\"'= &;#");
                }
                parts[i] = String::from_utf8_lossy(&b).into_owned();
                *loc.muts.entry("mutation.byte").or_insert(0) += 1;
            }
        }
    }
    parts.concat()
}

pub fn soup(r: &mut Rng) -> String {
    let n = r.below(14);
    let mut s = String::new();
    for _ in 0..n {
        s.push_str(*r.pick(ATOMS));
    }
    s
}

fn case_json(doc: &str, target: &str, reader: bool, piece: usize) -> Value {
    json!({"document": doc, "target": target, "entry": if reader { "from_reader" } else { "from_str" }, "piece": piece})
}

pub fn exec(ops: &TypeOps, doc: &str, reader: bool, piece: usize) -> Result<Result<(), DeErr>, String> {
    guarded(|| {
        if reader {
            let cuts = if piece == 0 { vec![] } else { cuts_for_piece(doc.len(), piece, 0) };
            (ops.de_reader)(ChunkedRead::new(doc.as_bytes(), cuts)).map(|_| ())
        } else if piece >= 1000 {
            // a Deserializer built by hand with an event buffer limit (piece - 1000)
            (ops.de_str)(doc, Some(piece - 1000)).map(|_| ())
        } else {
            (ops.de_str)(doc, None).map(|_| ())
        }
    })
}

/// A generated Cyrillic document in the given encoding through from_reader, into three targets;
/// returns how many of them deserialized.
fn exec_encoded(label: &str, vseed: u64, damage: bool) -> u64 {
    let mut r = Rng::new(vseed);
    let (_, declared, _) = gen_cyr_doc(&mut r, label);
    let enc = encoding_rs::Encoding::for_label(label.as_bytes()).unwrap_or(encoding_rs::UTF_8);
    let (bytes, _, _) = enc.encode(&declared);
    let mut bytes = bytes.into_owned();
    if damage && !bytes.is_empty() {
        let i = r.below(bytes.len());
        bytes[i] = *r.pick(&[b'<', b'>', b'"', b'=', b' ', 0xFF, 0xC0, b'&', b'/', 0x98]);
    }
    let piece = [0usize, 1, 3][r.below(3)];
    let cuts = |n: usize| if piece == 0 { vec![] } else { cuts_for_piece(n, piece, 0) };
    let mut oks = 0;
    oks += quick_xml::de::from_reader::<_, CyrDoc>(ChunkedRead::new(&bytes, cuts(bytes.len()))).is_ok() as u64;
    oks += quick_xml::de::from_reader::<_, std::collections::HashMap<String, String>>(ChunkedRead::new(&bytes, cuts(bytes.len()))).is_ok() as u64;
    oks += quick_xml::de::from_reader::<_, serde_json::Value>(ChunkedRead::new(&bytes, cuts(bytes.len()))).is_ok() as u64;
    oks
}

fn run_doc(ctx: &mut Ctx, loc: &mut Local, all: &[TypeOps], doc: &str, own: usize, r: &mut Rng) -> bool {
    let has_start = doc.as_bytes().windows(2).any(|w| w[0] == b'<' && (w[1].is_ascii_alphabetic() || w[1] == b'_'));
    if has_start {
        loc.with_start += 1;
    }
    // the document's own type plus three other targets
    let mut targets = vec![own];
    for _ in 0..3 {
        targets.push(r.below(all.len()));
    }
    for ti in targets {
        let ops = &all[ti];
        let reader = r.chance(1, 3);
        // from_str: now and then through a Deserializer with an event buffer limit of 1..=12 (encoded as 1000 + limit)
        let piece = if reader { *r.pick(&[1usize, 1, 3, 0]) } else if r.chance(1, 4) { 1001 + r.below(12) } else { 0 };
        if piece >= 1000 {
            loc.with_limit += 1;
        }
        ctx.journal(|| case_json(doc, ops.name, reader, piece));
        ctx.eval(H::new().str(doc).str(ops.name).u64(reader as u64).finish(), has_start);
        *loc.targets.entry(ops.name).or_insert(0) += 1;
        if reader {
            loc.from_reader += 1;
        } else {
            loc.from_str += 1;
        }
        match exec(ops, doc, reader, piece) {
            Ok(Ok(())) => loc.ok += 1,
            Ok(Err(e)) => {
                loc.err += 1;
                *loc.err_kinds.entry(e.kind).or_insert(0) += 1;
            }
            Err(p) => {
                ctx.violation(case_json(doc, ops.name, reader, piece), format!("deserializing into {} panicked: {}", ops.name, p));
                if ctx.full() {
                    return false;
                }
            }
        }
    }
    // one deserializer driven by hand for several values in a row, until the first error: every call has to return
    if r.chance(1, 3) {
        let ops = &all[if r.bool() { own } else { r.below(all.len()) }];
        let reader = r.bool();
        let docs = if r.bool() { format!("{}{}", doc, doc) } else { doc.to_string() };
        let case = json!({"document": docs, "target": ops.name, "entry": if reader { "Deserializer::from_reader, 4 values" } else { "Deserializer::from_str, 4 values" }, "piece": if reader { 1 } else { 0 }, "values": 4});
        ctx.journal(|| case.clone());
        loc.many += 1;
        let run = |n: usize| {
            guarded(|| {
                if reader {
                    (ops.de_reader_many)(ChunkedRead::new(docs.as_bytes(), cuts_for_piece(docs.len(), 1, 0)), n)
                } else {
                    (ops.de_str_many)(&docs, n)
                }
            })
        };
        match run(4) {
            Ok(v) => {
                loc.many_values += v.iter().filter(|x| x.is_ok()).count() as u64;
                // Observation only, no verdict: the same deserializer used again after it returned an error.
                // No property says what that gives; on the current tree it can panic (DESIGN 6.1).
                if v.last().map(|x| x.is_err()).unwrap_or(false) && run(4 | 0x100).is_err() {
                    loc.panics_after_err += 1;
                }
            }
            Err(p) => {
                ctx.violation(case, format!("deserializing up to four values in a row into {} from one deserializer panicked: {}", ops.name, p));
                if ctx.full() {
                    return false;
                }
            }
        }
    }
    ctx.sample(|| json!({"document": doc.chars().take(200).collect::<String>(), "own_type": all[own].name}));
    true
}

/// A valid document of one of the generator-equipped types; `own` indexes into `all_targets()`.
pub fn base_doc(r: &mut Rng, fam: &[TypeOps], ovl: &[(TypeOps, fn(&mut Rng, usize) -> Box<dyn Val>)], opt: &[TypeOps], cfgs: &[SerCfg]) -> (usize, String) {
    match r.below(10) {
        0 | 1 => {
            let i = r.below(ovl.len());
            let v = (ovl[i].1)(r, 3);
            (fam.len() + i, v.ser(&SerCfg::plain()).unwrap_or_default())
        }
        2 | 3 => {
            let i = r.below(opt.len());
            let v = (opt[i].gen.unwrap())(r);
            (fam.len() + ovl.len() + i, v.ser(&cfgs[r.below(cfgs.len())]).unwrap_or_default())
        }
        _ => {
            let i = r.below(fam.len());
            let v = (fam[i].gen.unwrap())(r);
            (i, v.ser(&cfgs[r.below(cfgs.len())]).unwrap_or_default())
        }
    }
}

pub fn all_targets() -> Vec<TypeOps> {
    let mut all = family();
    all.extend(ovl_family().into_iter().map(|(o, _)| o));
    all.extend(optional_family());
    all.extend(extra_targets());
    all
}

fn run(ctx: &mut Ctx) {
    let mut loc = Local::default();
    let t = ctx.tier;
    let small = ctx.layer == "miri";
    let all = all_targets();
    let fam = family();
    let opt = optional_family();
    let ovl = ovl_family();
    let mut r = ctx.rng(13);
    let cfgs = SerCfg::all();
    let n = if small { 40 } else { ctx.scaled(t.pick(250_000, 3_000_000)) / ctx.nshards as u64 };
    let mut prev = String::from("<s_inner a_id=\"1\"><t_v>v</t_v></s_inner>");
    'outer: for k in 0..n {
        // a valid base document
        let (own, doc) = base_doc(&mut r, &fam, &ovl, &opt, &cfgs);
        // the unmodified document for all-target cross deserialization (1 in 8)
        if k % 8 == 0 && !run_doc(ctx, &mut loc, &all, &doc, own, &mut r) {
            break 'outer;
        }
        for _ in 0..3 {
            let m = mutate_tokens(&mut r, &doc, &prev, &mut loc);
            if !run_doc(ctx, &mut loc, &all, &m, own, &mut r) {
                break 'outer;
            }
        }
        // truncations: every byte for every 16th document, 4 sampled otherwise
        let cuts: Vec<usize> = if k % 16 == 0 && !small { (0..doc.len()).collect() } else { (0..4).map(|_| r.below(doc.len().max(1))).collect() };
        for c in cuts {
            if doc.is_char_boundary(c) {
                *loc.muts.entry("mutation.truncate").or_insert(0) += 1;
                if !run_doc(ctx, &mut loc, &all, &doc[..c], own, &mut r) {
                    break 'outer;
                }
            }
        }
        // token soup
        let s = soup(&mut r);
        *loc.muts.entry("mutation.soup").or_insert(0) += 1;
        let own2 = r.below(all.len());
        if !run_doc(ctx, &mut loc, &all, &s, own2, &mut r) {
            break 'outer;
        }
        prev = doc;
    }
    // documents in a legacy encoding whose element and attribute names are outside ASCII (the
    // deserializer transcodes names and values), intact and with one byte damaged
    {
        let n = if small { 2 } else { ctx.scaled(t.pick(300, 3_000)) / ctx.nshards as u64 + 1 };
        for k in 0..n {
            let vseed = r.next();
            for label in ["windows-1251", "koi8-r", "utf-8"] {
                for damage in [false, true] {
                    let case = json!({"encoded": label, "value_seed": vseed, "damage": damage});
                    ctx.journal(|| case.clone());
                    ctx.eval(H::new().str(label).u64(vseed).u64(damage as u64 + 20).finish(), true);
                    *loc.muts.entry("mutation.legacy_encoding_document").or_insert(0) += 1;
                    match guarded(|| exec_encoded(label, vseed, damage)) {
                        Ok(oks) => {
                            loc.ok += oks;
                            loc.err += 3 - oks;
                        }
                        Err(p) => {
                            ctx.violation(case, format!("deserializing a document in {} panicked: {}", label, p));
                        }
                    }
                }
            }
            let _ = k;
        }
    }
    // fixed regression shapes, every target, both entry points
    for (i, d) in ["<a>x<!--c--> <!DOCTYPE y>z</a>", "<a><![CDATA[x]]> <!DOCTYPE y>z</a>", "<a>x<?p?> <!DOCTYPE y> <!--c--> z</a>", "x<!--c--> <!DOCTYPE y>z", "<a>x<!DOCTYPE y>z</a>", "x<!DOCTYPE y>z", "<a><![CDATA[x]]><!DOCTYPE y>z</a>", "<a>x<!DOCTYPE y><!--c-->z</a>", "<a>x<!DOCTYPE y></a>", "<a><!DOCTYPE y>z</a>", "<a>x<!DOCTYPE y [<!ENTITY e \"v\">]>&e;</a>", "<a></b>", "</a>", "<a>", "<a><a/>", "", " ", "<a xsi:nil=\"true\"/>"].iter().enumerate() {
        if !ctx.owns(i as u64) {
            continue;
        }
        for ti in 0..all.len() {
            for reader in [false, true] {
                let ops = &all[ti];
                ctx.journal(|| case_json(d, ops.name, reader, 1));
                ctx.eval(H::new().str(d).str(ops.name).u64(reader as u64 + 10).finish(), true);
                *loc.targets.entry(ops.name).or_insert(0) += 1;
                match exec(ops, d, reader, 1) {
                    Ok(Ok(())) => loc.ok += 1,
                    Ok(Err(_)) => loc.err += 1,
                    Err(p) => {
                        ctx.violation(case_json(d, ops.name, reader, 1), format!("deserializing into {} panicked: {}", ops.name, p));
                    }
                }
            }
        }
    }
    ctx.add("docs_with_start_tag", loc.with_start);
    ctx.add("results.ok", loc.ok);
    ctx.add("results.err", loc.err);
    ctx.add("entry.from_str", loc.from_str);
    ctx.add("entry.from_reader", loc.from_reader);
    ctx.add("entry.from_str_with_event_buffer_limit", loc.with_limit);
    ctx.add("entry.one_deserializer_up_to_four_values", loc.many);
    ctx.add("entry.one_deserializer_values_obtained", loc.many_values);
    ctx.add("observation.panics_when_a_deserializer_is_used_again_after_it_returned_an_error_not_judged", loc.panics_after_err);
    for (k, v) in &loc.muts {
        ctx.add(k, *v);
    }
    for (k, v) in &loc.targets {
        ctx.add(&format!("target.{}", k), *v);
    }
    for (k, v) in &loc.err_kinds {
        ctx.add(&format!("de_error.{}", k), *v);
    }
}

fn replay(case: &Value, _ctx: &mut Ctx) -> Option<String> {
    if let Some(h) = case.get("fuzz").and_then(|v| v.as_str()) {
        return fuzz_entry(&crate::ctx::unhex(h)).err();
    }
    if let Some(label) = case.get("encoded").and_then(|v| v.as_str()) {
        return guarded(|| exec_encoded(label, case["value_seed"].as_u64().unwrap_or(0), case["damage"].as_bool().unwrap_or(false))).err().map(|p| format!("deserializing a document in {} panicked: {}", label, p));
    }
    let all = all_targets();
    let ops = all.iter().find(|o| o.name == case["target"].as_str().unwrap_or(""))?;
    let doc = case["document"].as_str().unwrap_or("");
    if let Some(n) = case["values"].as_u64() {
        let reader = case["entry"].as_str().map(|e| e.contains("from_reader")).unwrap_or(false);
        let res = guarded(|| if reader { (ops.de_reader_many)(ChunkedRead::new(doc.as_bytes(), cuts_for_piece(doc.len(), 1, 0)), n as usize) } else { (ops.de_str_many)(doc, n as usize) });
        return res.err().map(|p| format!("deserializing {} values in a row into {} from one deserializer panicked: {}", n, ops.name, p));
    }
    let reader = case["entry"].as_str() == Some("from_reader");
    match exec(ops, doc, reader, case["piece"].as_u64().unwrap_or(0) as usize) {
        Ok(_) => None,
        Err(p) => Some(format!("deserializing into {} panicked: {}", ops.name, p)),
    }
}

/// libFuzzer entry: byte 0 = target type, byte 1 = entry point / piece size, rest = document (must be UTF-8)
pub fn fuzz_entry(data: &[u8]) -> Result<(), String> {
    if data.len() < 2 {
        return Ok(());
    }
    let doc = match std::str::from_utf8(&data[2..]) {
        Ok(d) => d,
        Err(_) => return Ok(()),
    };
    thread_local! { static ALL: Vec<TypeOps> = all_targets(); }
    ALL.with(|all| {
        let ops = &all[data[0] as usize % all.len()];
        let reader = data[1] & 1 == 1;
        match exec(ops, doc, reader, (data[1] >> 1) as usize % 4) {
            Ok(_) => Ok(()),
            Err(p) => Err(format!("deserializing into {} panicked: {}", ops.name, p)),
        }
    })
}
