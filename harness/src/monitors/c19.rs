//! C19 — indentation adds only whitespace between markup and never touches content.
//! Relational monitor: plain writer vs indenting writer, event by event, plus read-back;
//! serde part: plain vs indented serialization of the value family.

use crate::ctx::{guarded, show, Ctx};
use crate::obs::*;
use crate::refmodel::tok::is_ws;
use crate::rng::{Rng, H};
use crate::runner::PropSpec;
use crate::sources::block_on;
use quick_xml::events::{BytesCData, BytesDecl, BytesEnd, BytesPI, BytesStart, BytesText, Event};
use quick_xml::reader::Reader;
use quick_xml::writer::Writer;
use serde_json::{json, Value};

pub const SPEC: PropSpec = PropSpec {
    id: "C19",
    level: "exploration",
    rule: "Writer cases = (event-kind sequence with Eof only last, indent character in {space, tab, 'x'}, indent width 0..=9). Each sequence is written through Writer::new and Writer::new_with_indent with the sink length sampled before every event; for every event the indented piece must be [newline + k indent characters] + plain piece, the optional prefix being present only when the event is markup other than Text/CDATA, is not the first event and does not follow Text/CDATA (whether k is a whole number of levels within the current nesting is counted as an observation, the property does not state it); no panic; write_event_async must give the same bytes; for space/tab both outputs are read back and, after dropping whitespace-only texts between markup, must give the same events with byte-identical Text/CDATA payloads. Exhaustive: all kind sequences up to length 5/6 over the ten kinds (Eof last only); random: sequences up to length 400 with nesting pushed beyond 128 and 1024 bytes of indentation and more Ends than Starts. Serde cases = (value of the C06 family, indent char/width): the token stream of the indented serialization minus whitespace-only texts between markup must equal the plain one's, and both must deserialize to equal values. Non-trivial = the sequence has at least one Text/CDATA next to markup, or depth x width > 128.",
    assumptions: &["payloads of generated Text/CDATA events contain no markup characters, so that reading the output back is meaningful", "the reader is used as a tool for the read-back comparison (its correctness is C01's business)"],
    required: &["pairs_seen_all90", "max.indent_bytes", "saturations", "breaks_inserted", "breaks_suppressed_after_text", "async_compared", "readback_compared", "write_indent_calls_checked", "serde.values", "serde.mixed_content_values", "serde.write_serializable_nested_compared"],
    run,
    replay,
    thorough_layers: &[],
    quick_layers: &[],
    post: Some(post),
};

fn post(c: &mut std::collections::BTreeMap<String, u64>) {
    let keys: Vec<String> = c.keys().filter(|k| k.starts_with("pair.")).cloned().collect();
    let n = keys.len() as u64;
    for k in keys {
        c.remove(&k);
    }
    c.insert("pairs_seen".into(), n);
    c.insert("pairs_seen_all90".into(), (n >= 90) as u64);
}

pub struct Local {
    pairs: [[u64; 10]; 10],
    max_indent: u64,
    saturations: u64,
    inserted: u64,
    suppressed: u64,
    async_cmp: u64,
    readback: u64,
    pub manual_indents: u64,
    pub odd_indent_lengths: u64,
    pub serde_values: u64,
    pub serde_mixed: u64,
    pub serde_ws: u64,
}
impl Default for Local {
    fn default() -> Self {
        Local {
            pairs: [[0; 10]; 10],
            max_indent: 0,
            saturations: 0,
            inserted: 0,
            suppressed: 0,
            async_cmp: 0,
            readback: 0,
            manual_indents: 0,
            odd_indent_lengths: 0,
            serde_values: 0,
            serde_mixed: 0,
            serde_ws: 0,
        }
    }
}

const TEXTS: [&str; 6] = ["x", "text", " ", "", "a b", "\n  "];
const NAMES: [&str; 3] = ["a", "b", "ab"];

fn make_event(kind: Kind, variant: usize) -> Event<'static> {
    let name = NAMES[variant % 3];
    match kind {
        Kind::Start => {
            let mut s = BytesStart::new(name);
            if variant % 4 == 3 {
                s.push_attribute(("k", "v w"));
            }
            Event::Start(s)
        }
        Kind::End => Event::End(BytesEnd::new(name)),
        Kind::Empty => Event::Empty(BytesStart::new(name)),
        Kind::Text => Event::Text(BytesText::new(TEXTS[variant % TEXTS.len()])),
        Kind::CData => Event::CData(BytesCData::new(TEXTS[variant % TEXTS.len()])),
        Kind::Comment => Event::Comment(BytesText::new(if variant % 2 == 0 { "c" } else { " c \n " })),
        Kind::Decl => Event::Decl(BytesDecl::new("1.0", None, None)),
        Kind::PI => Event::PI(BytesPI::new("pi x")),
        Kind::DocType => Event::DocType(BytesText::from_escaped("a")),
        Kind::Eof => Event::Eof,
    }
}

fn kind_of(e: &Event) -> Kind {
    event_obs(e).kind().unwrap()
}

fn pieces(events: &[Event<'static>], indent: Option<(u8, usize)>) -> Result<(Vec<u8>, Vec<usize>), String> {
    let mut w = match indent {
        None => Writer::new(Vec::new()),
        Some((c, n)) => Writer::new_with_indent(Vec::new(), c, n),
    };
    let mut marks = Vec::with_capacity(events.len() + 1);
    for e in events {
        marks.push(w.get_ref().len());
        w.write_event(e.borrow()).map_err(|e| format!("writer error: {}", e))?;
    }
    marks.push(w.get_ref().len());
    Ok((w.into_inner(), marks))
}

fn read_events(bytes: &[u8]) -> Result<Vec<Obs>, String> {
    let mut r = Reader::from_reader(bytes);
    apply_cfg(r.config_mut(), CFG_NEUTRAL);
    let mut out = Vec::new();
    for _ in 0..call_bound(bytes.len()) + 2 {
        match r.read_event() {
            Ok(Event::Eof) => return Ok(out),
            Ok(e) => out.push(event_obs(&e)),
            Err(e) => return Err(format!("{}", e)),
        }
    }
    Err("no Eof".into())
}

/// drop whitespace-only texts that stand between two markup events (or at the edges)
fn drop_ws_texts(v: Vec<Obs>) -> Vec<Obs> {
    v.into_iter().filter(|o| !matches!(o, Obs::Ev(Kind::Text, raw, _) if raw.iter().all(|b| is_ws(*b)))).collect()
}

pub fn check_writer(events: &[Event<'static>], c: u8, n: usize, loc: &mut Local) -> Result<(), String> {
    let (plain, pm) = pieces(events, None)?;
    let (ind, im) = pieces(events, Some((c, n)))?;
    let mut starts = 0usize;
    let mut depth: i64 = 0;
    let mut prev: Option<Kind> = None;
    for (i, e) in events.iter().enumerate() {
        let k = kind_of(e);
        let pp = &plain[pm[i]..pm[i + 1]];
        let ip = &ind[im[i]..im[i + 1]];
        if let Some(p) = prev {
            loc.pairs[p.idx()][k.idx()] += 1;
        }
        if !ip.ends_with(pp) {
            return Err(format!("event {} ({}): indented piece {:?} does not end with the plain piece {:?}", i, k.name(), show(ip), show(pp)));
        }
        let prefix = &ip[..ip.len() - pp.len()];
        let markup = !matches!(k, Kind::Text | Kind::CData | Kind::Eof);
        let allowed = markup && i > 0 && !matches!(prev, Some(Kind::Text) | Some(Kind::CData));
        if !prefix.is_empty() {
            if !allowed {
                return Err(format!(
                    "event {} ({}) after {:?}: whitespace {:?} was inserted where none is allowed (first event, Text/CDATA, or directly after Text/CDATA)",
                    i,
                    k.name(),
                    prev.map(|p| p.name()),
                    show(prefix)
                ));
            }
            if prefix[0] != b'\n' || prefix[1..].iter().any(|b| *b != c) {
                return Err(format!("event {} ({}): inserted bytes {:?} are not a line break followed by indent characters", i, k.name(), show(prefix)));
            }
            // how many indent characters: not part of the property (only *what* may be inserted and
            // *where*); whether the count is a whole number of levels within the nesting is observed
            let kk = prefix.len() - 1;
            if (n == 0 && kk != 0) || (n > 0 && kk % n != 0) || kk > n * starts {
                loc.odd_indent_lengths += 1;
            }
            loc.inserted += 1;
            loc.max_indent = loc.max_indent.max(kk as u64);
        } else if markup && i > 0 && matches!(prev, Some(Kind::Text) | Some(Kind::CData)) {
            loc.suppressed += 1;
        }
        match k {
            Kind::Start => {
                starts += 1;
                depth += 1;
            }
            Kind::End => {
                if depth == 0 {
                    loc.saturations += 1;
                } else {
                    depth -= 1;
                }
            }
            _ => {}
        }
        prev = Some(k);
    }
    // explicit write_indent() / write_indent_async() in the middle of the sequence: nothing on a
    // plain writer, a line break plus whole indent levels on an indenting one, same bytes async
    if !events.is_empty() {
        let at = events.len() / 2;
        let mut wp = Writer::new(Vec::new());
        let mut wi = Writer::new_with_indent(Vec::new(), c, n);
        let mut wa = Writer::new_with_indent(Vec::new(), c, n);
        let mut st = 0usize;
        for e in &events[..at] {
            wp.write_event(e.borrow()).map_err(|e| format!("writer error: {}", e))?;
            wi.write_event(e.borrow()).map_err(|e| format!("writer error: {}", e))?;
            block_on(wa.write_event_async(e.borrow()), 1000)?.0.map_err(|e| format!("async writer error: {}", e))?;
            if kind_of(e) == Kind::Start {
                st += 1;
            }
        }
        let (lp, li) = (wp.get_ref().len(), wi.get_ref().len());
        wp.write_indent().map_err(|e| format!("write_indent error: {}", e))?;
        wi.write_indent().map_err(|e| format!("write_indent error: {}", e))?;
        block_on(wa.write_indent_async(), 1000)?.0.map_err(|e| format!("write_indent_async error: {}", e))?;
        if wp.get_ref().len() != lp {
            return Err(format!("write_indent() on a writer without indentation wrote {:?}", show(&wp.get_ref()[lp..])));
        }
        let added = &wi.get_ref()[li..];
        if (n == 0 && added.len() > 1) || (n > 0 && ((added.len().max(1) - 1) % n != 0 || added.len().max(1) - 1 > n * st)) {
            loc.odd_indent_lengths += 1;
        }
        if added.first() != Some(&b'\n') || added[1..].iter().any(|b| *b != c) {
            return Err(format!("write_indent() after {} events ({} start tags, width {}) wrote {:?}", at, st, n, show(added)));
        }
        if wa.get_ref() != wi.get_ref() {
            return Err(format!("write_indent_async produced {:?} but write_indent produced {:?}", show(wa.get_ref()), show(wi.get_ref())));
        }
        loc.manual_indents += 1;
    }
    // async writer: same bytes
    {
        let mut w = Writer::new_with_indent(Vec::new(), c, n);
        for e in events {
            block_on(w.write_event_async(e.borrow()), 1000)?.0.map_err(|e| format!("async writer error: {}", e))?;
        }
        loc.async_cmp += 1;
        if w.get_ref() != &ind {
            return Err(format!("write_event_async (indented) produced {:?} but write_event produced {:?}", show(w.get_ref()), show(&ind)));
        }
    }
    // read back (only meaningful for whitespace indent characters)
    if c == b' ' || c == b'\t' {
        let a = read_events(&plain);
        let b = read_events(&ind);
        match (a, b) {
            (Ok(a), Ok(b)) => {
                loc.readback += 1;
                let (a, b) = (drop_ws_texts(a), drop_ws_texts(b));
                if a != b {
                    let i = (0..a.len().max(b.len())).find(|&i| a.get(i) != b.get(i)).unwrap_or(0);
                    return Err(format!(
                        "reading back: event {} is {} in the plain output but {} in the indented output",
                        i,
                        a.get(i).map(|o| o.show()).unwrap_or_else(|| "<none>".into()),
                        b.get(i).map(|o| o.show()).unwrap_or_else(|| "<none>".into())
                    ));
                }
            }
            (Err(_), Err(_)) => {}
            (a, b) => {
                return Err(format!("reading back: plain output {:?}, indented output {:?}", a.map(|v| v.len()), b.map(|v| v.len())));
            }
        }
    }
    Ok(())
}

fn case_json(kinds: &[(Kind, usize)], c: u8, n: usize) -> Value {
    json!({"kinds": kinds.iter().map(|(k, v)| json!([k.idx(), v])).collect::<Vec<_>>(), "show": kinds.iter().map(|(k, _)| k.name()).collect::<Vec<_>>().join(" "), "indent_char": c, "indent_size": n})
}

fn run_case(ctx: &mut Ctx, loc: &mut Local, kinds: &[(Kind, usize)], c: u8, n: usize) -> bool {
    ctx.journal(|| case_json(kinds, c, n));
    let mut h = H::new().u64(c as u64).u64(n as u64);
    let mut nontrivial = false;
    let mut depth = 0usize;
    for (i, (k, v)) in kinds.iter().enumerate() {
        h = h.u64((k.idx() * 16 + v % 16) as u64);
        if matches!(k, Kind::Text | Kind::CData) && (i > 0 || i + 1 < kinds.len()) {
            nontrivial = true;
        }
        if *k == Kind::Start {
            depth += 1;
            if depth * n > 128 {
                nontrivial = true;
            }
        }
    }
    ctx.eval(h.finish(), nontrivial);
    let events: Vec<Event<'static>> = kinds.iter().map(|(k, v)| make_event(*k, *v)).collect();
    let r = guarded(|| check_writer(&events, c, n, loc));
    let r = match r {
        Ok(r) => r,
        Err(p) => Err(p),
    };
    if let Err(d) = r {
        ctx.violation(case_json(kinds, c, n), d);
        return !ctx.full();
    }
    ctx.sample(|| case_json(kinds, c, n));
    true
}

fn run(ctx: &mut Ctx) {
    let mut loc = Local::default();
    let t = ctx.tier;
    let mut r = ctx.rng(11);
    // exhaustive kind sequences; Eof only last => sequences over 9 kinds, optionally followed by Eof
    let maxlen = t.pick(5u32, 6u32);
    let total = crate::gen::count_upto(9, maxlen);
    let mut digits = Vec::new();
    let chars = [b' ', b'\t', b'x'];
    let mut i = ctx.shard as u64;
    'outer: while i < total {
        crate::gen::decode_index(i, 9, &mut digits);
        let mut kinds: Vec<(Kind, usize)> = digits.iter().map(|d| (ALL_KINDS[*d as usize], r.below(24))).collect();
        if i % 3 == 0 {
            kinds.push((Kind::Eof, 0));
        }
        // 3 chars x widths: each sequence gets 4 (char, width) combinations, rotating through all 30
        for j in 0..4u64 {
            let combo = (i * 4 + j) % 30;
            let c = chars[(combo % 3) as usize];
            let n = (combo / 3) as usize;
            if !run_case(ctx, &mut loc, &kinds, c, n) {
                break 'outer;
            }
        }
        i += ctx.nshards as u64;
    }
    ctx.exhaustive(&format!("all {} event-kind sequences of length <= {} over the nine non-Eof kinds (every third also followed by Eof), each under 4 of the 30 (indent char, width 0..=9) combinations in rotation", total, maxlen));
    // random long / deep / unbalanced
    let n = ctx.scaled(t.pick(300_000, 20_000_000)) / ctx.nshards as u64;
    for _ in 0..n {
        let lim = if r.chance(1, 10) { 400 } else { 40 };
        let len = 1 + r.below(lim);
        let deep = r.chance(1, 3);
        let mut kinds = Vec::with_capacity(len);
        for _ in 0..len {
            let k = if deep && r.chance(2, 3) {
                Kind::Start
            } else {
                match r.below(12) {
                    0..=2 => Kind::Start,
                    3..=5 => Kind::End,
                    6 => Kind::Empty,
                    7 => Kind::Text,
                    8 => Kind::CData,
                    9 => Kind::Comment,
                    10 => Kind::PI,
                    _ => *r.pick(&[Kind::Decl, Kind::DocType, Kind::End, Kind::End]),
                }
            };
            kinds.push((k, r.below(24)));
        }
        if r.bool() {
            kinds.push((Kind::Eof, 0));
        }
        let c = chars[r.below(3)];
        let w = r.below(10);
        if !run_case(ctx, &mut loc, &kinds, c, w) {
            break;
        }
    }
    // serde part
    super::c19_serde::run_serde(ctx, &mut loc, &mut r);
    flush(ctx, &loc);
}

fn flush(ctx: &mut Ctx, loc: &Local) {
    for a in 0..10 {
        for b in 0..10 {
            if loc.pairs[a][b] > 0 {
                ctx.add(&format!("pair.{}_{}", ALL_KINDS[a].name(), ALL_KINDS[b].name()), loc.pairs[a][b]);
            }
        }
    }
    ctx.max("max.indent_bytes", loc.max_indent);
    ctx.add("saturations", loc.saturations);
    ctx.add("breaks_inserted", loc.inserted);
    ctx.add("breaks_suppressed_after_text", loc.suppressed);
    ctx.add("async_compared", loc.async_cmp);
    ctx.add("readback_compared", loc.readback);
    ctx.add("write_indent_calls_checked", loc.manual_indents);
    ctx.add("observation.indent_lengths_not_whole_levels_within_nesting", loc.odd_indent_lengths);
    ctx.add("serde.values", loc.serde_values);
    ctx.add("serde.mixed_content_values", loc.serde_mixed);
    ctx.add("serde.write_serializable_nested_compared", loc.serde_ws);
}

fn replay(case: &Value, ctx: &mut Ctx) -> Option<String> {
    if case.get("serde").is_some() {
        return super::c19_serde::replay_serde(case, ctx);
    }
    let kinds: Vec<(Kind, usize)> = case["kinds"]
        .as_array()
        .map(|a| a.iter().map(|x| (ALL_KINDS[x[0].as_u64().unwrap_or(0) as usize % 10], x[1].as_u64().unwrap_or(0) as usize)).collect())
        .unwrap_or_default();
    let events: Vec<Event<'static>> = kinds.iter().map(|(k, v)| make_event(*k, *v)).collect();
    let mut loc = Local::default();
    check_writer(&events, case["indent_char"].as_u64().unwrap_or(32) as u8, case["indent_size"].as_u64().unwrap_or(2) as usize, &mut loc).err()
}
