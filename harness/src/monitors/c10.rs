//! C10 — escaping is safe and unescaping is its exact inverse.
//! Round-trip oracle + a small reference unescaper + every code point.

use super::common::*;
use crate::ctx::{guarded, show, Ctx};
use crate::rng::{Rng, H};
use crate::runner::PropSpec;
use quick_xml::escape::{escape, minimal_escape, partial_escape, unescape, unescape_with};
use serde_json::{json, Value};
use std::borrow::Cow;

pub const SPEC: PropSpec = PropSpec {
    id: "C10",
    level: "exploration",
    rule: "Cases = strings. (1) Exhaustive: every string up to length N over {< > & ' \" # x ; 0 1 9 a é} and every sequence of up to k atoms over {& ; # x X amp lt gt apos quot 0 1 41 D800 110000 - + a space é < > LT AMP Quot}: for each, unescape(escape_level(s)) == s for the three levels, the escaped form contains none of the characters that level removes (outside the five entity references), unescape(s) for '&'-free s is Cow::Borrowed of the same memory, and unescape(s) / unescape_with(s, custom resolver) agree with a 40-line reference unescaper on Ok/Err and on the Ok value. (2) Exhaustive: every code point 0..=0x110020 as a decimal and hexadecimal character reference, with 1 and 7 leading zeros, lower/upper/mixed-case hex digits, plus the malformed spellings (&#X..;, signs -- also behind leading zeros --, empty digits, trailing garbage, missing ';', embedded in text): a valid non-zero scalar value must give exactly that char, everything else Err. (3) Random Unicode strings of length <= 200 from all planes for the round trips. Non-trivial = the string contains at least one of < > & ' \" or is a character reference.",
    assumptions: &["the reference unescaper (refun in this file): '&' ... next ';' with no '&' in between; '#' decimal / '#x' hexadecimal ASCII digits only, no sign, fits u32, non-zero, valid scalar; the five XML entity names", "the harness is built without the escape-html feature, so 'unknown entity name' means the XML set"],
    required: &["roundtrips", "borrowed_results", "refs.valid_ok", "refs.surrogate_rejected", "refs.zero_rejected", "refs.out_of_range_rejected", "refs.malformed_rejected", "planes_seen_all17", "refun.ok", "refun.err", "custom_resolver_runs"],
    run,
    replay,
    thorough_layers: &[("miri", 1), ("fuzz", 30)],
    quick_layers: &[],
    post: Some(post),
};

fn post(c: &mut std::collections::BTreeMap<String, u64>) {
    let n = (0..17).filter(|i| c.get(&format!("plane.{:02}", i)).copied().unwrap_or(0) > 0).count() as u64;
    c.insert("planes_seen_all17".into(), (n == 17) as u64);
}

#[derive(Default)]
pub struct Local {
    roundtrips: u64,
    borrowed: u64,
    valid_ok: u64,
    surrogate: u64,
    zero: u64,
    oor: u64,
    malformed: u64,
    planes: [u64; 17],
    refun_ok: u64,
    refun_err: u64,
    custom: u64,
    long_names: u64,
}

/// the reference unescaper
pub fn refun(s: &str, resolve: &dyn Fn(&str) -> Option<String>) -> Result<String, ()> {
    let b = s.as_bytes();
    let mut out: Vec<u8> = Vec::new();
    let mut i = 0;
    while i < b.len() {
        if b[i] != b'&' {
            out.push(b[i]);
            i += 1;
            continue;
        }
        let mut j = i + 1;
        while j < b.len() && b[j] != b';' && b[j] != b'&' {
            j += 1;
        }
        if j >= b.len() || b[j] == b'&' {
            return Err(());
        }
        let pat = &s[i + 1..j];
        if let Some(num) = pat.strip_prefix('#') {
            let (digits, radix) = match num.strip_prefix('x') {
                Some(h) => (h, 16u64),
                None => (num, 10u64),
            };
            if digits.is_empty() {
                return Err(());
            }
            let mut v: u64 = 0;
            for c in digits.bytes() {
                let d = match c {
                    b'0'..=b'9' => (c - b'0') as u64,
                    b'a'..=b'f' if radix == 16 => (c - b'a' + 10) as u64,
                    b'A'..=b'F' if radix == 16 => (c - b'A' + 10) as u64,
                    _ => return Err(()),
                };
                v = v * radix + d;
                if v > u32::MAX as u64 {
                    return Err(());
                }
            }
            if v == 0 || v > 0x10FFFF || (0xD800..=0xDFFF).contains(&v) {
                return Err(());
            }
            let ch = char::from_u32(v as u32).ok_or(())?;
            let mut tmp = [0u8; 4];
            out.extend_from_slice(ch.encode_utf8(&mut tmp).as_bytes());
        } else {
            match resolve(pat) {
                Some(v) => out.extend_from_slice(v.as_bytes()),
                None => return Err(()),
            }
        }
        i = j + 1;
    }
    String::from_utf8(out).map_err(|_| ())
}

fn xml_entities(e: &str) -> Option<String> {
    Some(
        match e {
            "lt" => "<",
            "gt" => ">",
            "amp" => "&",
            "apos" => "'",
            "quot" => "\"",
            _ => return None,
        }
        .to_string(),
    )
}
fn custom_entities(e: &str) -> Option<&'static str> {
    match e {
        "a" => Some("A&B;"),
        "x" => Some(""),
        "lt" => Some("<<"),
        "" => Some("empty"),
        _ => None,
    }
}

fn strip_entities(s: &str) -> String {
    let mut t = s.to_string();
    for e in ["&lt;", "&gt;", "&amp;", "&apos;", "&quot;"] {
        t = t.replace(e, "");
    }
    t
}

pub fn check_string(s: &str, loc: &mut Local) -> Result<(), String> {
    // (a) round trips and absence of the promised characters
    let levels: [(&str, fn(&str) -> Cow<str>, &[char]); 3] = [
        ("escape", |s| escape(s), &['<', '>', '&', '\'', '"']),
        ("partial_escape", |s| partial_escape(s), &['<', '>', '&']),
        ("minimal_escape", |s| minimal_escape(s), &['<', '&']),
    ];
    for (name, f, forbidden) in levels {
        let e = f(s);
        let rest = strip_entities(&e);
        if let Some(c) = rest.chars().find(|c| forbidden.contains(c)) {
            return Err(format!("{}({:?}) = {:?} still contains {:?}", name, s, e, c));
        }
        match unescape(&e) {
            Ok(u) if u == s => {}
            other => return Err(format!("unescape({}({:?})) = unescape({:?}) = {:?}", name, s, e, other)),
        }
        if !s.contains(|c| forbidden.contains(&c)) {
            // nothing to escape: must be returned unchanged
            if e != s {
                return Err(format!("{}({:?}) changed a string without special characters to {:?}", name, s, e));
            }
        }
        loc.roundtrips += 1;
    }
    // (b) unescape against the reference
    let real = unescape(s);
    let model = refun(s, &xml_entities);
    match (&real, &model) {
        (Ok(r), Ok(m)) if r.as_ref() == m.as_str() => loc.refun_ok += 1,
        (Err(_), Err(())) => loc.refun_err += 1,
        _ => {
            return Err(format!(
                "unescape({:?}) = {:?} but the reference unescaper gives {:?}",
                s,
                real.as_ref().map(|c| c.as_ref().to_string()).map_err(|e| e.to_string()),
                model
            ))
        }
    }
    if !s.contains('&') {
        match &real {
            Ok(Cow::Borrowed(b)) if b.as_ptr() == s.as_ptr() && b.len() == s.len() => loc.borrowed += 1,
            other => return Err(format!("unescape of the '&'-free string {:?} is not the borrowed input: {:?}", s, other)),
        }
    }
    // (c) custom resolver: replacement text is inserted verbatim
    let real = unescape_with(s, custom_entities);
    let model = refun(s, &|e| custom_entities(e).map(|x| x.to_string()));
    loc.custom += 1;
    match (&real, &model) {
        (Ok(r), Ok(m)) if r.as_ref() == m.as_str() => {}
        (Err(_), Err(())) => {}
        _ => {
            return Err(format!(
                "unescape_with({:?}, custom) = {:?} but the reference gives {:?}",
                s,
                real.as_ref().map(|c| c.as_ref().to_string()).map_err(|e| e.to_string()),
                model
            ))
        }
    }
    // (d) a resolver that has an answer for every name: character references are still the library's
    // business (the resolver is for named entities), everything else becomes the answer
    let real = unescape_with(s, |_| Some("T"));
    let model = refun(s, &|_| Some("T".to_string()));
    match (&real, &model) {
        (Ok(r), Ok(m)) if r.as_ref() == m.as_str() => {}
        (Err(_), Err(())) => {}
        _ => {
            return Err(format!(
                "unescape_with({:?}, resolver answering \"T\" for every name) = {:?} but the reference gives {:?}",
                s,
                real.as_ref().map(|c| c.as_ref().to_string()).map_err(|e| e.to_string()),
                model
            ))
        }
    }
    Ok(())
}

fn expect_char(spelling: &str, want: Option<char>, loc: &mut Local) -> Result<(), String> {
    let got = unescape(spelling);
    match (want, &got) {
        (Some(c), Ok(s)) => {
            let mut it = s.chars();
            if it.next() == Some(c) && it.next().is_none() {
                loc.valid_ok += 1;
                Ok(())
            } else {
                Err(format!("unescape({:?}) = {:?}, expected exactly U+{:04X}", spelling, s, c as u32))
            }
        }
        (None, Err(_)) => Ok(()),
        (Some(c), Err(e)) => Err(format!("unescape({:?}) failed with {} but U+{:04X} is a valid non-zero scalar value", spelling, e, c as u32)),
        (None, Ok(s)) => Err(format!("unescape({:?}) = {:?} (U+{:04X}...) but this reference must be rejected", spelling, s, s.chars().next().map(|c| c as u32).unwrap_or(0))),
    }
}

pub fn check_codepoint(cp: u32, loc: &mut Local) -> Result<(), String> {
    let want = if cp == 0 { None } else { char::from_u32(cp) };
    match want {
        Some(c) => loc.planes[((c as u32) >> 16) as usize] += 1,
        None => {
            if cp == 0 {
                loc.zero += 1
            } else if (0xD800..=0xDFFF).contains(&cp) {
                loc.surrogate += 1
            } else {
                loc.oor += 1
            }
        }
    }
    let mixed = {
        let h = format!("{:x}", cp);
        h.chars().enumerate().map(|(i, c)| if i % 2 == 0 { c.to_ascii_uppercase() } else { c }).collect::<String>()
    };
    for sp in [
        format!("&#{};", cp),
        format!("&#0{};", cp),
        format!("&#0000000{};", cp),
        format!("&#x{:x};", cp),
        format!("&#x{:X};", cp),
        format!("&#x{};", mixed),
        format!("&#x0{:x};", cp),
        format!("&#x0000000{:X};", cp),
    ] {
        expect_char(&sp, want, loc)?;
    }
    // malformed spellings of the same number: always rejected
    for sp in [
        format!("&#X{:x};", cp),
        format!("&#+{};", cp),
        format!("&#-{};", cp),
        format!("&#x+{:x};", cp),
        format!("&#x-{:x};", cp),
        format!("&#{}g;", cp),
        format!("&#x{:x}g;", cp),
        format!("&#{} ;", cp),
        format!("&# {};", cp),
        format!("&#{}", cp),
        format!("&#x{:x}", cp),
        format!("&#{}&#{};", cp, cp),
        // a sign behind leading zeros is still a sign
        format!("&#0+{};", cp),
        format!("&#00-{};", cp),
        format!("&#x0+{:x};", cp),
        format!("&#x000-{:x};", cp),
    ] {
        loc.malformed += 1;
        expect_char(&sp, None, loc)?;
    }
    // embedded in text: the character replaces exactly the reference
    if let Some(c) = want {
        let s = format!("a&#{};b&#x{:x};", cp, cp);
        match unescape(&s) {
            Ok(u) if u == format!("a{}b{}", c, c) => {}
            other => return Err(format!("unescape({:?}) = {:?}", s, other)),
        }
    }
    Ok(())
}

const ALPHA: &[&str] = &["<", ">", "&", "'", "\"", "#", "x", ";", "0", "1", "9", "a", "é"];
const ATOMS: &[&str] = &[
    "&", ";", "#", "x", "X", "amp", "lt", "gt", "apos", "quot", "0", "1", "41", "D800", "110000", "-", "+", "a", " ", "é", "<", ">", "LT", "AMP", "Quot",
];

fn nontrivial(s: &str) -> bool {
    s.contains(|c| matches!(c, '<' | '>' | '&' | '\'' | '"'))
}

fn run_string(ctx: &mut Ctx, loc: &mut Local, s: &str) -> bool {
    ctx.journal(|| json!({"string": s}));
    ctx.eval(H::new().str(s).finish(), nontrivial(s));
    let r = guarded(|| check_string(s, loc));
    let r = match r {
        Ok(r) => r,
        Err(p) => Err(p),
    };
    if let Err(d) = r {
        ctx.violation(json!({"string": s}), d);
        return !ctx.full();
    }
    ctx.sample(|| json!({"string": s}));
    true
}

fn random_unicode(r: &mut Rng, max: usize) -> String {
    let n = r.below(max + 1);
    let mut s = String::new();
    for _ in 0..n {
        let c = match r.below(10) {
            0..=2 => *r.pick(&['<', '>', '&', '\'', '"', ';', '#']),
            3 => *r.pick(&[' ', '\t', '\n', '\r', '\0', '\u{7f}']),
            4..=5 => (0x20 + r.below(0x5F) as u32) as u8 as char,
            6 => char::from_u32(r.below(0x800) as u32).unwrap_or('a'),
            7 => char::from_u32(r.below(0x10000) as u32).unwrap_or('b'),
            _ => char::from_u32(r.below(0x110000) as u32).unwrap_or('c'),
        };
        s.push(c);
    }
    s
}

fn run(ctx: &mut Ctx) {
    let mut loc = Local::default();
    let t = ctx.tier;
    let small = ctx.layer == "miri";
    let mut digits = Vec::new();
    // (1) strings
    for (alphabet, n) in [(ALPHA, if small { 3 } else { t.pick(6u32, 7u32) }), (ATOMS, if small { 2 } else { t.pick(4u32, 5u32) })] {
        let total = crate::gen::count_upto(alphabet.len() as u64, n);
        let mut i = ctx.shard as u64;
        while i < total {
            crate::gen::decode_index(i, alphabet.len() as u64, &mut digits);
            let s: String = digits.iter().map(|d| alphabet[*d as usize]).collect();
            if !run_string(ctx, &mut loc, &s) {
                return flush(ctx, &loc);
            }
            i += ctx.nshards as u64;
        }
        ctx.exhaustive(&format!("all {} sequences of <= {} symbols over {:?}", total, n, alphabet));
    }
    // (1b) long names (known and unknown) of every byte length up to 80, ASCII and multi-byte, so that any
    // fixed-size handling of the name meets a character boundary in every position
    if ctx.shard == 0 {
        for unit in ["a", "é", "日", "😀"] {
            for prefix in ["", "n", "nn", "nnn"] {
                for k in 0..=(80 / unit.len()) {
                    for tail in ["", "x", "&lt;"] {
                        let s = format!("t&{}{};{}", prefix, unit.repeat(k), tail);
                        if !run_string(ctx, &mut loc, &s) {
                            return flush(ctx, &loc);
                        }
                        loc.long_names += 1;
                    }
                }
            }
        }
    }
    // (2) every code point
    let top: u32 = if small { 0x3000 } else { 0x110020 };
    let step = if small { 37 } else { 1 };
    let mut cp = ctx.shard;
    while cp <= top {
        if cp % step == 0 || small && (0xD7F0..0xE010).contains(&cp) {
            ctx.journal(|| json!({"codepoint": cp}));
            ctx.eval(H::new().u64(cp as u64).u64(0xC0DE).finish(), true);
            let r = guarded(|| check_codepoint(cp, &mut loc));
            let r = match r {
                Ok(r) => r,
                Err(p) => Err(p),
            };
            if let Err(d) = r {
                ctx.violation(json!({"codepoint": cp}), d);
                if ctx.full() {
                    return flush(ctx, &loc);
                }
            }
        }
        cp += ctx.nshards;
    }
    if !small {
        ctx.exhaustive("every code point 0..=0x110020 in 8 valid and 16 malformed spellings of a character reference");
    }
    for s in ["&#4294967295;", "&#4294967296;", "&#x100000000;", "&#xFFFFFFFF;", "&#99999999999999999999;", "&#;", "&#x;", "&;", "&", "&&", "&amp", ";&amp;;", "&#x110000;", "&#1114112;", "&#xD800;", "&#xDFFF;", "&#0;", "&#x0;", "&#00;"] {
        if !run_string(ctx, &mut loc, s) {
            return flush(ctx, &loc);
        }
    }
    // (3) random unicode
    let mut r = ctx.rng(9);
    let n = ctx.scaled(if small { 300 } else { t.pick(1_500_000, 12_000_000) }) / ctx.nshards as u64;
    for _ in 0..n {
        let s = random_unicode(&mut r, 200);
        if !run_string(ctx, &mut loc, &s) {
            break;
        }
    }
    flush(ctx, &loc);
}

fn flush(ctx: &mut Ctx, loc: &Local) {
    ctx.add("roundtrips", loc.roundtrips);
    ctx.add("borrowed_results", loc.borrowed);
    ctx.add("refs.valid_ok", loc.valid_ok);
    ctx.add("refs.surrogate_rejected", loc.surrogate);
    ctx.add("refs.zero_rejected", loc.zero);
    ctx.add("refs.out_of_range_rejected", loc.oor);
    ctx.add("refs.malformed_rejected", loc.malformed);
    for (i, n) in loc.planes.iter().enumerate() {
        ctx.add(&format!("plane.{:02}", i), *n);
    }
    ctx.add("refun.ok", loc.refun_ok);
    ctx.add("refun.err", loc.refun_err);
    ctx.add("custom_resolver_runs", loc.custom);
    ctx.add("long_entity_names", loc.long_names);
}

fn replay(case: &Value, _ctx: &mut Ctx) -> Option<String> {
    if let Some(h) = case.get("fuzz").and_then(|v| v.as_str()) {
        return fuzz_entry(&crate::ctx::unhex(h)).err();
    }
    let mut loc = Local::default();
    if let Some(s) = case["string"].as_str() {
        return check_string(s, &mut loc).err();
    }
    if let Some(cp) = case["codepoint"].as_u64() {
        return check_codepoint(cp as u32, &mut loc).err();
    }
    Some("unreadable replay case".into())
}

/// libFuzzer entry: the input as a (lossy) string
pub fn fuzz_entry(data: &[u8]) -> Result<(), String> {
    let s = String::from_utf8_lossy(data);
    let mut loc = Local::default();
    check_string(&s, &mut loc)
}
