//! C17 — declared or detected encodings decode to the same content as UTF-8.

use crate::ctx::{guarded, hex, show, unhex, Ctx};
use crate::obs::*;
use crate::rng::{Rng, H};
use crate::runner::PropSpec;
use crate::sources::*;
use encoding_rs::*;
use quick_xml::events::Event;
use quick_xml::reader::Reader;
use serde_json::{json, Value};
use std::collections::BTreeMap;

pub const SPEC: PropSpec = PropSpec {
    id: "C17",
    level: "exploration",
    rule: "Cases = (encoding E, generated document, BOM yes/no, declaration yes/no, source slice / buffered piece 1 / random pieces). E ranges over every encoding_rs static that reports is_ascii_compatible() (36 of 40, enumerated from the full list and filtered at run time). Characters are drawn by decoding random byte sequences in E and keeping those that E re-encodes without error, and are placed in text, both kinds of attribute values, comment, CDATA, PI content and an element name (for Shift_JIS / GBK / gb18030 / Big5 no character with trail byte ']' is placed in CDATA). The document is encoded in E, labelled with E in its declaration, and read: event kinds must equal the expected sequence, every payload decoded with reader.decoder() (decode / unescape / decode_and_unescape_value) must equal the original string, decoder().encoding() must be E after the declaration; without declaration UTF-8 is expected; a UTF-8 BOM never appears in an event; Reader::from_str keeps UTF-8 whatever the declaration says; a second declaration or a later BOM does not change the encoding again. Malformed injection: byte sequences that encoding_rs itself rejects for E (lead byte + space, lone lead byte at the end of a text, unmapped single bytes, UTF-8 overlong / surrogate / truncated forms) placed in text and attribute values must make decode, unescape and decode_and_unescape_value fail (never U+FFFD). Plus the repository's tests/documents/encoding corpus, whole and in pieces. Non-trivial = the document contains at least one non-ASCII character.",
    assumptions: &["encoding_rs is the oracle for which characters are representable and which byte sequences are malformed in E", "encoding labels are the canonical names returned by Encoding::name()"],
    required: &["encodings_seen_all_ascii_compatible", "construct.text", "construct.attr_double", "construct.attr_single", "construct.comment", "construct.cdata", "construct.pi", "construct.name", "payload_starting_with_U+FEFF", "serde_documents_in_legacy_encodings", "malformed_rejected", "path.implicit_bom_xml", "path.implicit_xml", "path.explicit", "path.xml_not_refined", "bom_inputs", "no_declaration_inputs", "corpus_files", "source.chunked"],
    run,
    replay,
    thorough_layers: &[("miri", 1), ("asan", 20)],
    quick_layers: &[],
    post: Some(post),
};

fn all_statics() -> Vec<&'static Encoding> {
    vec![
        BIG5, EUC_JP, EUC_KR, GB18030, GBK, IBM866, ISO_2022_JP, ISO_8859_2, ISO_8859_3, ISO_8859_4, ISO_8859_5, ISO_8859_6, ISO_8859_7, ISO_8859_8, ISO_8859_8_I, ISO_8859_10,
        ISO_8859_13, ISO_8859_14, ISO_8859_15, ISO_8859_16, KOI8_R, KOI8_U, MACINTOSH, REPLACEMENT, SHIFT_JIS, UTF_16BE, UTF_16LE, UTF_8, WINDOWS_1250, WINDOWS_1251,
        WINDOWS_1252, WINDOWS_1253, WINDOWS_1254, WINDOWS_1255, WINDOWS_1256, WINDOWS_1257, WINDOWS_1258, WINDOWS_874, X_MAC_CYRILLIC, X_USER_DEFINED,
    ]
}
pub fn ascii_compatible() -> Vec<&'static Encoding> {
    all_statics().into_iter().filter(|e| e.is_ascii_compatible()).collect()
}

fn post(c: &mut BTreeMap<String, u64>) {
    let total = ascii_compatible().len() as u64;
    let seen = c.iter().filter(|(k, v)| k.starts_with("enc.") && **v > 0).count() as u64;
    c.insert("encodings_ascii_compatible".into(), total);
    c.insert("encodings_seen".into(), seen);
    c.insert("encodings_seen_all_ascii_compatible".into(), (seen >= total) as u64);
}

#[derive(Default)]
struct Local {
    enc: BTreeMap<&'static str, u64>,
    chars: BTreeMap<&'static str, u64>,
    constructs: BTreeMap<&'static str, u64>,
    malformed: BTreeMap<&'static str, u64>,
    paths: BTreeMap<&'static str, u64>,
    bom: u64,
    nodecl: u64,
    corpus: u64,
    chunked: u64,
}

/// characters representable in E, found by decoding random bytes
fn draw_chars(e: &'static Encoding, r: &mut Rng, n: usize, avoid_trail_5d: bool) -> String {
    if n > 40 {
        // long payloads: draw a few characters and repeat them in random order
        let base: Vec<char> = draw_chars(e, r, 12, avoid_trail_5d).chars().collect();
        if base.is_empty() {
            return String::new();
        }
        return (0..n).map(|_| base[r.below(base.len())]).collect();
    }
    let mut out = String::new();
    let mut tries = 0;
    while out.chars().count() < n && tries < 400 {
        tries += 1;
        let len = 1 + r.below(4);
        let bytes: Vec<u8> = (0..len).map(|i| if i == 0 || r.chance(2, 3) { 0x80 | (r.next() as u8) } else { r.next() as u8 }).collect();
        if let Some(s) = e.decode_without_bom_handling_and_without_replacement(&bytes) {
            for ch in s.chars() {
                if (ch as u32) < 0x80 || ch == '\u{FEFF}' || ch == '\u{FFFD}' {
                    continue;
                }
                // must re-encode cleanly (some decoders accept more than the encoder produces)
                let mut tmp = [0u8; 4];
                let (enc, _, bad) = e.encode(ch.encode_utf8(&mut tmp));
                if bad {
                    continue;
                }
                if avoid_trail_5d && enc.last() == Some(&0x5D) {
                    continue;
                }
                // the encoded form must not contain bytes the lexer reacts to
                if enc.iter().any(|b| matches!(b, b'<' | b'>' | b'&' | b'"' | b'\'' | b'?' | b'-' | b' ' | b'\t' | b'\r' | b'\n' | b'=' | b'/')) {
                    continue;
                }
                out.push(ch);
            }
        }
    }
    out
}

#[derive(Clone, Debug)]
pub struct Doc {
    pub label: String,
    pub declaration: bool,
    pub bom: bool,
    pub text: String,
    pub attr_d: String,
    pub attr_s: String,
    pub comment: String,
    pub cdata: String,
    pub pi: String,
    pub name: String,
}

impl Doc {
    pub fn utf8(&self) -> String {
        let mut s = String::new();
        if self.declaration {
            s.push_str(&format!("<?xml version=\"1.0\" encoding=\"{}\"?>", self.label));
        }
        s.push_str(&format!(
            "<r a=\"{}&amp;\" b='{}'>{}&lt;<!--{}--><![CDATA[{}]]><?pi {}?><n{}/>tail</r>",
            self.attr_d, self.attr_s, self.text, self.comment, self.cdata, self.pi, self.name
        ));
        s
    }
    fn to_json(&self) -> Value {
        json!({"label": self.label, "declaration": self.declaration, "bom": self.bom, "text": self.text, "attr_d": self.attr_d, "attr_s": self.attr_s, "comment": self.comment, "cdata": self.cdata, "pi": self.pi, "name": self.name})
    }
    fn from_json(v: &Value) -> Doc {
        let s = |k: &str| v[k].as_str().unwrap_or("").to_string();
        Doc {
            label: s("label"),
            declaration: v["declaration"].as_bool().unwrap_or(true),
            bom: v["bom"].as_bool().unwrap_or(false),
            text: s("text"),
            attr_d: s("attr_d"),
            attr_s: s("attr_s"),
            comment: s("comment"),
            cdata: s("cdata"),
            pi: s("pi"),
            name: s("name"),
        }
    }
}

enum Src<'a> {
    Slice(&'a [u8]),
    Chunked(&'a [u8], Vec<usize>),
    /// the very first refill fails with an I/O error; the caller reads on
    ChunkedFault(&'a [u8], Vec<usize>),
    Str(&'a str),
}

/// read all events, decoding payloads with the reader's decoder
fn read_decoded(src: Src, expect_enc: &'static Encoding, feff_ok: bool) -> Result<Vec<(Kind, String, Vec<(String, String)>)>, String> {
    fn go<'i, R>(mut next: impl FnMut(&mut Reader<R>) -> Result<Event<'static>, quick_xml::Error>, mut r: Reader<R>, expect_enc: &'static Encoding, limit: usize, feff_ok: bool) -> Result<Vec<(Kind, String, Vec<(String, String)>)>, String> {
        let mut out = Vec::new();
        for _ in 0..limit {
            let ev = next(&mut r).map_err(|e| format!("reader error: {}", e))?;
            let dec = r.decoder();
            // decode() and decode_into() must agree on every payload
            let d = |b: &[u8]| -> Result<String, String> {
                let one = dec.decode(b).map(|c| c.into_owned()).map_err(|e| format!("payload {:?} does not decode: {}", show(&b[..b.len().min(80)]), e))?;
                let mut two = String::from("~");
                dec.decode_into(b, &mut two).map_err(|e| format!("decode_into fails with {} for a payload of {} bytes that decode() accepts ({:?}...)", e, b.len(), show(&b[..b.len().min(40)])))?;
                if two.strip_prefix('~') != Some(one.as_str()) {
                    return Err(format!("decode_into appended {:?} but decode() gives {:?}", &two[1..], one));
                }
                Ok(one)
            };
            match &ev {
                Event::Eof => return Ok(out),
                Event::Decl(e) => {
                    out.push((Kind::Decl, d(e)?, vec![]));
                }
                Event::Start(e) | Event::Empty(e) => {
                    if dec.encoding() != expect_enc {
                        return Err(format!("decoder().encoding() is {} at the root element, expected {}", dec.encoding().name(), expect_enc.name()));
                    }
                    let mut attrs = Vec::new();
                    for a in e.attributes() {
                        let a = a.map_err(|e| format!("attribute error: {}", e))?;
                        let v = a.decode_and_unescape_value(dec).map_err(|e| format!("attribute value does not decode: {}", e))?;
                        attrs.push((d(a.key.as_ref())?, v.into_owned()));
                    }
                    out.push((event_obs(&ev).kind().unwrap(), d(e.name().as_ref())?, attrs));
                }
                Event::End(e) => out.push((Kind::End, d(e.name().as_ref())?, vec![])),
                Event::Text(e) => out.push((Kind::Text, e.unescape().map_err(|e| format!("text does not unescape: {}", e))?.into_owned(), vec![])),
                Event::Comment(e) => out.push((Kind::Comment, d(e)?, vec![])),
                Event::CData(e) => {
                    let raw = d(e)?;
                    // the conversions of a CDATA section into an (escaped) text must carry the same string
                    for (what, t) in [("escape", e.clone().escape()), ("partial_escape", e.clone().partial_escape()), ("minimal_escape", e.clone().minimal_escape())] {
                        let t = t.map_err(|x| format!("BytesCData::{}() of {:?}: {}", what, show(e), x))?;
                        let back = t.unescape().map_err(|x| format!("BytesCData::{}().unescape() of {:?}: {}", what, show(e), x))?;
                        if back != raw {
                            return Err(format!("BytesCData::{}().unescape() gives {:?} but the section holds {:?}", what, back, raw));
                        }
                    }
                    out.push((Kind::CData, raw, vec![]))
                }
                Event::PI(e) => out.push((Kind::PI, d(e)?, vec![])),
                Event::DocType(e) => out.push((Kind::DocType, d(e)?, vec![])),
            }
            for (_, s, attrs) in out.last().into_iter() {
                if (!feff_ok && s.contains('\u{FEFF}')) || s.contains('\u{FFFD}') || attrs.iter().any(|(_, v)| v.contains('\u{FFFD}')) {
                    return Err(format!("a byte-order mark or replacement character appears in an event: {:?}", s));
                }
            }
        }
        Err("no Eof".into())
    }
    match src {
        Src::Slice(b) => go(|r| r.read_event().map(|e| e.into_owned()), Reader::from_reader(b), expect_enc, call_bound(b.len()) + 2, feff_ok),
        Src::Str(s) => go(|r| r.read_event().map(|e| e.into_owned()), Reader::from_str(s), expect_enc, call_bound(s.len()) + 2, feff_ok),
        Src::ChunkedFault(b, cuts) => {
            let mut buf = Vec::new();
            let mut failed = false;
            let mut src = ChunkedRead::new(b, cuts);
            src.faults = vec![(0, crate::sources::Fault::Other(std::io::ErrorKind::TimedOut))];
            go(
                move |r| loop {
                    buf.clear();
                    match r.read_event_into(&mut buf) {
                        Err(quick_xml::Error::Io(_)) if !failed => failed = true,
                        other => return other.map(|e| e.into_owned()),
                    }
                },
                Reader::from_reader(src),
                expect_enc,
                call_bound(b.len()) + 2,
                feff_ok,
            )
        }
        Src::Chunked(b, cuts) => {
            let mut buf = Vec::new();
            go(
                move |r| {
                    buf.clear();
                    r.read_event_into(&mut buf).map(|e| e.into_owned())
                },
                Reader::from_reader(ChunkedRead::new(b, cuts)),
                expect_enc,
                call_bound(b.len()) + 2,
                feff_ok,
            )
        }
    }
}

fn expected(doc: &Doc) -> Vec<(Kind, String, Vec<(String, String)>)> {
    let mut v = Vec::new();
    if doc.declaration {
        v.push((Kind::Decl, format!("xml version=\"1.0\" encoding=\"{}\"", doc.label), vec![]));
    }
    v.push((Kind::Start, "r".to_string(), vec![("a".to_string(), format!("{}&", doc.attr_d)), ("b".to_string(), doc.attr_s.clone())]));
    v.push((Kind::Text, format!("{}<", doc.text), vec![]));
    v.push((Kind::Comment, doc.comment.clone(), vec![]));
    v.push((Kind::CData, doc.cdata.clone(), vec![]));
    v.push((Kind::PI, format!("pi {}", doc.pi), vec![]));
    v.push((Kind::Empty, format!("n{}", doc.name), vec![]));
    v.push((Kind::Text, "tail".to_string(), vec![]));
    v.push((Kind::End, "r".to_string(), vec![]));
    v
}

fn diff(want: &[(Kind, String, Vec<(String, String)>)], got: &[(Kind, String, Vec<(String, String)>)]) -> Option<String> {
    for i in 0..want.len().max(got.len()) {
        if want.get(i) != got.get(i) {
            return Some(format!("event {}: expected {:?} but read {:?}", i, want.get(i), got.get(i)));
        }
    }
    None
}

fn check_doc(e: &'static Encoding, doc: &Doc, cuts: Option<Vec<usize>>) -> Result<(), String> {
    let utf8 = doc.utf8();
    // U+FEFF inside a payload is a character like any other; only the document's own mark is removed
    let feff = utf8.contains('\u{FEFF}');
    let (enc_bytes, _, bad) = e.encode(&utf8);
    if bad {
        return Err("harness error: the generated document is not representable in the target encoding".into());
    }
    let mut bytes = Vec::new();
    if doc.bom {
        bytes.extend_from_slice(&[0xEF, 0xBB, 0xBF]);
    }
    bytes.extend_from_slice(&enc_bytes);
    let expect_enc: &'static Encoding = if doc.declaration { e } else { UTF_8 };
    let want = expected(doc);
    let got = match cuts {
        None => read_decoded(Src::Slice(&bytes), expect_enc, feff),
        Some(ref c) => read_decoded(Src::Chunked(&bytes, c.clone()), expect_enc, feff),
    }
    .map_err(|m| format!("{} (encoding {}, bytes {})", m, e.name(), hex(&bytes[..bytes.len().min(200)])))?;
    if let Some(d) = diff(&want, &got) {
        return Err(format!("encoding {}: {}", e.name(), d));
    }
    // the same bytes when the very first refill of the source fails and the caller reads on: the reader
    // either is finished (no events) or detects the encoding and removes the mark as if nothing had happened
    if let Some(c) = &cuts {
        match read_decoded(Src::ChunkedFault(&bytes, c.clone()), expect_enc, feff) {
            Ok(got) if got.is_empty() => {}
            Ok(got) => {
                if let Some(d) = diff(&want, &got) {
                    return Err(format!("encoding {}, after an I/O error at the first refill: {}", e.name(), d));
                }
            }
            Err(m) if m.starts_with("reader error") => {}
            Err(m) => return Err(format!("after an I/O error at the first refill: {} (encoding {})", m, e.name())),
        }
    }
    // Reader::from_str: the declaration must not override UTF-8
    let got = read_decoded(Src::Str(&utf8), UTF_8, feff).map_err(|m| format!("from_str: {}", m))?;
    if let Some(d) = diff(&want, &got) {
        return Err(format!("Reader::from_str with a declaration naming {}: {}", e.name(), d));
    }
    // ... also when the string starts with a byte-order mark (U+FEFF)
    let with_bom = format!("{}{}", '\u{FEFF}', utf8);
    let got = read_decoded(Src::Str(&with_bom), UTF_8, feff).map_err(|m| format!("from_str with a leading U+FEFF: {}", m))?;
    if let Some(d) = diff(&want, &got) {
        return Err(format!("Reader::from_str with a leading U+FEFF and a declaration naming {}: {}", e.name(), d));
    }
    Ok(())
}

/// malformed sequences for E, confirmed by encoding_rs
fn malformed_candidates(e: &'static Encoding) -> Vec<Vec<u8>> {
    let mut c: Vec<Vec<u8>> = Vec::new();
    for b in 0x80..=0xFFu8 {
        c.push(vec![b, b' ', b'z']);
        c.push(vec![b'z', b]);
        c.push(vec![b, b]);
    }
    c.push(vec![0xC0, 0x80]);
    c.push(vec![0xE0, 0x80, 0x80]);
    c.push(vec![0xED, 0xA0, 0x80]);
    c.push(vec![0xF4, 0x90, 0x80, 0x80]);
    c.push(vec![0xE2, 0x82]);
    c.push(vec![0xF0, 0x9F, 0x98]);
    c.retain(|b| e.decode_without_bom_handling_and_without_replacement(b).is_none() && !b.iter().any(|x| matches!(x, b'<' | b'>' | b'&' | b'"' | b'\'')));
    c
}

fn check_malformed(e: &'static Encoding, mal: &[u8], cuts: Option<Vec<usize>>) -> Result<(), String> {
    let mut bytes = format!("<?xml version=\"1.0\" encoding=\"{}\"?><r a=\"", e.name()).into_bytes();
    bytes.extend_from_slice(mal);
    bytes.extend_from_slice(b"\">");
    bytes.extend_from_slice(mal);
    bytes.extend_from_slice(b"</r>");
    let mut r1;
    let mut r2;
    let mut buf = Vec::new();
    let mut events: Vec<Event<'static>> = Vec::new();
    let dec;
    match cuts {
        None => {
            r1 = Reader::from_reader(&bytes[..]);
            for _ in 0..8 {
                match r1.read_event() {
                    Ok(Event::Eof) => break,
                    Ok(e) => events.push(e.into_owned()),
                    Err(e) => return Err(format!("reader error {} (lexing must not depend on decodability)", e)),
                }
            }
            dec = r1.decoder();
        }
        Some(c) => {
            r2 = Reader::from_reader(ChunkedRead::new(&bytes, c));
            for _ in 0..8 {
                buf.clear();
                match r2.read_event_into(&mut buf) {
                    Ok(Event::Eof) => break,
                    Ok(e) => events.push(e.into_owned()),
                    Err(e) => return Err(format!("reader error {}", e)),
                }
            }
            dec = r2.decoder();
        }
    }
    if dec.encoding() != e {
        return Err(format!("decoder().encoding() is {} instead of {}", dec.encoding().name(), e.name()));
    }
    let mut seen_text = false;
    let mut seen_attr = false;
    for ev in &events {
        match ev {
            Event::Start(s) => {
                for a in s.attributes() {
                    let a = a.map_err(|e| format!("attribute error {}", e))?;
                    seen_attr = true;
                    if let Ok(v) = a.decode_and_unescape_value(dec) {
                        return Err(format!("malformed bytes {} in an attribute value decode to {:?} in {}", hex(mal), v, e.name()));
                    }
                    if let Ok(v) = dec.decode(&a.value) {
                        return Err(format!("malformed bytes {} decode to {:?} in {}", hex(mal), v, e.name()));
                    }
                }
            }
            Event::Text(t) => {
                seen_text = true;
                if let Ok(v) = t.unescape() {
                    return Err(format!("malformed bytes {} in a text unescape to {:?} in {}", hex(mal), v, e.name()));
                }
                if let Ok(v) = dec.decode(t) {
                    return Err(format!("malformed bytes {} in a text decode to {:?} in {}", hex(mal), v, e.name()));
                }
                let mut s = String::new();
                if dec.decode_into(t, &mut s).is_ok() {
                    return Err(format!("malformed bytes {} decode_into {:?} in {}", hex(mal), s, e.name()));
                }
            }
            _ => {}
        }
    }
    if !seen_text || !seen_attr {
        return Err(format!("the malformed payload {} changed the event structure: {:?}", hex(mal), events.iter().map(|e| event_obs(e).show()).collect::<Vec<_>>()));
    }
    Ok(())
}

fn check_state_machine(loc: &mut Local) -> Result<(), String> {
    // Implicit -> Bom -> Xml
    let mut b = vec![0xEF, 0xBB, 0xBF];
    b.extend_from_slice(b"<?xml version='1.0' encoding='windows-1251'?><r>\xcf</r>");
    let mut r = Reader::from_reader(&b[..]);
    let mut texts = Vec::new();
    loop {
        match r.read_event().map_err(|e| e.to_string())? {
            Event::Eof => break,
            Event::Text(t) => texts.push(r.decoder().decode(&t).map_err(|e| e.to_string())?.into_owned()),
            _ => {}
        }
    }
    if r.decoder().encoding() != WINDOWS_1251 || texts != vec!["П".to_string()] {
        return Err(format!("BOM then declaration windows-1251: encoding {} texts {:?}", r.decoder().encoding().name(), texts));
    }
    *loc.paths.entry("path.implicit_bom_xml").or_insert(0) += 1;
    // Implicit -> Xml, then a second declaration must not refine again
    let b = b"<?xml version='1.0' encoding='koi8-r'?><?xml version='1.0' encoding='windows-1251'?><r/>";
    let mut r = Reader::from_reader(&b[..]);
    let mut after_first = None;
    loop {
        match r.read_event().map_err(|e| e.to_string())? {
            Event::Eof => break,
            Event::Decl(_) if after_first.is_none() => after_first = Some(r.decoder().encoding()),
            _ => {}
        }
    }
    if after_first != Some(KOI8_R) {
        return Err(format!("declaration koi8-r: encoding after it is {:?}", after_first.map(|e| e.name())));
    }
    *loc.paths.entry("path.implicit_xml").or_insert(0) += 1;
    if r.decoder().encoding() != KOI8_R {
        return Err(format!("a second declaration changed the encoding from koi8-r to {}", r.decoder().encoding().name()));
    }
    *loc.paths.entry("path.xml_not_refined").or_insert(0) += 1;
    // ... for every first label, also one that merely confirms what was in use before (UTF-8 after
    // nothing or after a BOM), every second label, slice and buffered source, with events in between
    for (bom, first) in [(false, "UTF-8"), (false, "utf-8"), (true, "UTF-8"), (false, "koi8-r"), (false, "windows-1252"), (false, "Shift_JIS")] {
        for second in ["windows-1251", "UTF-8", "koi8-r", "Shift_JIS"] {
            let want = encoding_rs::Encoding::for_label(first.as_bytes()).unwrap();
            let mut b: Vec<u8> = if bom { vec![0xEF, 0xBB, 0xBF] } else { vec![] };
            b.extend_from_slice(format!("<?xml version='1.0' encoding='{}'?><r a='1'><!--c--><b/>t<?xml version='1.0' encoding='{}'?><c k='v'>u</c></r>", first, second).as_bytes());
            for buffered in [false, true] {
                let enc_at_end = if buffered {
                    let mut r = Reader::from_reader(ChunkedRead::new(&b, cuts_for_piece(b.len(), 5, 4)));
                    let mut buf = Vec::new();
                    loop {
                        buf.clear();
                        if matches!(r.read_event_into(&mut buf).map_err(|e| e.to_string())?, Event::Eof) {
                            break;
                        }
                        if r.decoder().encoding() != want {
                            break;
                        }
                    }
                    r.decoder().encoding()
                } else {
                    let mut r = Reader::from_reader(&b[..]);
                    loop {
                        if matches!(r.read_event().map_err(|e| e.to_string())?, Event::Eof) {
                            break;
                        }
                        if r.decoder().encoding() != want {
                            break;
                        }
                    }
                    r.decoder().encoding()
                };
                if enc_at_end != want {
                    return Err(format!(
                        "a document declared as {}{} switched its decoder to {} at a later declaration naming {} ({} source)",
                        first,
                        if bom { " (after a byte-order mark)" } else { "" },
                        enc_at_end.name(),
                        second,
                        if buffered { "buffered" } else { "slice" }
                    ));
                }
                *loc.paths.entry("path.second_declaration_ignored").or_insert(0) += 1;
            }
        }
    }
    // a BOM after the declaration is content, not a new encoding
    let mut b = b"<?xml version='1.0' encoding='koi8-r'?>".to_vec();
    b.extend_from_slice(&[0xFF, 0xFE]);
    b.extend_from_slice(b"<r/>");
    let mut r = Reader::from_reader(&b[..]);
    while !matches!(r.read_event().map_err(|e| e.to_string())?, Event::Eof) {}
    if r.decoder().encoding() != KOI8_R {
        return Err(format!("bytes FF FE after the declaration changed the encoding to {}", r.decoder().encoding().name()));
    }
    // Explicit (from_str) never refined
    for s in ["<?xml version='1.0' encoding='koi8-r'?><r>\u{FEFF}</r>", "\u{FEFF}<?xml version='1.0' encoding='koi8-r'?><r>\u{44F}</r>", "\u{FEFF}<r/>"] {
        let mut r = Reader::from_str(s);
        while !matches!(r.read_event().map_err(|e| e.to_string())?, Event::Eof) {}
        if r.decoder().encoding() != UTF_8 {
            return Err(format!("Reader::from_str({:?}): the encoding changed to {}", s, r.decoder().encoding().name()));
        }
    }
    *loc.paths.entry("path.explicit").or_insert(0) += 1;
    // short inputs around the byte-order mark: the mark alone, the mark as a piece of its own, the mark
    // plus one byte -- never an event that contains it
    let bom = [0xEFu8, 0xBB, 0xBF];
    for tail in [&b""[..], b"x", b"<r/>", b" ", b"<"] {
        let mut input = bom.to_vec();
        input.extend_from_slice(tail);
        let mut runs: Vec<(String, Vec<Vec<u8>>)> = Vec::new();
        let collect = |next: &mut dyn FnMut() -> Result<Event<'static>, quick_xml::Error>| -> Vec<Vec<u8>> {
            let mut v = Vec::new();
            for _ in 0..8 {
                match next() {
                    Ok(Event::Eof) | Err(_) => break,
                    Ok(e) => v.push(e.to_vec()),
                }
            }
            v
        };
        {
            let mut r = Reader::from_reader(&input[..]);
            runs.push(("slice".into(), collect(&mut || r.read_event().map(|e| e.into_owned()))));
        }
        for cuts in [vec![], vec![3], vec![3, 4]] {
            let mut r = Reader::from_reader(ChunkedRead::new(&input, cuts.clone()));
            let mut buf = Vec::new();
            runs.push((format!("buffered, cuts {:?}", cuts), collect(&mut || {
                buf.clear();
                r.read_event_into(&mut buf).map(|e| e.into_owned())
            })));
        }
        for (what, evs) in &runs {
            if evs.iter().any(|e| e.windows(3).any(|w| w == bom)) {
                return Err(format!("input EF BB BF + {:?} ({}): the byte-order mark appears in an event: {:?}", show(tail), what, evs.iter().map(|e| show(e)).collect::<Vec<_>>()));
            }
        }
        *loc.paths.entry("path.short_bom_inputs").or_insert(0) += 1;
    }
    Ok(())
}

/// The deserializer on top of the reader: a document with Cyrillic element and attribute names in a
/// legacy encoding, labelled so, deserializes to the same value as its UTF-8 original.
fn check_serde_encoded(e: &'static Encoding, r: &mut Rng) -> Result<(), String> {
    use crate::family::{gen_cyr_doc, CyrDoc};
    let (plain, declared, v) = gen_cyr_doc(r, e.name());
    let from_utf8: CyrDoc = quick_xml::de::from_str(&plain).map_err(|x| format!("the UTF-8 original {:?} does not deserialize: {}", plain, x))?;
    if from_utf8 != v {
        return Err(format!("harness error: the UTF-8 original {:?} deserializes to {:?}, expected {:?}", plain, from_utf8, v));
    }
    let (bytes, _, bad) = e.encode(&declared);
    if bad {
        return Err("harness error: the document is not representable in the target encoding".into());
    }
    for piece in [0usize, 1, 5] {
        let cuts = if piece == 0 { vec![] } else { cuts_for_piece(bytes.len(), piece, 0) };
        let got: Result<CyrDoc, _> = quick_xml::de::from_reader(ChunkedRead::new(&bytes, cuts));
        match got {
            Ok(g) if g == v => {}
            Ok(g) => return Err(format!("from_reader of the document in {} (pieces of {}) gives {:?} but the UTF-8 original gives {:?} (document {:?})", e.name(), piece, g, v, declared)),
            Err(x) => return Err(format!("from_reader of the document in {} (pieces of {}) fails with {} but the UTF-8 original deserializes (document {:?})", e.name(), piece, x, declared)),
        }
    }
    Ok(())
}

fn gen_doc(e: &'static Encoding, r: &mut Rng) -> Doc {
    let avoid = [SHIFT_JIS, GBK, GB18030, BIG5].contains(&e);
    let feff_encodable = {
        let (b, _, bad) = e.encode("\u{FEFF}");
        !bad && !b.iter().any(|b| matches!(b, b'<' | b'>' | b'&' | b'"' | b'\'' | b'?' | b'-' | b' ' | b'\t' | b'\r' | b'\n' | b'=' | b'/' | b']'))
    };
    // now and then payloads of 400 to 2400 bytes (internal piecewise decoding, buffer growth)
    let long = r.below(25) == 0;
    let mut piece = |r: &mut Rng, max: usize, avoid5d: bool| -> String {
        let n = if long && max >= 4 { 400 + r.below(800) } else if max == 5 { 1 + r.below(5) } else { r.below(max) };
        let mut s = draw_chars(e, r, n, avoid5d);
        if r.bool() {
            s.insert(0, 'x');
        }
        if r.bool() {
            s.push('y');
        }
        // U+FEFF as payload content (first, last or inner character) where the encoding has it
        if feff_encodable && r.below(6) == 0 {
            let at = match r.below(3) {
                0 => 0,
                1 => s.len(),
                _ => {
                    let mut i = r.below(s.len() + 1);
                    while !s.is_char_boundary(i) {
                        i -= 1;
                    }
                    i
                }
            };
            s.insert(at, '\u{FEFF}');
        }
        s
    };
    Doc {
        label: e.name().to_string(),
        declaration: true,
        bom: false,
        text: piece(r, 5, false),
        attr_d: piece(r, 4, false),
        attr_s: piece(r, 4, false),
        comment: piece(r, 4, false),
        cdata: piece(r, 4, avoid),
        pi: piece(r, 3, false),
        name: piece(r, 3, false),
    }
}

fn run(ctx: &mut Ctx) {
    let mut loc = Local::default();
    let t = ctx.tier;
    let small = ctx.layer == "miri";
    let encs = ascii_compatible();
    let mut r = ctx.rng(19);
    if ctx.shard == 0 {
        ctx.eval(0xC17, true);
        if let Err(d) = guarded(|| check_state_machine(&mut loc)).unwrap_or_else(Err) {
            ctx.violation(json!({"state_machine": true}), d);
        }
    }
    // the deserializer over documents in Cyrillic-capable encodings (names outside ASCII)
    {
        let n = if small { 2 } else { ctx.scaled(t.pick(400, 4_000)) / ctx.nshards as u64 + 1 };
        for e in [encoding_rs::WINDOWS_1251, encoding_rs::KOI8_R, encoding_rs::ISO_8859_5, encoding_rs::IBM866, encoding_rs::UTF_8] {
            for k in 0..n {
                let vseed = r.next();
                let case = json!({"serde_encoded": e.name(), "value_seed": vseed});
                ctx.journal(|| case.clone());
                ctx.eval(H::new().str(e.name()).u64(vseed).u64(0x5E).finish(), true);
                let _ = k;
                match guarded(|| check_serde_encoded(e, &mut Rng::new(vseed))).unwrap_or_else(Err) {
                    Ok(()) => *loc.constructs.entry("serde_encoded_docs").or_insert(0) += 1,
                    Err(d) => {
                        ctx.violation(case, d);
                        if ctx.full() {
                            break;
                        }
                    }
                }
            }
        }
    }
    let per_enc = if small { 2 } else { ctx.scaled(t.pick(5_000, 50_000)) / ctx.nshards as u64 + 1 };
    'outer: for (ei, e) in encs.iter().enumerate() {
        if encoding_rs::Encoding::for_label(e.name().as_bytes()) != Some(e) {
            ctx.violation(json!({"label": e.name()}), format!("harness error: label {} does not map back to the encoding", e.name()));
            continue;
        }
        for k in 0..per_enc {
            let mut doc = gen_doc(e, &mut r);
            // UTF-8: also with BOM and without declaration
            if *e == UTF_8 {
                doc.bom = k % 2 == 0;
                doc.declaration = k % 3 != 0;
            }
            if doc.bom {
                loc.bom += 1;
            }
            if !doc.declaration {
                loc.nodecl += 1;
            }
            let cuts = match k % 3 {
                0 => None,
                // the mark as a piece of its own is enough for the sniff to see it
                1 => Some(cuts_for_piece(4096, 1, if doc.bom { 3 } else { 0 })),
                _ => {
                    let mut c = Vec::new();
                    let mut p = 4 + r.below(5);
                    while p < 4096 {
                        c.push(p);
                        p += 1 + r.below(9);
                    }
                    Some(c)
                }
            };
            if cuts.is_some() {
                loc.chunked += 1;
            }
            let case = json!({"encoding": e.name(), "doc": doc.to_json(), "cuts": cuts.as_ref().map(|c| c.len())});
            ctx.journal(|| case.clone());
            let utf8 = doc.utf8();
            ctx.eval(H::new().str(e.name()).str(&utf8).u64(k % 3).finish(), !utf8.is_ascii());
            *loc.enc.entry(e.name()).or_insert(0) += 1;
            *loc.chars.entry(e.name()).or_insert(0) += utf8.chars().filter(|c| !c.is_ascii()).count() as u64;
            for (name, s) in [("construct.text", &doc.text), ("construct.attr_double", &doc.attr_d), ("construct.attr_single", &doc.attr_s), ("construct.comment", &doc.comment), ("construct.cdata", &doc.cdata), ("construct.pi", &doc.pi), ("construct.name", &doc.name)] {
                if !s.is_ascii() {
                    *loc.constructs.entry(name).or_insert(0) += 1;
                }
            }
            for s in [&doc.text, &doc.attr_d, &doc.attr_s, &doc.comment, &doc.cdata] {
                if s.starts_with('\u{FEFF}') {
                    *loc.constructs.entry("payload_starting_with_U+FEFF").or_insert(0) += 1;
                }
            }
            let res = guarded(|| check_doc(e, &doc, cuts.clone())).unwrap_or_else(Err);
            if let Err(d) = res {
                ctx.violation(json!({"encoding": e.name(), "doc": doc.to_json(), "cuts": cuts}), d);
                if ctx.full() {
                    break 'outer;
                }
            } else if k % 50 == 0 {
                ctx.sample(|| json!({"encoding": e.name(), "utf8_document": utf8}));
            }
        }
        // malformed injection: every confirmed candidate (sharded)
        let cands = malformed_candidates(e);
        for (ci, mal) in cands.iter().enumerate() {
            if !ctx.owns((ei * 1000 + ci) as u64) || (small && ci % 40 != 0) {
                continue;
            }
            let cuts = if ci % 2 == 0 { None } else { Some(cuts_for_piece(4096, 1 + ci % 3, 0)) };
            ctx.journal(|| json!({"encoding": e.name(), "malformed": hex(mal)}));
            ctx.eval(H::new().str(e.name()).bytes(mal).finish(), true);
            let res = guarded(|| check_malformed(e, mal, cuts.clone())).unwrap_or_else(Err);
            match res {
                Ok(()) => *loc.malformed.entry(e.name()).or_insert(0) += 1,
                Err(d) => {
                    ctx.violation(json!({"encoding": e.name(), "malformed": hex(mal), "cuts": cuts}), d);
                    if ctx.full() {
                        break 'outer;
                    }
                }
            }
        }
    }
    // the repository's encoding corpus: every payload decodes, slice and pieces agree
    if !small {
        let corpus = crate::gen::load_corpus(1 << 20);
        for (i, (name, data)) in corpus.iter().enumerate() {
            if !name.contains("/encoding/") || !ctx.owns(i as u64) {
                continue;
            }
            // skip the encodings quick-xml documents as unsupported
            if name.contains("utf16") || name.contains("utf-16") || name.contains("iso-2022-jp") || name.contains("ISO-2022-JP") {
                continue;
            }
            loc.corpus += 1;
            ctx.eval(H::new().str(name).finish(), true);
            let res = guarded(|| -> Result<(), String> {
                let enc_of = |r: &Reader<&[u8]>| r.decoder().encoding();
                let mut r = Reader::from_reader(&data[..]);
                let mut a = Vec::new();
                loop {
                    match r.read_event().map_err(|e| format!("{}: {}", name, e))? {
                        Event::Eof => break,
                        Event::Text(t) => a.push(r.decoder().decode(&t).map_err(|e| format!("{}: text does not decode: {}", name, e))?.into_owned()),
                        Event::Start(s) | Event::Empty(s) => a.push(r.decoder().decode(s.name().as_ref()).map_err(|e| format!("{}: name does not decode: {}", name, e))?.into_owned()),
                        _ => {}
                    }
                }
                let e1 = enc_of(&r);
                let mut r2 = Reader::from_reader(ChunkedRead::new(data, cuts_for_piece(data.len(), 3, 4)));
                let mut b = Vec::new();
                let mut buf = Vec::new();
                loop {
                    buf.clear();
                    match r2.read_event_into(&mut buf).map_err(|e| format!("{}: {}", name, e))? {
                        Event::Eof => break,
                        Event::Text(t) => b.push(r2.decoder().decode(&t).map_err(|e| format!("{}: {}", name, e))?.into_owned()),
                        Event::Start(s) | Event::Empty(s) => b.push(r2.decoder().decode(s.name().as_ref()).map_err(|e| format!("{}: {}", name, e))?.into_owned()),
                        _ => {}
                    }
                }
                if a != b || e1 != r2.decoder().encoding() {
                    return Err(format!("{}: slice and buffered reads decode differently", name));
                }
                if a.iter().any(|s| s.contains('\u{FFFD}')) {
                    return Err(format!("{}: replacement character in decoded content", name));
                }
                Ok(())
            })
            .unwrap_or_else(Err);
            if let Err(d) = res {
                ctx.violation(json!({"corpus_file": name}), d);
            }
        }
    }
    for (k, v) in &loc.enc {
        ctx.add(&format!("enc.{}", k), *v);
    }
    for (k, v) in &loc.chars {
        ctx.add(&format!("chars.{}", k), *v);
    }
    for k in ["construct.text", "construct.attr_double", "construct.attr_single", "construct.comment", "construct.cdata", "construct.pi", "construct.name"] {
        ctx.add(k, loc.constructs.get(k).copied().unwrap_or(0));
    }
    ctx.add("serde_documents_in_legacy_encodings", loc.constructs.get("serde_encoded_docs").copied().unwrap_or(0));
    ctx.add("payload_starting_with_U+FEFF", loc.constructs.get("payload_starting_with_U+FEFF").copied().unwrap_or(0));
    ctx.add("malformed_rejected", loc.malformed.values().sum());
    for (k, v) in &loc.malformed {
        ctx.add(&format!("malformed.{}", k), *v);
    }
    for k in ["path.implicit_bom_xml", "path.implicit_xml", "path.explicit", "path.xml_not_refined"] {
        ctx.add(k, loc.paths.get(k).copied().unwrap_or(0));
    }
    ctx.add("bom_inputs", loc.bom);
    ctx.add("no_declaration_inputs", loc.nodecl);
    ctx.add("corpus_files", loc.corpus);
    ctx.add("source.chunked", loc.chunked);
}

fn replay(case: &Value, _ctx: &mut Ctx) -> Option<String> {
    let mut loc = Local::default();
    if case.get("state_machine").is_some() {
        return check_state_machine(&mut loc).err();
    }
    if let Some(label) = case.get("serde_encoded").and_then(|v| v.as_str()) {
        let e = Encoding::for_label(label.as_bytes())?;
        return check_serde_encoded(e, &mut Rng::new(case["value_seed"].as_u64().unwrap_or(0))).err();
    }
    let e = Encoding::for_label(case["encoding"].as_str().unwrap_or("utf-8").as_bytes())?;
    let cuts: Option<Vec<usize>> = case["cuts"].as_array().map(|a| a.iter().map(|x| x.as_u64().unwrap_or(0) as usize).collect());
    if let Some(m) = case["malformed"].as_str() {
        return check_malformed(e, &unhex(m), cuts).err();
    }
    if case.get("doc").is_some() {
        return check_doc(e, &Doc::from_json(&case["doc"]), cuts).err();
    }
    None
}
