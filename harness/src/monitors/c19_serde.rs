//! Serde half of C19: indented vs plain serialization of the value family.

use super::c19::Local;
use crate::ctx::{guarded, Ctx};
use crate::family::*;
use crate::obs::*;
use crate::refmodel::tok::{is_ws, tokenize};
use crate::rng::{Rng, H};
use serde_json::{json, Value};

fn stream(xml: &str) -> Vec<Obs> {
    let toks = tokenize(xml.as_bytes(), CFG_NEUTRAL);
    let obs: Vec<Obs> = toks.into_iter().map(|t| t.obs).collect();
    // drop whitespace-only text tokens that stand between two markup tokens (or at the document edges)
    let mut out = Vec::new();
    for (i, o) in obs.iter().enumerate() {
        if let Obs::Ev(Kind::Text, raw, _) = o {
            if raw.iter().all(|b| is_ws(*b)) {
                let prev_markup = i == 0 || !matches!(obs[i - 1], Obs::Ev(Kind::Text, _, _));
                let next_markup = i + 1 >= obs.len() || !matches!(obs[i + 1], Obs::Ev(Kind::Text, _, _));
                if prev_markup && next_markup {
                    continue;
                }
            }
        }
        out.push(o.clone());
    }
    out
}

/// Ok(true) when the write_serializable path was compared as well
pub fn check(ops: &TypeOps, v: &dyn Val, cfg: &SerCfg) -> Result<bool, String> {
    let mut ws = false;
    let mut plain_cfg = cfg.clone();
    plain_cfg.indent = None;
    let plain = v.ser(&plain_cfg).map_err(|e| format!("plain serialization failed: {}", e))?;
    let ind = v.ser(cfg).map_err(|e| format!("indented serialization failed although the plain one succeeds: {}", e))?;
    let (a, b) = (stream(&plain), stream(&ind));
    if a != b {
        let i = (0..a.len().max(b.len())).find(|&i| a.get(i) != b.get(i)).unwrap_or(0);
        return Err(format!(
            "token {} is {} in the plain serialization but {} in the indented one (plain {:?}, indented {:?})",
            i,
            a.get(i).map(|o| o.show()).unwrap_or_else(|| "<none>".into()),
            b.get(i).map(|o| o.show()).unwrap_or_else(|| "<none>".into()),
            plain,
            ind
        ));
    }
    // the same value through Writer::write_serializable inside an open element of an indenting writer
    if let (Some(ind_cfg), Some(tag)) = (cfg.indent, cfg.root.as_deref().or(Some("w_root"))) {
        let mut pc = plain_cfg.clone();
        pc.root = Some(tag.to_string());
        pc.level = 1;
        pc.expand = false;
        if let Ok(p2) = v.ser(&pc) {
            let nested = v.se_write_serializable(tag, Some((ind_cfg.0 as u8, ind_cfg.1)), true).map_err(|e| format!("write_serializable on an indenting writer failed although to_string_with_root succeeds: {}", e))?;
            let want = stream(&format!("<o_outer>{}</o_outer>", p2));
            let got = stream(&nested);
            if want != got {
                let i = (0..want.len().max(got.len())).find(|&i| want.get(i) != got.get(i)).unwrap_or(0);
                return Err(format!(
                    "write_serializable inside <o_outer> on an indenting writer: token {} is {} but the plain serialization has {} (written {:?})",
                    i,
                    got.get(i).map(|o| o.show()).unwrap_or_else(|| "<none>".into()),
                    want.get(i).map(|o| o.show()).unwrap_or_else(|| "<none>".into()),
                    nested
                ));
            }
            ws = true;
        }
    }
    let x = (ops.de_str)(&plain, None).map_err(|e| format!("plain serialization does not deserialize: {}", e.msg))?;
    let y = (ops.de_str)(&ind, None).map_err(|e| format!("indented serialization does not deserialize: {} (document {:?})", e.msg, ind))?;
    if !x.eq_val(y.as_ref()) {
        return Err(format!("indented and plain serializations deserialize to different values: {} vs {} (indented {:?})", y.dbg(), x.dbg(), ind));
    }
    if !x.eq_val(v) {
        return Err(format!("deserialized {} but serialized {}", x.dbg(), v.dbg()));
    }
    Ok(ws)
}

/// serialize-only shapes (mixed content with items that write nothing): token-stream relation only
pub fn check_stream_only(v: &dyn Val, cfg: &SerCfg) -> Result<bool, String> {
    let mut plain_cfg = cfg.clone();
    plain_cfg.indent = None;
    let plain = match v.ser(&plain_cfg) {
        Ok(x) => x,
        Err(_) => return Ok(false),
    };
    let ind = v.ser(cfg).map_err(|e| format!("indented serialization failed although the plain one succeeds: {}", e))?;
    let (a, b) = (stream(&plain), stream(&ind));
    if a != b {
        let i = (0..a.len().max(b.len())).find(|&i| a.get(i) != b.get(i)).unwrap_or(0);
        return Err(format!(
            "token {} is {} in the plain serialization but {} in the indented one (plain {:?}, indented {:?})",
            i,
            a.get(i).map(|o| o.show()).unwrap_or_else(|| "<none>".into()),
            b.get(i).map(|o| o.show()).unwrap_or_else(|| "<none>".into()),
            plain,
            ind
        ));
    }
    Ok(true)
}

pub fn run_serde(ctx: &mut Ctx, loc: &mut Local, r: &mut Rng) {
    // shapes outside the round-trip domain first
    let so = ser_only();
    let n = ctx.scaled(ctx.tier.pick(40_000, 3_000_000)) / ctx.nshards as u64 + 1;
    for k in 0..n {
        let s = &so[(k as usize) % so.len()];
        let vseed = r.next();
        let v = (s.gen)(&mut Rng::new(vseed));
        let cfg = SerCfg {
            level: r.below(3) as u8,
            indent: Some((*r.pick(&[' ', '\t']), *r.pick(&[0usize, 1, 2, 4, 9]))),
            expand: r.bool(),
            root: if r.bool() { Some("root".into()) } else { None },
        };
        let case = json!({"serde": true, "ser_only": s.name, "value_seed": vseed, "cfg": cfg.to_json()});
        ctx.journal(|| case.clone());
        ctx.eval(H::new().str(s.name).u64(vseed).u64(7).finish(), s.name.starts_with("Mixed"));
        match guarded(|| check_stream_only(v.as_ref(), &cfg)).unwrap_or_else(Err) {
            Ok(true) => {
                loc.serde_values += 1;
                if s.name.starts_with("Mixed") {
                    loc.serde_mixed += 1;
                }
            }
            Ok(false) => {}
            Err(d) => {
                ctx.violation(case, d);
                if ctx.full() {
                    return;
                }
            }
        }
    }
    let fam = family();
    let n = ctx.scaled(ctx.tier.pick(100_000, 8_000_000)) / ctx.nshards as u64 + 1;
    for k in 0..n {
        let ops = &fam[(k as usize) % fam.len()];
        let vseed = r.next();
        let v = (ops.gen.unwrap())(&mut Rng::new(vseed));
        let cfg = SerCfg {
            level: r.below(3) as u8,
            indent: Some((*r.pick(&[' ', '\t']), *r.pick(&[0usize, 1, 2, 4, 9]))),
            expand: r.bool(),
            root: None,
        };
        let case = json!({"serde": true, "type": ops.name, "value_seed": vseed, "cfg": cfg.to_json()});
        ctx.journal(|| case.clone());
        let mixed = matches!(ops.name, "HasMixed" | "Deep" | "TextStr" | "HasChoices" | "Opt");
        ctx.eval(H::new().str(ops.name).u64(vseed).u64(cfg.level as u64).finish(), mixed);
        loc.serde_values += 1;
        if mixed {
            loc.serde_mixed += 1;
        }
        let res = guarded(|| check(ops, v.as_ref(), &cfg));
        let res = match res {
            Ok(r) => r,
            Err(p) => Err(p),
        };
        match res {
            Ok(true) => loc.serde_ws += 1,
            Ok(false) => {}
            Err(d) => {
                ctx.violation(case, d);
                if ctx.full() {
                    return;
                }
            }
        }
    }
}

pub fn replay_serde(case: &Value, _ctx: &mut Ctx) -> Option<String> {
    if let Some(name) = case["ser_only"].as_str() {
        let so = ser_only();
        let s = so.iter().find(|o| o.name == name)?;
        let v = (s.gen)(&mut Rng::new(case["value_seed"].as_u64().unwrap_or(0)));
        return check_stream_only(v.as_ref(), &SerCfg::from_json(&case["cfg"])).err();
    }
    let fam = family();
    let ops = fam.iter().find(|o| o.name == case["type"].as_str().unwrap_or(""))?;
    let v = (ops.gen.unwrap())(&mut Rng::new(case["value_seed"].as_u64().unwrap_or(0)));
    check(ops, v.as_ref(), &SerCfg::from_json(&case["cfg"])).err()
}
