//! C05 — namespace resolution follows the declarations in scope at each event.
//! Oracle: R_ns, a stack of {prefix -> uri} frames driven by R_tok's token stream and by the
//! consumer's call history (read event / read resolved event / skip element / read text).

use crate::ctx::{guarded, show, Ctx};
use crate::obs::*;
use crate::refmodel::attr::{parse as parse_attrs, AItem, AttrStats};
use crate::refmodel::tok::tokenize;
use crate::rng::{Rng, H};
use crate::runner::PropSpec;
use crate::sources::*;
use quick_xml::events::{BytesStart, Event};
use quick_xml::name::{PrefixDeclaration, QName, ResolveResult};
use quick_xml::reader::NsReader;
use serde_json::{json, Value};
use std::collections::BTreeSet;

pub const SPEC: PropSpec = PropSpec {
    id: "C05",
    level: "exploration",
    rule: "Cases = (well-formed document over prefixes {default, p, q, xsi, undeclared zz}, URIs {u1, u2, empty, the XSI URI}, names {a, b}, nesting <= 5, with declarations, re-declarations, xmlns=\"\", xmlns:p=\"\", shadowing, same prefix on siblings, declarations on empty elements; consumer history: per call read_event or read_resolved_event, after each Start optionally skip (read_to_end / read_to_end_into / read_to_end_into_async) or read_text, and from anywhere inside an element optionally skip the rest of the innermost open element or of one of its ancestors; source slice / buffered piece 1 or random / async; expand_empty_elements on/off). After every Start, Empty and End event and after every skip the monitor compares with the scope model R_ns: the ResolveResult returned by read_resolved_event, resolve_element(name), resolve_attribute(key) for every attribute of the event, a fixed probe set (each pool prefix, unprefixed as element and as attribute, xml:, xmlns:, an undeclared prefix), the SET yielded by prefixes(), and Attributes::has_nil. Exhaustive: all documents of a 4-element skeleton pool x all skip/text choices (3^k) x 3 read-kind patterns; random documents and histories beyond. Separately: attempts to rebind xml / xmlns or to bind another prefix to their URIs must return the documented NamespaceError and leave the bindings unchanged. Non-trivial = the history contains at least one skip or read_text, or the document a re-declaration / un-declaration.",
    assumptions: &["R_tok and R_attr are used as tools to get the token stream and the attribute lists", "namespace names are the raw attribute values (quick-xml documents that they are not normalised)"],
    required: &["probes.Bound", "probes.Unbound", "probes.Unknown", "skips", "skips_mid_element", "skips_closing_several_elements", "skip_then_resolve_sibling", "read_texts", "scopes_pushed", "undeclarations_seen", "shadowing_seen", "has_nil.true", "has_nil.false", "namespace_errors_checked", "source.slice", "source.buffered", "source.async", "prefix_sets_compared"],
    run,
    replay,
    thorough_layers: &[],
    quick_layers: &[],
    post: None,
};

pub const XSI: &str = "http://www.w3.org/2001/XMLSchema-instance";
const XML_NS: &str = "http://www.w3.org/XML/1998/namespace";
const XMLNS_NS: &str = "http://www.w3.org/2000/xmlns/";

#[derive(Clone, Debug, PartialEq, Eq)]
pub enum RR {
    Bound(Vec<u8>),
    Unbound,
    Unknown(Vec<u8>),
}
fn rr(r: &ResolveResult) -> RR {
    match r {
        ResolveResult::Bound(n) => RR::Bound(n.as_ref().to_vec()),
        ResolveResult::Unbound => RR::Unbound,
        ResolveResult::Unknown(p) => RR::Unknown(p.clone()),
    }
}

#[derive(Default)]
pub struct Local {
    non_element_probes: u64,
    bound: u64,
    unbound: u64,
    unknown: u64,
    skips: u64,
    mid_skips: u64,
    ancestor_skips: u64,
    skip_sibling: u64,
    texts: u64,
    pushed: u64,
    undecl: u64,
    shadow: u64,
    nil_t: u64,
    nil_f: u64,
    ns_errors: u64,
    src: [u64; 3],
    sets: u64,
}

// ---------------------------------------------------------------------------
// R_ns
// ---------------------------------------------------------------------------

#[derive(Clone, Debug, Default)]
struct Scope {
    frames: Vec<Vec<(Vec<u8>, Vec<u8>)>>,
    pending: bool,
}
impl Scope {
    fn lookup(&self, prefix: &[u8]) -> Option<&Vec<u8>> {
        for f in self.frames.iter().rev() {
            // within one element the last declaration of a prefix wins (the generator never repeats one)
            for (p, u) in f.iter().rev() {
                if p == prefix {
                    return Some(u);
                }
            }
        }
        None
    }
    fn resolve(&self, name: &[u8], attribute: bool) -> RR {
        let prefix: &[u8] = match name.iter().position(|b| *b == b':') {
            Some(i) => &name[..i],
            None => b"",
        };
        if prefix.is_empty() {
            if attribute {
                return RR::Unbound;
            }
            return match self.lookup(b"") {
                Some(u) if !u.is_empty() => RR::Bound(u.clone()),
                _ => RR::Unbound,
            };
        }
        if prefix == b"xml" {
            return RR::Bound(XML_NS.as_bytes().to_vec());
        }
        if prefix == b"xmlns" {
            return RR::Bound(XMLNS_NS.as_bytes().to_vec());
        }
        match self.lookup(prefix) {
            Some(u) if !u.is_empty() => RR::Bound(u.clone()),
            _ => RR::Unknown(prefix.to_vec()),
        }
    }
    fn prefixes(&self) -> BTreeSet<(Vec<u8>, Vec<u8>)> {
        let mut seen: BTreeSet<Vec<u8>> = BTreeSet::new();
        let mut out = BTreeSet::new();
        for f in self.frames.iter().rev() {
            for (p, u) in f.iter().rev() {
                if seen.insert(p.clone()) && !u.is_empty() {
                    out.insert((p.clone(), u.clone()));
                }
            }
        }
        out
    }
}

/// attributes of a start tag's content (name + attributes), via R_attr
fn attrs_of(content: &[u8], name_len: usize) -> Vec<(Vec<u8>, Vec<u8>)> {
    let mut st = AttrStats::default();
    parse_attrs(content, name_len, false, false, &mut st)
        .into_iter()
        .filter_map(|i| match i {
            AItem::Ok { key, value: Some(v) } => Some((content[key.0..key.1].to_vec(), content[v.0..v.1].to_vec())),
            _ => None,
        })
        .collect()
}

fn decls_of(attrs: &[(Vec<u8>, Vec<u8>)]) -> Vec<(Vec<u8>, Vec<u8>)> {
    attrs
        .iter()
        .filter_map(|(k, v)| {
            if k == b"xmlns" {
                Some((vec![], v.clone()))
            } else if k.starts_with(b"xmlns:") {
                Some((k[6..].to_vec(), v.clone()))
            } else {
                None
            }
        })
        .collect()
}

// ---------------------------------------------------------------------------
// uniform view of the three NsReader kinds
// ---------------------------------------------------------------------------

trait NsRd {
    /// (event observation, resolve result if the resolving read was used)
    fn next(&mut self, resolved: bool) -> Result<(Obs, Option<RR>), String>;
    fn skip(&mut self, name: &[u8]) -> Result<bool, String>;
    fn text(&mut self, _name: &[u8]) -> Option<Result<String, String>> {
        None
    }
    fn resolve(&self, name: &[u8], attribute: bool) -> RR;
    fn prefixes(&self) -> BTreeSet<(Vec<u8>, Vec<u8>)>;
    fn has_nil(&self, content: &str, name_len: usize) -> bool;
}

macro_rules! common_ns {
    () => {
        fn resolve(&self, name: &[u8], attribute: bool) -> RR {
            let (r, _) = if attribute { self.0.resolve_attribute(QName(name)) } else { self.0.resolve_element(QName(name)) };
            let (r2, _) = self.0.resolve(QName(name), attribute);
            if rr(&r) != rr(&r2) {
                return RR::Unknown(b"<resolve() and resolve_element()/resolve_attribute() disagree>".to_vec());
            }
            rr(&r)
        }
        fn prefixes(&self) -> BTreeSet<(Vec<u8>, Vec<u8>)> {
            let mut out = BTreeSet::new();
            let mut n = 0;
            for (p, ns) in self.0.prefixes() {
                n += 1;
                let p = match p {
                    PrefixDeclaration::Default => vec![],
                    PrefixDeclaration::Named(x) => x.to_vec(),
                };
                out.insert((p, ns.as_ref().to_vec()));
            }
            if n != out.len() {
                // a prefix listed twice: make the set unequal to anything the model produces
                out.insert((b"<duplicate in prefixes()>".to_vec(), vec![]));
            }
            out
        }
        fn has_nil(&self, content: &str, name_len: usize) -> bool {
            BytesStart::from_content(content, name_len).attributes().has_nil(&self.0)
        }
    };
}

struct NS<'a>(NsReader<&'a [u8]>);
impl<'a> NsRd for NS<'a> {
    fn next(&mut self, resolved: bool) -> Result<(Obs, Option<RR>), String> {
        if resolved {
            match self.0.read_resolved_event() {
                Ok((r, e)) => Ok((event_obs(&e), Some(rr(&r)))),
                Err(e) => Ok((Obs::Err(err_obs(&e)), None)),
            }
        } else {
            let r = self.0.read_event();
            Ok((result_obs(&r), None))
        }
    }
    fn skip(&mut self, name: &[u8]) -> Result<bool, String> {
        Ok(self.0.read_to_end(QName(name)).is_ok())
    }
    fn text(&mut self, name: &[u8]) -> Option<Result<String, String>> {
        Some(self.0.read_text(QName(name)).map(|c| c.into_owned()).map_err(|e| e.to_string()))
    }
    common_ns!();
}
struct NB<'a>(NsReader<ChunkedRead<'a>>);
impl<'a> NsRd for NB<'a> {
    fn next(&mut self, resolved: bool) -> Result<(Obs, Option<RR>), String> {
        let mut buf = Vec::new();
        if resolved {
            match self.0.read_resolved_event_into(&mut buf) {
                Ok((r, e)) => Ok((event_obs(&e), Some(rr(&r)))),
                Err(e) => Ok((Obs::Err(err_obs(&e)), None)),
            }
        } else {
            let r = self.0.read_event_into(&mut buf);
            Ok((result_obs(&r), None))
        }
    }
    fn skip(&mut self, name: &[u8]) -> Result<bool, String> {
        let mut buf = Vec::new();
        Ok(self.0.read_to_end_into(QName(name), &mut buf).is_ok())
    }
    common_ns!();
}
struct NA<'a>(NsReader<AsyncChunked<'a>>, u64);
impl<'a> NsRd for NA<'a> {
    fn next(&mut self, resolved: bool) -> Result<(Obs, Option<RR>), String> {
        let mut buf = Vec::new();
        if resolved {
            let (res, _) = block_on(self.0.read_resolved_event_into_async(&mut buf), self.1)?;
            match res {
                Ok((r, e)) => Ok((event_obs(&e), Some(rr(&r)))),
                Err(e) => Ok((Obs::Err(err_obs(&e)), None)),
            }
        } else {
            let (res, _) = block_on(self.0.read_event_into_async(&mut buf), self.1)?;
            Ok((result_obs(&res), None))
        }
    }
    fn skip(&mut self, name: &[u8]) -> Result<bool, String> {
        let mut buf = Vec::new();
        let (res, _) = block_on(self.0.read_to_end_into_async(QName(name), &mut buf), self.1 * 8)?;
        Ok(res.is_ok())
    }
    common_ns!();
}

// ---------------------------------------------------------------------------
// the check
// ---------------------------------------------------------------------------

const PROBES: [&[u8]; 8] = [b"x", b"p:x", b"q:x", b"xsi:nil", b"xml:lang", b"xmlns:p", b"zz:x", b"p:"];

#[derive(Clone, Debug)]
pub struct History {
    /// bit i: call i uses read_resolved_event
    pub resolved_bits: u64,
    /// bit i: after call i (if it returned a child event inside an open element) the rest of the
    /// enclosing element is skipped with read_to_end
    pub mid_bits: u64,
    /// action after the k-th Start event: 0 continue, 1 skip, 2 read_text (skip where unavailable)
    pub actions: Vec<u8>,
}

fn compare_scope<R: NsRd>(r: &R, m: &Scope, what: &str, loc: &mut Local) -> Result<(), String> {
    for p in PROBES {
        for attribute in [false, true] {
            let got = r.resolve(p, attribute);
            let want = m.resolve(p, attribute);
            match &got {
                RR::Bound(_) => loc.bound += 1,
                RR::Unbound => loc.unbound += 1,
                RR::Unknown(_) => loc.unknown += 1,
            }
            if got != want {
                return Err(format!(
                    "{}: resolving {} name {:?} gives {:?} but the declarations in scope give {:?}",
                    what,
                    if attribute { "attribute" } else { "element" },
                    show(p),
                    got,
                    want
                ));
            }
        }
    }
    let got = r.prefixes();
    let want = m.prefixes();
    loc.sets += 1;
    if got != want {
        let f = |s: &BTreeSet<(Vec<u8>, Vec<u8>)>| s.iter().map(|(p, u)| format!("{}={}", show(p), show(u))).collect::<Vec<_>>().join(", ");
        return Err(format!("{}: prefixes() yields {{{}}} but the declarations in scope are {{{}}}", what, f(&got), f(&want)));
    }
    Ok(())
}

fn check_with<R: NsRd>(mut r: R, input: &[u8], expand: bool, hist: &History, loc: &mut Local) -> Result<(), String> {
    // token stream (expanded if configured)
    let mut toks: Vec<Obs> = Vec::new();
    for s in tokenize(input, CFG_NEUTRAL) {
        match &s.obs {
            Obs::Ev(Kind::Eof, _, _) => break,
            Obs::Ev(Kind::Empty, raw, name) if expand => {
                toks.push(Obs::Ev(Kind::Start, raw.clone(), name.clone()));
                toks.push(Obs::Ev(Kind::End, name.clone(), name.clone()));
            }
            Obs::Ev(_, _, _) => toks.push(s.obs.clone()),
            Obs::Err(_) => return Err("generator produced a document R_tok rejects".into()),
            Obs::Raw(_) => {}
        }
    }
    let mut m = Scope::default();
    let mut ti = 0usize;
    let mut call = 0u32;
    let mut start_no = 0usize;
    let mut after_skip = false;
    let mut open: Vec<Vec<u8>> = Vec::new();
    while ti < toks.len() {
        let resolved = hist.resolved_bits >> (call % 64) & 1 == 1;
        call += 1;
        if m.pending {
            m.frames.pop();
            m.pending = false;
        }
        let want = toks[ti].clone();
        ti += 1;
        let (got, res) = r.next(resolved)?;
        if got != want {
            return Err(format!("call {}: NsReader returned {} but the document's next token is {}", call - 1, got.show(), want.show()));
        }
        let (kind, raw, name) = match &want {
            Obs::Ev(k, raw, n) => (*k, raw.clone(), n.clone()),
            _ => unreachable!(),
        };
        match kind {
            Kind::Start | Kind::Empty => {
                let attrs = attrs_of(&raw, name.len());
                let decls = decls_of(&attrs);
                for (p, u) in &decls {
                    if u.is_empty() {
                        loc.undecl += 1;
                    } else if m.lookup(p).is_some() {
                        loc.shadow += 1;
                    }
                }
                m.frames.push(decls);
                loc.pushed += 1;
                if kind == Kind::Empty {
                    m.pending = true;
                } else {
                    open.push(name.clone());
                }
                let what = format!("after {} (call {})", want.show(), call - 1);
                if after_skip {
                    loc.skip_sibling += 1;
                    after_skip = false;
                }
                if let Some(res) = res {
                    let w = m.resolve(&name, false);
                    if res != w {
                        return Err(format!("{}: read_resolved_event returned {:?} for the element but the declarations in scope give {:?}", what, res, w));
                    }
                }
                let g = r.resolve(&name, false);
                let w = m.resolve(&name, false);
                if g != w {
                    return Err(format!("{}: resolve_element({:?}) gives {:?}, expected {:?}", what, show(&name), g, w));
                }
                let mut nil = false;
                for (k, v) in &attrs {
                    let g = r.resolve(k, true);
                    let w = m.resolve(k, true);
                    if g != w {
                        return Err(format!("{}: resolve_attribute({:?}) gives {:?}, expected {:?}", what, show(k), g, w));
                    }
                    let local = match k.iter().position(|b| *b == b':') {
                        Some(i) => &k[i + 1..],
                        None => &k[..],
                    };
                    if w == RR::Bound(XSI.as_bytes().to_vec()) && local == b"nil" && (v == b"true" || v == b"1") {
                        nil = true;
                    }
                }
                let content = String::from_utf8_lossy(&raw).into_owned();
                let got_nil = r.has_nil(&content, name.len());
                if got_nil {
                    loc.nil_t += 1;
                } else {
                    loc.nil_f += 1;
                }
                if got_nil != nil {
                    return Err(format!("{}: has_nil is {} but the attributes in scope give {}", what, got_nil, nil));
                }
                compare_scope(&r, &m, &what, loc)?;
                if kind == Kind::Start {
                    let action = hist.actions.get(start_no).copied().unwrap_or(0);
                    start_no += 1;
                    if action != 0 {
                        // find the matching end token
                        let mut depth = 0;
                        let mut e = ti;
                        loop {
                            match toks.get(e) {
                                None => return Err("generator produced an unbalanced document".into()),
                                Some(Obs::Ev(Kind::Start, _, _)) => depth += 1,
                                Some(Obs::Ev(Kind::End, _, _)) => {
                                    if depth == 0 {
                                        break;
                                    }
                                    depth -= 1;
                                }
                                _ => {}
                            }
                            e += 1;
                        }
                        let mut done = false;
                        if action == 2 {
                            if let Some(t) = r.text(&name) {
                                loc.texts += 1;
                                t.map_err(|e| format!("{}: read_text failed: {}", what, e))?;
                                done = true;
                            }
                        }
                        if !done {
                            loc.skips += 1;
                            if !r.skip(&name)? {
                                return Err(format!("{}: read_to_end({:?}) failed on a well-formed document", what, show(&name)));
                            }
                        }
                        ti = e + 1;
                        m.frames.pop();
                        m.pending = false;
                        open.pop();
                        after_skip = true;
                        compare_scope(&r, &m, &format!("after skipping <{}> (started at call {})", show(&name), call - 1), loc)?;
                    }
                }
            }
            Kind::End => {
                m.pending = true;
                open.pop();
                let what = format!("after {} (call {})", want.show(), call - 1);
                if let Some(res) = res {
                    let w = m.resolve(&name, false);
                    if res != w {
                        return Err(format!("{}: read_resolved_event returned {:?} for the end tag but the declarations in scope give {:?}", what, res, w));
                    }
                }
                compare_scope(&r, &m, &what, loc)?;
                if after_skip {
                    after_skip = false;
                }
            }
            _ => {
                if let Some(res) = res {
                    if res != RR::Unbound {
                        return Err(format!("call {}: read_resolved_event returned {:?} for a non-element event", call - 1, res));
                    }
                }
                // declarations stop applying once their element has ended: also while the reader stands on
                // the text, comment, ... (or Eof) that follows it
                compare_scope(&r, &m, &format!("at {} (call {}), a non-element event", want.show(), call - 1), loc)?;
                loc.non_element_probes += 1;
            }
        }
        // skip the rest of an enclosing element: after a child event the innermost open element, or -
        // from anywhere inside - one of its ancestors (read_to_end(name) reads up to the first end
        // tag with that name that is not matched by a same-named start tag read on the way)
        if hist.mid_bits >> ((call - 1) % 64) & 1 == 1 && !open.is_empty() {
            let want_ancestor = hist.resolved_bits >> ((call + 7) % 64) & 1 == 1;
            let di = if want_ancestor { (call as usize) % open.len() } else { open.len() - 1 };
            // directly after a Start the innermost element is handled by the per-Start action
            if !(kind == Kind::Start && di == open.len() - 1) {
                let x = open[di].clone();
                // find the end tag the call will stop at and count how many open elements it closes
                let mut same = 0usize;
                let mut local = 0usize;
                let mut closed = 0usize;
                let mut e = ti;
                let found = loop {
                    match toks.get(e) {
                        None => break false,
                        Some(Obs::Ev(Kind::Start, _, n)) => {
                            local += 1;
                            if *n == x {
                                same += 1;
                            }
                        }
                        Some(Obs::Ev(Kind::End, _, n)) => {
                            if local > 0 {
                                local -= 1;
                            } else {
                                closed += 1;
                            }
                            if *n == x {
                                if same == 0 {
                                    break true;
                                }
                                same -= 1;
                            }
                        }
                        _ => {}
                    }
                    e += 1;
                };
                if found {
                    loc.mid_skips += 1;
                    if closed > 1 {
                        loc.ancestor_skips += 1;
                    }
                    if !r.skip(&x)? {
                        return Err(format!("read_to_end({:?}) from inside the element (after call {}) failed on a well-formed document", show(&x), call - 1));
                    }
                    ti = e + 1;
                    if m.pending {
                        m.frames.pop();
                        m.pending = false;
                    }
                    for _ in 0..closed {
                        m.frames.pop();
                        open.pop();
                    }
                    after_skip = true;
                    compare_scope(&r, &m, &format!("after read_to_end({:?}) called from inside it (after call {}; {} open element(s) closed by the skip)", show(&x), call - 1, closed), loc)?;
                }
            }
        }
    }
    // Eof
    if m.pending {
        m.frames.pop();
        m.pending = false;
    }
    let (got, _) = r.next(false)?;
    if !got.is_eof() {
        return Err(format!("expected Eof at the end of the document, got {}", got.show()));
    }
    compare_scope(&r, &m, "after Eof", loc)?;
    Ok(())
}

#[derive(Clone, Copy, Debug, PartialEq, Eq)]
pub enum SrcKind {
    Slice,
    Buffered,
    Async,
}

pub fn check(input: &[u8], expand: bool, kind: SrcKind, cuts: &[usize], hist: &History, loc: &mut Local) -> Result<(), String> {
    loc.src[kind as usize] += 1;
    match kind {
        SrcKind::Slice => {
            let mut r = NsReader::from_reader(input);
            r.config_mut().expand_empty_elements = expand;
            check_with(NS(r), input, expand, hist, loc)
        }
        SrcKind::Buffered => {
            let mut r = NsReader::from_reader(ChunkedRead::new(input, cuts.to_vec()));
            r.config_mut().expand_empty_elements = expand;
            check_with(NB(r), input, expand, hist, loc)
        }
        SrcKind::Async => {
            let mut r = NsReader::from_reader(AsyncChunked::new(input, cuts.to_vec(), vec![1, 0, 2]));
            r.config_mut().expand_empty_elements = expand;
            check_with(NA(r, 64 + 300 * (input.len() as u64 + 2)), input, expand, hist, loc)
        }
    }
}

// ---------------------------------------------------------------------------
// generators
// ---------------------------------------------------------------------------

const URIS: [&str; 4] = ["u1", "u2", "", XSI];

fn gen_tag(r: &mut Rng) -> (String, String) {
    let prefix = *r.pick(&["", "", "p:", "q:", "xsi:", "zz:"]);
    let name = format!("{}{}", prefix, r.pick(&["a", "b"]));
    let mut attrs = String::new();
    let mut used: Vec<&str> = Vec::new();
    for _ in 0..r.below(4) {
        let k = *r.pick(&["xmlns", "xmlns:p", "xmlns:q", "xmlns:xsi", "p:k", "k", "xsi:nil", "q:nil", "xml:lang", "nil"]);
        if used.contains(&k) {
            continue;
        }
        used.push(k);
        let v = if k.starts_with("xmlns") {
            r.pick(&URIS).to_string()
        } else if k.ends_with("nil") {
            r.pick(&["true", "false", "1", "0", "x"]).to_string()
        } else {
            "v".to_string()
        };
        let q = if r.bool() { '"' } else { '\'' };
        // any XML whitespace separates attributes, and '=' may have spaces around it
        let sep = *r.pick(&[" ", " ", " ", "\t", "\n", "\r\n  ", "  "]);
        let eq = *r.pick(&["=", "=", "=", " =", "= ", " = "]);
        attrs.push_str(&format!("{}{}{}{}{}{}", sep, k, eq, q, v, q));
    }
    (name, attrs)
}

fn gen_elem(r: &mut Rng, depth: usize, budget: &mut usize, out: &mut String) {
    let (name, attrs) = gen_tag(r);
    *budget = budget.saturating_sub(1);
    if depth >= 5 || *budget == 0 || r.chance(1, 4) {
        if r.chance(2, 3) {
            out.push_str(&format!("<{}{}/>", name, attrs));
            return;
        }
        out.push_str(&format!("<{}{}></{}>", name, attrs, name));
        return;
    }
    out.push_str(&format!("<{}{}>", name, attrs));
    for _ in 0..1 + r.below(3) {
        match r.below(6) {
            0 => out.push_str("text"),
            1 => out.push_str("<!--c-->"),
            _ => {
                if *budget > 0 {
                    gen_elem(r, depth + 1, budget, out)
                }
            }
        }
    }
    out.push_str(&format!("</{}>", name));
}

pub fn gen_ns_doc(r: &mut Rng, max_elems: usize) -> String {
    let mut out = String::new();
    let mut budget = max_elems;
    gen_elem(r, 0, &mut budget, &mut out);
    out
}

const POOL: &[&str] = &[
    "<r><a xmlns:p=\"u\" xmlns=\"d\"><x/></a><p:b/><c/></r>",
    "<a xmlns='u1'><b xmlns=''><a/></b><b/></a>",
    "<a xmlns:p='u1'><p:b xmlns:p=''><p:a/></p:b><p:b/></a>",
    "<a xmlns:p='u1'><b xmlns:p='u2'><p:a p:k='v'/></b><p:b p:k='v'/></a>",
    "<a><b xmlns:p='u1'/><p:b/></a>",
    "<a><b xmlns:p='u1'></b><p:b/></a>",
    "<a xmlns:xsi='http://www.w3.org/2001/XMLSchema-instance'><b xsi:nil='true'/><b xsi:nil='false'/><b nil='true'/><b xmlns:xsi='u1' xsi:nil='true'/></a>",
    "<p:a xmlns:p='u1' xmlns:q='u1'><q:a><p:a>text</p:a></q:a></p:a>",
    "<a xmlns='u1' k='v' xml:lang='en'><a xmlns='u2'><a xmlns=''/></a></a>",
    "<a><a xmlns:p='u1'><a xmlns:q='u2'><a/></a></a><p:a/><q:a/></a>",
];

fn case_json(input: &[u8], expand: bool, kind: SrcKind, cuts: &[usize], hist: &History) -> Value {
    json!({"input": super::common::input_json(input), "expand": expand, "source": format!("{:?}", kind), "cuts": cuts, "resolved_bits": hist.resolved_bits, "mid_bits": hist.mid_bits, "actions": hist.actions})
}

fn run_case(ctx: &mut Ctx, loc: &mut Local, input: &[u8], expand: bool, kind: SrcKind, cuts: &[usize], hist: &History) -> bool {
    ctx.journal(|| case_json(input, expand, kind, cuts, hist));
    let mut h = H::new().bytes(input).u64(expand as u64).u64(kind as u64).u64(hist.resolved_bits).u64(hist.mid_bits);
    for a in &hist.actions {
        h = h.u64(*a as u64);
    }
    let nontrivial = hist.actions.iter().any(|a| *a != 0) || hist.mid_bits != 0 || crate::refmodel::tok::find_sub(input, b"=''").is_some() || crate::refmodel::tok::find_sub(input, b"=\"\"").is_some();
    ctx.eval(h.finish(), nontrivial);
    let res = guarded(|| check(input, expand, kind, cuts, hist, loc));
    let res = match res {
        Ok(r) => r,
        Err(p) => Err(p),
    };
    if let Err(d) = res {
        ctx.violation(case_json(input, expand, kind, cuts, hist), d);
        return !ctx.full();
    }
    ctx.sample(|| json!({"input": show(input), "expand": expand, "source": format!("{:?}", kind), "actions": hist.actions}));
    true
}

fn count_starts(input: &[u8], expand: bool) -> usize {
    tokenize(input, CFG_NEUTRAL).iter().filter(|s| matches!(s.obs, Obs::Ev(Kind::Start, _, _)) || (expand && matches!(s.obs, Obs::Ev(Kind::Empty, _, _)))).count()
}

fn all_histories(ctx: &mut Ctx, loc: &mut Local, doc: &[u8], r: &mut Rng) -> bool {
    for expand in [false, true] {
        let k = count_starts(doc, expand).min(6);
        let total = 3usize.pow(k as u32);
        for code in 0..total {
            let mut actions = Vec::with_capacity(k);
            let mut x = code;
            for _ in 0..k {
                actions.push((x % 3) as u8);
                x /= 3;
            }
            for (bi, bits) in [0u64, u64::MAX, 0xAAAA_AAAA_AAAA_AAAA].into_iter().enumerate() {
                // mid-element skips: none, after one particular call, or a random pattern
                let mid_bits = match (code + bi) % 3 {
                    0 => 0,
                    1 => 1u64 << (r.below(12) as u64),
                    _ => r.next() & r.next(),
                };
                let hist = History { resolved_bits: bits, mid_bits, actions: actions.clone() };
                let kind = match code.wrapping_add(bits as usize) % 5 {
                    0 => SrcKind::Buffered,
                    1 => SrcKind::Async,
                    _ => SrcKind::Slice,
                };
                let cuts = if r.bool() { cuts_for_piece(doc.len(), 1, 0) } else { cuts_for_piece(doc.len(), 1 + r.below(7), 0) };
                if !run_case(ctx, loc, doc, expand, kind, &cuts, &hist) {
                    return false;
                }
            }
        }
    }
    true
}

fn check_ns_errors(ctx: &mut Ctx, loc: &mut Local) {
    let cases: [(&str, &str); 6] = [
        ("<a xmlns:xml='u1'><xml:b/></a>", "InvalidXmlPrefixBind"),
        ("<a xmlns:xmlns='u1'/>", "InvalidXmlnsPrefixBind"),
        ("<a xmlns:xmlns='http://www.w3.org/2000/xmlns/'/>", "InvalidXmlnsPrefixBind"),
        ("<a xmlns:p='http://www.w3.org/XML/1998/namespace'/>", "InvalidPrefixForXml"),
        ("<a xmlns:p='http://www.w3.org/2000/xmlns/'/>", "InvalidPrefixForXmlns"),
        ("<a xmlns:xml='http://www.w3.org/XML/1998/namespace'><xml:b/></a>", "ok"),
    ];
    for (doc, want) in cases {
        let mut r = NsReader::from_str(doc);
        let res = r.read_resolved_event();
        loc.ns_errors += 1;
        ctx.eval(H::new().str(doc).finish(), true);
        let got = match &res {
            Ok(_) => "ok".to_string(),
            Err(quick_xml::Error::Namespace(e)) => format!("{:?}", e).split('(').next().unwrap_or("").to_string(),
            Err(e) => format!("other error {}", e),
        };
        let mut bad = got != want;
        // whatever happened, xml and xmlns keep their bindings
        let (a, _) = r.resolve_element(QName(b"xml:x"));
        let (b, _) = r.resolve_element(QName(b"xmlns:x"));
        if rr(&a) != RR::Bound(XML_NS.as_bytes().to_vec()) || rr(&b) != RR::Bound(XMLNS_NS.as_bytes().to_vec()) {
            bad = true;
        }
        if bad {
            ctx.violation(json!({"ns_error_doc": doc}), format!("document {:?}: expected {}, got {}; xml: resolves to {:?}, xmlns: to {:?}", doc, want, got, rr(&a), rr(&b)));
        }
    }
}

fn run(ctx: &mut Ctx) {
    let mut loc = Local::default();
    let t = ctx.tier;
    let mut r = ctx.rng(18);
    if ctx.shard == 0 {
        check_ns_errors(ctx, &mut loc);
    }
    for (i, d) in POOL.iter().enumerate() {
        if ctx.owns(i as u64) && !all_histories(ctx, &mut loc, d.as_bytes(), &mut r) {
            return flush(ctx, &loc);
        }
    }
    // small documents: all histories
    let n = ctx.scaled(t.pick(8_000, 400_000)) / ctx.nshards as u64 + 1;
    for _ in 0..n {
        let d = gen_ns_doc(&mut r, 4);
        if !all_histories(ctx, &mut loc, d.as_bytes(), &mut r) {
            return flush(ctx, &loc);
        }
    }
    ctx.exhaustive("for every pool document and every generated document with at most 4 elements: all 3^k continue/skip/read_text choices over its Start events x 3 read-kind patterns x expand-empty on/off");
    // larger documents: random histories
    let n = ctx.scaled(t.pick(300_000, 15_000_000)) / ctx.nshards as u64 + 1;
    for _ in 0..n {
        let sz = 4 + r.below(20);
        let d = gen_ns_doc(&mut r, sz);
        let expand = r.bool();
        let k = count_starts(d.as_bytes(), expand);
        let hist = History {
            resolved_bits: r.next(),
            mid_bits: if r.bool() { 0 } else { r.next() & r.next() & r.next() },
            actions: (0..k).map(|_| if r.chance(1, 3) { 1 + r.below(2) as u8 } else { 0 }).collect(),
        };
        let kind = *r.pick(&[SrcKind::Slice, SrcKind::Slice, SrcKind::Buffered, SrcKind::Async]);
        let mut cuts = Vec::new();
        let mut p = 1 + r.below(5);
        while p < d.len() {
            cuts.push(p);
            p += 1 + r.below(9);
        }
        if !run_case(ctx, &mut loc, d.as_bytes(), expand, kind, &cuts, &hist) {
            break;
        }
    }
    flush(ctx, &loc);
}

fn flush(ctx: &mut Ctx, loc: &Local) {
    ctx.add("scope_compared_at_non_element_events", loc.non_element_probes);
    ctx.add("probes.Bound", loc.bound);
    ctx.add("probes.Unbound", loc.unbound);
    ctx.add("probes.Unknown", loc.unknown);
    ctx.add("skips", loc.skips);
    ctx.add("skips_mid_element", loc.mid_skips);
    ctx.add("skips_closing_several_elements", loc.ancestor_skips);
    ctx.add("skip_then_resolve_sibling", loc.skip_sibling);
    ctx.add("read_texts", loc.texts);
    ctx.add("scopes_pushed", loc.pushed);
    ctx.add("undeclarations_seen", loc.undecl);
    ctx.add("shadowing_seen", loc.shadow);
    ctx.add("has_nil.true", loc.nil_t);
    ctx.add("has_nil.false", loc.nil_f);
    ctx.add("namespace_errors_checked", loc.ns_errors);
    ctx.add("source.slice", loc.src[0]);
    ctx.add("source.buffered", loc.src[1]);
    ctx.add("source.async", loc.src[2]);
    ctx.add("prefix_sets_compared", loc.sets);
}

fn replay(case: &Value, ctx: &mut Ctx) -> Option<String> {
    if case.get("ns_error_doc").is_some() {
        let mut loc = Local::default();
        check_ns_errors(ctx, &mut loc);
        return ctx.violations.first().map(|v| v["detail"].as_str().unwrap_or("").to_string());
    }
    let input = super::common::input_from_json(&case["input"]);
    let kind = match case["source"].as_str().unwrap_or("") {
        "Buffered" => SrcKind::Buffered,
        "Async" => SrcKind::Async,
        _ => SrcKind::Slice,
    };
    let cuts: Vec<usize> = case["cuts"].as_array().map(|a| a.iter().map(|x| x.as_u64().unwrap_or(0) as usize).collect()).unwrap_or_default();
    let hist = History {
        resolved_bits: case["resolved_bits"].as_u64().unwrap_or(0),
        mid_bits: case["mid_bits"].as_u64().unwrap_or(0),
        actions: case["actions"].as_array().map(|a| a.iter().map(|x| x.as_u64().unwrap_or(0) as u8).collect()).unwrap_or_default(),
    };
    let mut loc = Local::default();
    check(&input, case["expand"].as_bool().unwrap_or(false), kind, &cuts, &hist, &mut loc).err()
}
