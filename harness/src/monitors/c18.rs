//! C18 — source I/O faults are transparent (interrupts) or reported once (errors).
//! Fault enumeration: for every (document, cut set, configuration) the fault-free run is
//! recorded, then every refill call index is used as the fault point for both fault kinds.

use super::common::*;
use crate::ctx::{guarded, show, Ctx};
use crate::obs::*;
use crate::refmodel::tok::{is_ws, tokenize};
use crate::rng::{Rng, H};
use crate::runner::PropSpec;
use crate::sources::*;
use quick_xml::reader::Reader;
use serde_json::{json, Value};
use std::io::ErrorKind;

pub const SPEC: PropSpec = PropSpec {
    id: "C18",
    level: "fault_enumeration",
    rule: "Cases = (input bytes, configuration, cut set, source kind, fault script). For every (input, configuration, cut set) the fault-free buffered run is recorded together with its number F of refill (fill_buf / poll_fill_buf) calls; then for EVERY k in 0..F one run with an Interrupted error at refill call k (trace must equal the fault-free trace) and one run with a non-interrupt error (BrokenPipe / Other / UnexpectedEof / TimedOut by rotation) at refill call k (events before the failing call = fault-free prefix; the call during which the fault was delivered returns Err(Io) with the injected kind; no later call reports an I/O error again; reading afterwards terminates without panic). Plus random multi-interrupt scripts (up to 3 consecutive interrupts per refill) and the same enumeration over the async source with Pending scripts. Inputs: terminator pool, whitespace/BOM specials, grammar documents, corpus prefixes; piece sizes 1,3,7 and random cut sets; 4 configurations (trimming on so that skip_whitespace is reached). Non-trivial = a fault was delivered inside a document that contains '<'.",
    assumptions: &[
        "the injected error is returned from exactly one refill call and the data is delivered unchanged on the next call",
        "after the I/O error has been returned the statement says nothing; only absence of panics and termination are checked there",
        "helper classification of a refill call (detect/text/tag/bang/pi/skip_whitespace/peek) is inferred from the source position and R_tok spans; it is used for the evidence counters only",
    ],
    required: &[
        "fault_at.detect", "fault_at.text", "fault_at.tag", "fault_at.bang", "fault_at.pi", "fault_at.skip_whitespace", "fault_at.peek",
        "interrupts_absorbed", "errors_surfaced", "async_runs", "multi_interrupt_runs",
    ],
    run,
    replay,
    thorough_layers: &[],
    quick_layers: &[],
    post: None,
};

#[derive(Default)]
pub struct Local {
    at: std::collections::BTreeMap<&'static str, u64>,
    interrupts: u64,
    uncleared_buffer_runs: u64,
    errors: u64,
    async_runs: u64,
    multi: u64,
    fault_points: u64,
    reader_usable_after_error: u64,
    reader_done_after_error: u64,
}

const ERR_KINDS: [ErrorKind; 4] = [ErrorKind::BrokenPipe, ErrorKind::Other, ErrorKind::UnexpectedEof, ErrorKind::TimedOut];

#[derive(Clone, Debug)]
struct Run {
    trace: Trace,
    /// for each read call: (refill calls before, refill calls after)
    calls: Vec<(u64, u64)>,
    total_calls: u64,
    positions: Vec<usize>,
    faults_delivered: u64,
}

fn run_sync(input: &[u8], cfg: u8, cuts: &[usize], faults: &[(u64, Fault)], record: bool) -> Run {
    run_sync_buf(input, cfg, cuts, faults, record, true)
}

/// `clear` = the caller empties its event buffer before every call (what everybody does); without it the
/// events are appended to what the buffer already holds, which the API allows
fn run_sync_buf(input: &[u8], cfg: u8, cuts: &[usize], faults: &[(u64, Fault)], record: bool, clear: bool) -> Run {
    let mut src = ChunkedRead::new(input, cuts.to_vec());
    src.faults = faults.to_vec();
    src.record = record;
    let mut r = Reader::from_reader(src);
    apply_cfg(r.config_mut(), cfg);
    let mut trace = Vec::new();
    let mut calls = Vec::new();
    let mut buf = Vec::new();
    let mut after_eof = 0;
    let limit = call_bound(input.len()) + 8 + faults.len();
    for _ in 0..limit {
        let c0 = r.get_ref().calls;
        let before = r.buffer_position();
        if clear || buf.len() > 4096 {
            buf.clear();
        }
        let res = r.read_event_into(&mut buf);
        let obs = result_obs(&res);
        drop(res);
        let e = Entry {
            obs,
            before,
            after: r.buffer_position(),
            err_pos: r.error_position(),
        };
        calls.push((c0, r.get_ref().calls));
        let eof = e.obs.is_eof();
        trace.push(e);
        if eof || after_eof > 0 {
            after_eof += 1;
            if after_eof > 2 {
                break;
            }
        }
    }
    let src = r.into_inner();
    Run {
        trace,
        calls,
        total_calls: src.calls,
        positions: src.call_positions,
        faults_delivered: src.faults_delivered,
    }
}

fn run_async(input: &[u8], cfg: u8, cuts: &[usize], pending: &[u8], faults: &[(u64, Fault)]) -> Result<Run, String> {
    let mut src = AsyncChunked::new(input, cuts.to_vec(), pending.to_vec());
    src.inner.faults = faults.to_vec();
    let mut r = Reader::from_reader(src);
    apply_cfg(r.config_mut(), cfg);
    let mut trace = Vec::new();
    let mut calls = Vec::new();
    let mut buf = Vec::new();
    let mut after_eof = 0;
    let limit = call_bound(input.len()) + 8 + faults.len();
    for _ in 0..limit {
        let c0 = r.get_ref().inner.calls;
        let before = r.buffer_position();
        buf.clear();
        let obs = {
            let fut = r.read_event_into_async(&mut buf);
            let (res, _polls) = block_on(fut, 64 + 300 * (input.len() as u64 + 2))?;
            result_obs(&res)
        };
        let e = Entry {
            obs,
            before,
            after: r.buffer_position(),
            err_pos: r.error_position(),
        };
        calls.push((c0, r.get_ref().inner.calls));
        let eof = e.obs.is_eof();
        trace.push(e);
        if eof || after_eof > 0 {
            after_eof += 1;
            if after_eof > 2 {
                break;
            }
        }
    }
    let src = r.into_inner();
    Ok(Run {
        trace,
        calls,
        total_calls: src.inner.calls,
        positions: vec![],
        faults_delivered: src.inner.faults_delivered,
    })
}

/// which helper a refill call of the fault-free run was serving (evidence only)
fn classify_calls(input: &[u8], cfg: u8, positions: &[usize]) -> Vec<&'static str> {
    let toks = tokenize(input, CFG_NEUTRAL);
    let mut out = Vec::with_capacity(positions.len());
    let mut seen_at: std::collections::HashMap<usize, u32> = std::collections::HashMap::new();
    for (k, &p) in positions.iter().enumerate() {
        if k == 0 {
            out.push("detect");
            continue;
        }
        let n = {
            let e = seen_at.entry(p).or_insert(0);
            *e += 1;
            *e
        };
        if p >= input.len() {
            out.push("eof");
            continue;
        }
        let mut class = "other";
        for t in &toks {
            let (s, e) = (t.before as usize, t.after as usize);
            if !(s <= p && p < e.max(s + 1)) {
                continue;
            }
            // first span may contain a BOM
            let is_text = matches!(&t.obs, Obs::Ev(Kind::Text, _, _));
            if is_text || input[s] != b'<' && !input[s..].starts_with(&[0xEF]) {
                let leading_ws = input[s..=p].iter().all(|b| is_ws(*b));
                class = if cfg & C_TRIM_START != 0 && leading_ws { "skip_whitespace" } else { "text" };
            } else {
                let lt = if input[s] == b'<' { s } else { (s..e).find(|i| input[*i] == b'<').unwrap_or(s) };
                let kind_class = match &t.obs {
                    Obs::Ev(Kind::Comment, _, _) | Obs::Ev(Kind::CData, _, _) | Obs::Ev(Kind::DocType, _, _) => "bang",
                    Obs::Ev(Kind::PI, _, _) | Obs::Ev(Kind::Decl, _, _) => "pi",
                    Obs::Err(ErrObs::Syntax(Syn::UnclosedPIOrXmlDecl)) => "pi",
                    Obs::Err(ErrObs::Syntax(Syn::UnclosedTag)) => "tag",
                    Obs::Err(ErrObs::Syntax(_)) | Obs::Err(ErrObs::MissingDoctypeName) => "bang",
                    _ => "tag",
                };
                class = if p <= lt {
                    if cfg & C_TRIM_START != 0 && n == 1 { "skip_whitespace" } else { "text" }
                } else if p == lt + 1 && n == 1 {
                    "peek"
                } else if p == lt + 2 && n == 1 && kind_class == "bang" {
                    "peek"
                } else {
                    kind_class
                };
            }
            break;
        }
        out.push(class);
    }
    out
}

fn check_interrupt(base: &Run, got: &Run, what: &str) -> Result<(), String> {
    if got.trace != base.trace {
        return Err(format!("{}: {}", what, describe_diff("fault-free", &base.trace, "interrupted", &got.trace)));
    }
    Ok(())
}

fn check_error(base: &Run, got: &Run, k: u64, kind: ErrorKind, loc: &mut Local) -> Result<(), String> {
    if got.faults_delivered != 1 {
        return Err(format!("fault at refill call {} was not delivered ({} deliveries)", k, got.faults_delivered));
    }
    // the read call during which refill call k happened
    let j = match got.calls.iter().position(|(a, b)| *a <= k && k < *b) {
        Some(j) => j,
        None => return Err(format!("no read call covers refill call {}", k)),
    };
    for i in 0..j {
        if got.trace[i] != base.trace[i] {
            return Err(format!(
                "error injected at refill call {} (read call {}): earlier read call {} returned {} but the fault-free run returned {}",
                k,
                j,
                i,
                got.trace[i].show(),
                base.trace.get(i).map(|e| e.show()).unwrap_or_default()
            ));
        }
    }
    match &got.trace[j].obs {
        Obs::Err(ErrObs::Io(kk)) if *kk == kind => {}
        other => {
            return Err(format!(
                "error {:?} injected at refill call {}: read call {} returned {} instead of Err(Io({:?}))",
                kind,
                k,
                j,
                other.show(),
                kind
            ))
        }
    }
    let mut usable = false;
    for (i, e) in got.trace.iter().enumerate().skip(j + 1) {
        if let Obs::Err(ErrObs::Io(_)) = e.obs {
            return Err(format!("the single injected fault was reported again by read call {}: {}", i, e.show()));
        }
        if !e.obs.is_eof() {
            usable = true;
            // Whatever is returned after the error must not be made up from the partial data of the
            // failed call: either the reader is finished (Eof), or it carries on with exactly what the
            // fault-free run returns from the failed call on
            // (the position *before* the resumed call may lie behind bytes the failed call had consumed)
            let want = base.trace.get(j + (i - (j + 1)));
            if !want.map_or(false, |w| w.obs == e.obs && w.after == e.after) {
                return Err(format!(
                    "error {:?} injected at refill call {} was reported by read call {}, but read call {} then returned {}, which is not what the input holds there (the fault-free run returns {} for the call that failed{}): an event fabricated from partial data",
                    kind,
                    k,
                    j,
                    i,
                    e.show(),
                    base.trace.get(j).map(|e| e.show()).unwrap_or_default(),
                    if i > j + 1 { " and the matching later events after it" } else { "" }
                ));
            }
        }
    }
    if !got.trace.last().map_or(false, |e| e.obs.is_eof()) {
        return Err("reading after the I/O error did not reach Eof within the call bound".into());
    }
    if usable {
        loc.reader_usable_after_error += 1;
    } else {
        loc.reader_done_after_error += 1;
    }
    Ok(())
}

fn case_json(input: &[u8], cfg: u8, cuts: &[usize], pending: Option<&[u8]>, faults: &[(u64, Fault)]) -> Value {
    let f: Vec<Value> = faults
        .iter()
        .map(|(k, f)| match f {
            Fault::Interrupted => json!([k, "Interrupted"]),
            Fault::Other(e) => json!([k, format!("{:?}", e)]),
        })
        .collect();
    json!({"input": input_json(input), "config": cfg, "config_show": cfg_show(cfg), "cuts": cuts, "pending": pending, "faults": f})
}

fn kind_from_str(s: &str) -> Fault {
    match s {
        "Interrupted" => Fault::Interrupted,
        "BrokenPipe" => Fault::Other(ErrorKind::BrokenPipe),
        "UnexpectedEof" => Fault::Other(ErrorKind::UnexpectedEof),
        "TimedOut" => Fault::Other(ErrorKind::TimedOut),
        _ => Fault::Other(ErrorKind::Other),
    }
}

/// all fault points of one (input, cfg, cuts[, pending])
fn enumerate(ctx: &mut Ctx, loc: &mut Local, input: &[u8], cfg: u8, cuts: &[usize], pending: Option<&[u8]>, rng: &mut Rng) -> bool {
    let base = match pending {
        None => run_sync(input, cfg, cuts, &[], true),
        Some(p) => match run_async(input, cfg, cuts, p, &[]) {
            Ok(r) => r,
            Err(e) => {
                ctx.violation(case_json(input, cfg, cuts, pending, &[]), e);
                return !ctx.full();
            }
        },
    };
    let classes = if pending.is_none() { classify_calls(input, cfg, &base.positions) } else { vec![] };
    let f = base.total_calls;
    let nontrivial = input.contains(&b'<');
    for k in 0..f {
        for which in 0..2 {
            let fault = if which == 0 { Fault::Interrupted } else { Fault::Other(ERR_KINDS[(k as usize + input.len()) % 4]) };
            let faults = [(k, fault)];
            ctx.journal(|| case_json(input, cfg, cuts, pending, &faults));
            let mut h = H::new().bytes(input).u64(cfg as u64).u64(k).u64(which);
            for c in cuts {
                h = h.u64(*c as u64);
            }
            if pending.is_some() {
                h = h.u64(0xA5);
            }
            ctx.eval(h.finish(), nontrivial);
            loc.fault_points += 1;
            let r = guarded(|| -> Result<(), String> {
                let got = match pending {
                    None => run_sync(input, cfg, cuts, &faults, false),
                    Some(p) => {
                        loc.async_runs += 1;
                        run_async(input, cfg, cuts, p, &faults)?
                    }
                };
                // the same faulted run with a caller that does not empty its event buffer between calls: events,
                // errors and positions must not depend on what the buffer already holds
                if pending.is_none() && (k + input.len() as u64) % 3 == 0 {
                    let kept = run_sync_buf(input, cfg, cuts, &faults, false, false);
                    loc.uncleared_buffer_runs += 1;
                    if kept.trace != got.trace {
                        return Err(format!(
                            "fault {:?} at refill call {}: with an event buffer that is not cleared between calls: {}",
                            fault,
                            k,
                            describe_diff("cleared buffer", &got.trace, "uncleared buffer", &kept.trace)
                        ));
                    }
                }
                match fault {
                    Fault::Interrupted => {
                        if got.faults_delivered != 1 {
                            return Err(format!("interrupt at refill call {} was not delivered", k));
                        }
                        loc.interrupts += 1;
                        check_interrupt(&base, &got, &format!("Interrupted at refill call {}", k))
                    }
                    Fault::Other(kind) => {
                        loc.errors += 1;
                        check_error(&base, &got, k, kind, loc)
                    }
                }
            });
            let r = match r {
                Ok(r) => r,
                Err(p) => Err(p),
            };
            if let Err(d) = r {
                ctx.violation(case_json(input, cfg, cuts, pending, &faults), d);
                if ctx.full() {
                    return false;
                }
            } else if let Some(c) = classes.get(k as usize) {
                *loc.at.entry(match *c {
                    "detect" => "fault_at.detect",
                    "text" => "fault_at.text",
                    "tag" => "fault_at.tag",
                    "bang" => "fault_at.bang",
                    "pi" => "fault_at.pi",
                    "skip_whitespace" => "fault_at.skip_whitespace",
                    "peek" => "fault_at.peek",
                    "eof" => "fault_at.eof",
                    _ => "fault_at.other",
                })
                .or_insert(0) += 1;
            }
        }
    }
    // random multi-interrupt scripts
    for _ in 0..2 {
        if f == 0 {
            break;
        }
        let mut faults: Vec<(u64, Fault)> = Vec::new();
        let mut idx = 0u64;
        // up to 3 consecutive interrupts in front of randomly chosen refills
        for _ in 0..f {
            if rng.chance(1, 3) {
                let n = 1 + rng.below(3) as u64;
                for _ in 0..n {
                    faults.push((idx, Fault::Interrupted));
                    idx += 1;
                }
            }
            idx += 1;
        }
        if faults.is_empty() {
            continue;
        }
        loc.multi += 1;
        ctx.eval_more(1);
        let r = guarded(|| -> Result<(), String> {
            let got = match pending {
                None => run_sync(input, cfg, cuts, &faults, false),
                Some(p) => run_async(input, cfg, cuts, p, &faults)?,
            };
            loc.interrupts += got.faults_delivered;
            check_interrupt(&base, &got, "multi-interrupt script")
        });
        let r = match r {
            Ok(r) => r,
            Err(p) => Err(p),
        };
        if let Err(d) = r {
            ctx.violation(case_json(input, cfg, cuts, pending, &faults), d);
            if ctx.full() {
                return false;
            }
        }
    }
    ctx.sample(|| json!({"input": show(input), "config": cfg_show(cfg), "cuts": cuts, "pending": pending, "refill_calls": f, "fault_points_enumerated": 2 * f}));
    true
}

const SPECIAL: &[&str] = &[
    "  <a/>  ", "\n\n<a>\n x \n</a>\n", " \t <!--c-->  <?p?>  ", "\u{FEFF}<a/>", "\u{FEFF}  <a> </a>", "\u{FEFF}<?xml version='1.0'?>\n<a/>",
    "<a b='1' c=\"2\">t</a>", "<!DOCTYPE a [<!ELEMENT a (b)>]><a/>", "<![CDATA[x]]>y<![CDATA[]]>", "<?xml version='1.0' encoding='utf-8'?><a/>",
];

const CONFIGS: [u8; 4] = [
    CFG_NEUTRAL,
    CFG_DEFAULT,
    CFG_DEFAULT | C_TRIM_START | C_TRIM_END,
    CFG_ALL_ON,
];

fn run(ctx: &mut Ctx) {
    let mut loc = Local::default();
    let t = ctx.tier;
    let mut rng = ctx.rng(7);
    // pool + specials: every piece size, all 4 configurations, sync and async
    let mut docs: Vec<Vec<u8>> = crate::gen::TERMINATOR_DOCS.iter().map(|s| s.as_bytes().to_vec()).collect();
    docs.extend(SPECIAL.iter().map(|s| s.as_bytes().to_vec()));
    for (i, d) in docs.iter().enumerate() {
        if !ctx.owns(i as u64) {
            continue;
        }
        let fmin = if d.first() == Some(&0xEF) { 4 } else { 0 };
        for cfg in CONFIGS {
            for piece in [1usize, 3, 7, 1 << 20] {
                let cuts = cuts_for_piece(d.len(), piece, fmin);
                if !enumerate(ctx, &mut loc, d, cfg, &cuts, None, &mut rng) {
                    return flush(ctx, &loc);
                }
                if piece <= 3 {
                    let p: Vec<u8> = (0..5).map(|_| rng.below(3) as u8).collect();
                    if !enumerate(ctx, &mut loc, d, cfg, &cuts, Some(&p), &mut rng) {
                        return flush(ctx, &loc);
                    }
                }
            }
        }
    }
    ctx.exhaustive("for every (input, configuration, cut set) explored, every refill call index 0..F is used as the fault point, for both fault kinds");
    let plan = Plan {
        grammar_docs: t.pick(15_000, 750_000),
        bom_share: 5,
        corpus: true,
        corpus_max_len: t.pick(2048, 8192),
        random_atoms: t.pick(30_000, 1_500_000),
        scale_max: t.pick(256, 1024),
        ..Plan::default()
    };
    for_each_input(ctx, &plan, &mut |ctx, input, src, r| {
        let fmin = if matches!(input.first(), Some(0xEF) | Some(0xFE) | Some(0xFF) | Some(0)) { 4 } else { 0 };
        let cfg = CONFIGS[r.below(4)];
        let big = src == Src::Corpus || src == Src::Scale;
        let pieces: &[usize] = if src == Src::Scale { &[31, 32, 33, 64, 128] } else if big { &[7, 61] } else { &[1, 3, 7] };
        for &piece in pieces {
            let cuts = cuts_for_piece(input.len(), piece, fmin);
            if !enumerate(ctx, &mut loc, input, cfg, &cuts, None, r) {
                return false;
            }
        }
        if !big {
            for _ in 0..2 {
                let mut cuts = Vec::new();
                let mut p = fmin.max(1 + r.below(5));
                while p < input.len() {
                    cuts.push(p);
                    p += 1 + r.below(9);
                }
                let pend: Vec<u8> = (0..4).map(|_| r.below(3) as u8).collect();
                let pending = if r.bool() { Some(&pend[..]) } else { None };
                if !enumerate(ctx, &mut loc, input, cfg, &cuts, pending, r) {
                    return false;
                }
            }
        }
        true
    });
    flush(ctx, &loc);
}

fn flush(ctx: &mut Ctx, loc: &Local) {
    for (k, v) in &loc.at {
        ctx.add(k, *v);
    }
    ctx.add("interrupts_absorbed", loc.interrupts);
    ctx.add("errors_surfaced", loc.errors);
    ctx.add("async_runs", loc.async_runs);
    ctx.add("multi_interrupt_runs", loc.multi);
    ctx.add("fault_points", loc.fault_points);
    ctx.add("faulted_runs_repeated_with_an_uncleared_event_buffer", loc.uncleared_buffer_runs);
    ctx.add("reader_usable_after_error", loc.reader_usable_after_error);
    ctx.add("reader_done_after_error", loc.reader_done_after_error);
}

fn replay(case: &Value, _ctx: &mut Ctx) -> Option<String> {
    let input = input_from_json(&case["input"]);
    let cfg = case["config"].as_u64().unwrap_or(0) as u8;
    let cuts: Vec<usize> = case["cuts"].as_array().map(|a| a.iter().map(|x| x.as_u64().unwrap_or(0) as usize).collect()).unwrap_or_default();
    let pending: Option<Vec<u8>> = case["pending"].as_array().map(|a| a.iter().map(|x| x.as_u64().unwrap_or(0) as u8).collect());
    let faults: Vec<(u64, Fault)> = case["faults"]
        .as_array()
        .map(|a| a.iter().map(|f| (f[0].as_u64().unwrap_or(0), kind_from_str(f[1].as_str().unwrap_or("")))).collect())
        .unwrap_or_default();
    let mut loc = Local::default();
    let (base, got) = match &pending {
        None => (run_sync(&input, cfg, &cuts, &[], false), run_sync(&input, cfg, &cuts, &faults, false)),
        Some(p) => {
            let b = match run_async(&input, cfg, &cuts, p, &[]) {
                Ok(b) => b,
                Err(e) => return Some(e),
            };
            let g = match run_async(&input, cfg, &cuts, p, &faults) {
                Ok(b) => b,
                Err(e) => return Some(e),
            };
            (b, g)
        }
    };
    if faults.len() == 1 {
        if let (k, Fault::Other(kind)) = faults[0] {
            return check_error(&base, &got, k, kind, &mut loc).err();
        }
    }
    check_interrupt(&base, &got, "replayed interrupt script").err()
}
