//! C13 — the serializer emits only well-formed XML that carries the data unchanged.
//! (a) well-formedness via the reader with all checks on, (b) independent XML-Name validator,
//! (c) non-interference: hostile payloads must not change the markup skeleton, and every
//! payload slot must unescape to the payload that was put there.

use crate::ctx::{guarded, Ctx};
use crate::family::*;
use crate::obs::*;
use crate::rng::{Rng, H};
use crate::runner::PropSpec;
use quick_xml::events::Event;
use quick_xml::reader::Reader;
use serde_json::{json, Value};
use std::collections::BTreeMap;

pub const SPEC: PropSpec = PropSpec {
    id: "C13",
    level: "exploration",
    rule: "Cases = (value, serializer configuration incl. root name). Values: the 16 family types generated twice from the same seed - once with hostile payloads without any domain filter (markup characters, ']]>', '--', '?>', NUL, newlines, entity look-alikes, leading/trailing whitespace, empty and space-containing list items) and once with unique markup-free stand-ins of the same emptiness - plus 28 serialize-only shapes outside the round-trippable domain (maps with arbitrary keys incl. '', '@', '@x y', '$text', '<', 'a:b'; Option without skip; nested sequences; bytes; unit/newtype/struct variants and fields renamed to '<', 'a b', '1a', '', '@<'; 60-deep nesting; bare primitives) and root names from an arbitrary-string pool. If serialization returns Ok: (a) quick-xml's reader with all checks on must read the document without error and with no element left open, and every attribute list must iterate without error; (b) every element and attribute name must satisfy an independent XML 1.1 Name validator; (c) the markup skeleton (element nesting and names, attribute names) of the hostile document must equal that of the stand-in document and every payload slot (text, attribute value, list item) must unescape to exactly the hostile payload. SeError is an allowed outcome. Non-trivial = the value contains a markup-significant payload character or a non-name key/root.",
    assumptions: &["the reader is used as a tool (C01/C11 judge it)", "the Name validator is written from the XML 1.1 productions NameStartChar / NameChar", "slot alignment relies on the generator consuming identical randomness in both payload modes"],
    required: &["ser.ok", "ser.err", "names_validated", "names_rejected_by_serializer", "slots_compared", "slots.list_items", "skeletons_compared", "types_seen_all", "bad_root_names_tried", "configs_seen_all36", "entry_points_compared", "write_serializable_compared", "limited_sinks_tried"],
    run,
    replay,
    thorough_layers: &[],
    quick_layers: &[],
    post: Some(post),
};

fn post(c: &mut BTreeMap<String, u64>) {
    let total = (family().len() + ser_only().len()) as u64;
    let seen = c.iter().filter(|(k, v)| k.starts_with("type.") && **v > 0).count() as u64;
    c.insert("types_seen".into(), seen);
    c.insert("types_seen_all".into(), (seen >= total) as u64);
    let cfgs = c.iter().filter(|(k, v)| k.starts_with("cfg.") && **v > 0).count() as u64;
    let keys: Vec<String> = c.keys().filter(|k| k.starts_with("cfg.")).cloned().collect();
    for k in keys {
        c.remove(&k);
    }
    c.insert("configs_seen_all36".into(), (cfgs >= 36) as u64);
}

#[derive(Default)]
struct Local {
    ok: u64,
    err: u64,
    names: u64,
    rejected: u64,
    slots: u64,
    list_items: u64,
    skeletons: u64,
    bad_roots: u64,
    types: BTreeMap<&'static str, u64>,
    cfgs: BTreeMap<usize, u64>,
    hostile_err_benign_ok: u64,
    entry_points: u64,
    write_serializable: u64,
    limited_sinks: u64,
}

pub fn is_name_start(c: char) -> bool {
    let u = c as u32;
    c == ':'
        || c == '_'
        || c.is_ascii_alphabetic()
        || (0xC0..=0xD6).contains(&u)
        || (0xD8..=0xF6).contains(&u)
        || (0xF8..=0x2FF).contains(&u)
        || (0x370..=0x37D).contains(&u)
        || (0x37F..=0x1FFF).contains(&u)
        || (0x200C..=0x200D).contains(&u)
        || (0x2070..=0x218F).contains(&u)
        || (0x2C00..=0x2FEF).contains(&u)
        || (0x3001..=0xD7FF).contains(&u)
        || (0xF900..=0xFDCF).contains(&u)
        || (0xFDF0..=0xFFFD).contains(&u)
        || (0x10000..=0xEFFFF).contains(&u)
}
pub fn is_name_char(c: char) -> bool {
    let u = c as u32;
    is_name_start(c) || c == '-' || c == '.' || c.is_ascii_digit() || u == 0xB7 || (0x300..=0x36F).contains(&u) || (0x203F..=0x2040).contains(&u)
}
pub fn is_xml_name(s: &str) -> bool {
    let mut it = s.chars();
    match it.next() {
        Some(c) if is_name_start(c) => it.all(is_name_char),
        _ => false,
    }
}

#[derive(Debug, Clone, PartialEq)]
enum Skel {
    Start(String, Vec<String>),
    Empty(String, Vec<String>),
    End(String),
    Other(&'static str),
}
#[derive(Debug, Clone, PartialEq)]
struct Slot {
    /// index into the skeleton before which / in which the slot occurs
    at: usize,
    attr: bool,
    cdata: bool,
    raw: String,
}

/// (a) + (b): reads the document with all checks on
fn parse(xml: &str, loc: &mut Local) -> Result<(Vec<Skel>, Vec<Slot>), String> {
    let mut r = Reader::from_str(xml);
    apply_cfg(r.config_mut(), C_CHECK_END_NAMES | C_CHECK_COMMENTS | C_TRIM_NAMES);
    let mut skel = Vec::new();
    let mut slots = Vec::new();
    let mut depth = 0i64;
    let name_of = |b: &[u8], what: &str, loc: &mut Local| -> Result<String, String> {
        let s = std::str::from_utf8(b).map_err(|_| format!("{} name is not UTF-8", what))?;
        loc.names += 1;
        if !is_xml_name(s) {
            return Err(format!("{} name {:?} in the output is not a legal XML name", what, s));
        }
        Ok(s.to_string())
    };
    for _ in 0..call_bound(xml.len()) + 2 {
        let ev = r.read_event().map_err(|e| format!("the reader (all checks on) rejects the output at {}: {}", r.error_position(), e))?;
        match ev {
            Event::Start(e) | Event::Empty(e) if false => {
                let _ = e;
            }
            Event::Start(ref e) | Event::Empty(ref e) => {
                let name = name_of(e.name().as_ref(), "element", loc)?;
                let mut attrs = Vec::new();
                for a in e.attributes() {
                    let a = a.map_err(|err| format!("attribute list of <{}> does not iterate: {}", name, err))?;
                    attrs.push(name_of(a.key.as_ref(), "attribute", loc)?);
                    slots.push(Slot {
                        at: skel.len(),
                        attr: true,
                        cdata: false,
                        raw: String::from_utf8_lossy(&a.value).into_owned(),
                    });
                }
                if matches!(ev, Event::Start(_)) {
                    depth += 1;
                    skel.push(Skel::Start(name, attrs));
                } else {
                    skel.push(Skel::Empty(name, attrs));
                }
            }
            Event::End(e) => {
                depth -= 1;
                skel.push(Skel::End(String::from_utf8_lossy(e.name().as_ref()).into_owned()));
            }
            Event::Text(e) => slots.push(Slot {
                at: skel.len(),
                attr: false,
                cdata: false,
                raw: String::from_utf8_lossy(&e).into_owned(),
            }),
            Event::CData(e) => slots.push(Slot {
                at: skel.len(),
                attr: false,
                cdata: true,
                raw: String::from_utf8_lossy(&e).into_owned(),
            }),
            Event::Comment(_) => skel.push(Skel::Other("comment")),
            Event::PI(_) => skel.push(Skel::Other("pi")),
            Event::Decl(_) => skel.push(Skel::Other("decl")),
            Event::DocType(_) => skel.push(Skel::Other("doctype")),
            Event::Eof => {
                if depth != 0 {
                    return Err(format!("{} element(s) are left open at the end of the output", depth));
                }
                return Ok((skel, slots));
            }
        }
    }
    Err("no Eof".into())
}

fn unesc(raw: &str, cdata: bool) -> Result<String, String> {
    if cdata {
        return Ok(raw.to_string());
    }
    quick_xml::escape::unescape(raw).map(|c| c.into_owned()).map_err(|e| format!("payload {:?} in the output does not unescape: {}", raw, e))
}

fn hostile_for(token: &str, pairs: &[(String, String)]) -> Option<String> {
    if let Some(n) = token.strip_prefix('b') {
        if let Ok(i) = n.parse::<usize>() {
            if !n.is_empty() && n.bytes().all(|b| b.is_ascii_digit()) {
                return pairs.get(i).map(|p| p.1.clone());
            }
        }
    }
    let mut cs = token.chars();
    if let (Some(c), None) = (cs.next(), cs.next()) {
        let u = c as u32;
        if u >= BENIGN_CHAR_BASE && u < BENIGN_CHAR_BASE + pairs.len() as u32 {
            return Some(pairs[(u - BENIGN_CHAR_BASE) as usize].1.clone());
        }
    }
    None
}

/// Check one (type, seed, cfg). Returns Ok(true) if serialization succeeded.
fn check_family(gen: fn(&mut Rng) -> Box<dyn Val>, name: &str, vseed: u64, cfg: &SerCfg, loc: &mut Local) -> Result<bool, String> {
    set_mode(MODE_BENIGN);
    let benign = gen(&mut Rng::new(vseed));
    let pairs = take_pairs();
    set_mode(MODE_HOSTILE_RAW);
    let hostile = gen(&mut Rng::new(vseed));
    let hpairs = take_pairs();
    set_mode(MODE_DOMAIN);
    if pairs.len() != hpairs.len() || pairs.iter().zip(&hpairs).any(|(a, b)| a.1 != b.1) {
        return Err(format!("harness error: payload streams of {} differ between the two modes", name));
    }
    let hx = hostile.ser(cfg);
    let bx = benign.ser(cfg);
    let hx = match hx {
        Ok(x) => x,
        Err(_) => {
            loc.err += 1;
            if bx.is_ok() {
                loc.hostile_err_benign_ok += 1;
            }
            return Ok(false);
        }
    };
    loc.ok += 1;
    let (hskel, hslots) = parse(&hx, loc).map_err(|e| format!("{} (document {:?}, value {})", e, hx, hostile.dbg()))?;
    let bx = match bx {
        Ok(x) => x,
        Err(e) => return Err(format!("serialization with markup-free stand-in payloads fails ({}) although the hostile value serializes", e)),
    };
    let (bskel, bslots) = parse(&bx, loc).map_err(|e| format!("{} (stand-in document {:?})", e, bx))?;
    loc.skeletons += 1;
    if hskel != bskel {
        let i = (0..hskel.len().max(bskel.len())).find(|&i| hskel.get(i) != bskel.get(i)).unwrap_or(0);
        return Err(format!(
            "payloads changed the markup: item {} of the document skeleton is {:?} with hostile payloads but {:?} with markup-free payloads (document {:?})",
            i,
            hskel.get(i),
            bskel.get(i),
            hx
        ));
    }
    if hslots.len() != bslots.len() {
        return Err(format!("{} payload slots with hostile payloads but {} with markup-free payloads (document {:?} vs {:?})", hslots.len(), bslots.len(), hx, bx));
    }
    for (h, b) in hslots.iter().zip(&bslots) {
        if (h.at, h.attr) != (b.at, b.attr) {
            return Err(format!("payload slot moved: {:?} vs {:?} (document {:?})", h, b, hx));
        }
        let bpieces: Vec<&str> = b.raw.split(' ').collect();
        let any_token = bpieces.iter().any(|p| hostile_for(p, &pairs).is_some());
        if !any_token {
            // numbers, booleans, literals, indentation whitespace: identical in both documents
            if h.raw != b.raw {
                return Err(format!("a slot without string payload differs: {:?} vs {:?} (document {:?})", h.raw, b.raw, hx));
            }
            continue;
        }
        loc.slots += 1;
        if bpieces.len() == 1 {
            let want = hostile_for(bpieces[0], &pairs).unwrap();
            let got = unesc(&h.raw, h.cdata)?;
            if got != want {
                return Err(format!("payload {:?} was serialized as {:?}, which reads back as {:?} (document {:?})", want, h.raw, got, hx));
            }
        } else {
            let hpieces: Vec<&str> = h.raw.split(' ').collect();
            if hpieces.len() != bpieces.len() {
                return Err(format!("a list of {} items was serialized as {:?}, which splits into {} items (document {:?})", bpieces.len(), h.raw, hpieces.len(), hx));
            }
            for (hp, bp) in hpieces.iter().zip(&bpieces) {
                loc.list_items += 1;
                let want = hostile_for(bp, &pairs).unwrap_or_else(|| bp.to_string());
                let got = unesc(hp, h.cdata)?;
                if got != want {
                    return Err(format!("list item {:?} was serialized as {:?}, which reads back as {:?} (document {:?})", want, hp, got, hx));
                }
            }
        }
    }
    Ok(true)
}

/// An io::Write that accepts at most `cap` bytes and then fails.
struct Limited {
    data: Vec<u8>,
    cap: usize,
}
impl std::io::Write for Limited {
    fn write(&mut self, buf: &[u8]) -> std::io::Result<usize> {
        if self.data.len() + buf.len() > self.cap {
            let room = self.cap - self.data.len();
            if room == 0 {
                // a full sink says so either with an error or -- like `&mut [u8]` -- by accepting 0 bytes
                if self.cap % 2 == 0 {
                    return Ok(0);
                }
                return Err(std::io::Error::new(std::io::ErrorKind::WriteZero, "sink is full"));
            }
            self.data.extend_from_slice(&buf[..room]);
            return Ok(room);
        }
        self.data.extend_from_slice(buf);
        Ok(buf.len())
    }
    fn flush(&mut self) -> std::io::Result<()> {
        Ok(())
    }
}

/// All serializer entry points must agree: to_string / to_writer / to_utf8_io_writer (and the
/// *_with_root variants through ser_with). If a call returns Ok, what reached the sink is the
/// complete document; a sink that cannot take the whole document must make the call fail.
fn check_entry_points(v: &dyn Val, loc: &mut Local, r: &mut Rng) -> Result<(), String> {
    let a = match v.se_to_string() {
        Ok(a) => a,
        Err(_) => return Ok(()),
    };
    // Every entry point must produce a well-formed document with the same element structure and
    // the same payloads as to_string's (byte equality is not demanded: the property is about what
    // the document says)
    let want = parse(&a, loc).map_err(|e| format!("to_string: {} (document {:?})", e, a))?;
    let same = |what: &str, got: &str, loc: &mut Local| -> Result<(), String> {
        let p = parse(got, loc).map_err(|e| format!("{}: {} (document {:?})", what, e, got))?;
        if p != want {
            return Err(format!("{} produced {:?}, which differs in structure or payloads from to_string's {:?}", what, got, a));
        }
        Ok(())
    };
    let b = v.se_to_writer().map_err(|e| format!("to_writer fails ({}) although to_string succeeds", e))?;
    same("to_writer", &b, loc)?;
    let mut c: Vec<u8> = Vec::new();
    v.se_to_io(&mut c).map_err(|e| format!("to_utf8_io_writer fails ({}) although to_string succeeds", e))?;
    let c = String::from_utf8(c).map_err(|_| "to_utf8_io_writer wrote bytes that are not UTF-8".to_string())?;
    same("to_utf8_io_writer", &c, loc)?;
    // Writer::write_serializable(tag, v) against to_string_with_root(tag, v)
    let tag = "w_root";
    let mut cfg = SerCfg::plain();
    cfg.root = Some(tag.to_string());
    if let Ok(w) = v.ser(&cfg) {
        let want2 = parse(&w, loc).map_err(|e| format!("to_string_with_root: {} (document {:?})", e, w))?;
        let got = v.se_write_serializable(tag, None, false).map_err(|e| format!("Writer::write_serializable fails ({}) although to_string_with_root succeeds", e))?;
        let p = parse(&got, loc).map_err(|e| format!("Writer::write_serializable: {} (document {:?})", e, got))?;
        if p != want2 {
            return Err(format!("Writer::write_serializable produced {:?}, which differs in structure or payloads from to_string_with_root's {:?}", got, w));
        }
        loc.write_serializable += 1;
    }
    loc.entry_points += 1;
    if !a.is_empty() {
        // a sink with room for only a part of the document
        let cap = r.below(a.len());
        let mut sink = Limited { data: Vec::new(), cap };
        let res = v.se_to_io(&mut sink);
        loc.limited_sinks += 1;
        if res.is_ok() {
            return Err(format!(
                "to_utf8_io_writer returned Ok although the sink accepted only {} of {} bytes: the output {:?} is not the document",
                cap,
                a.len(),
                String::from_utf8_lossy(&sink.data)
            ));
        }
    }
    Ok(())
}

/// serialize-only shapes: (a) and (b) only
fn check_ser_only(gen: fn(&mut Rng) -> Box<dyn Val>, vseed: u64, cfg: &SerCfg, loc: &mut Local) -> Result<bool, String> {
    set_mode(MODE_HOSTILE_RAW);
    let v = gen(&mut Rng::new(vseed));
    take_pairs();
    set_mode(MODE_DOMAIN);
    match v.ser(cfg) {
        Err(e) => {
            loc.err += 1;
            if e.contains("XML name") || e.contains("not allowed") || e.contains("empty") {
                loc.rejected += 1;
            }
            Ok(false)
        }
        Ok(x) => {
            loc.ok += 1;
            parse(&x, loc).map_err(|e| format!("{} (document {:?}, value {})", e, x, v.dbg()))?;
            Ok(true)
        }
    }
}

pub const ROOT_POOL: &[&str] = &["", " ", "a b", "<", ">", "1a", "-a", "a>", "a<b", "@a", "$text", "x:y", "é", "ok", "a.b-c", "\u{0}", "a\"b", "a=b", "a/", "/a", ":", "_", "\u{FEFF}", "a\u{B7}", "é b", "é>", "é><evil/", "日 本", "日本", "Ωa/b", "éé", "é\"", "ж\u{0}"];

fn run(ctx: &mut Ctx) {
    let mut loc = Local::default();
    let t = ctx.tier;
    let fam = family();
    let so = ser_only();
    let cfgs = SerCfg::all();
    let mut r = ctx.rng(15);
    let per_type = ctx.scaled(t.pick(12_000, 1_500_000)) / ctx.nshards as u64 + 1;
    let mut do_case = |ctx: &mut Ctx, loc: &mut Local, name: &'static str, is_fam: bool, gen: fn(&mut Rng) -> Box<dyn Val>, vseed: u64, cfg: &SerCfg, ci: usize| -> bool {
        let case = json!({"type": name, "family": is_fam, "value_seed": vseed, "cfg": cfg.to_json()});
        ctx.journal(|| case.clone());
        let before = loc.slots;
        let res = guarded(|| if is_fam { check_family(gen, name, vseed, cfg, loc) } else { check_ser_only(gen, vseed, cfg, loc) });
        set_mode(MODE_DOMAIN);
        let res = match res {
            Ok(r) => r,
            Err(p) => Err(p),
        };
        ctx.eval(H::new().str(name).u64(vseed).u64(ci as u64).str(cfg.root.as_deref().unwrap_or("-")).finish(), loc.slots > before || !is_fam);
        *loc.types.entry(name).or_insert(0) += 1;
        *loc.cfgs.entry(ci).or_insert(0) += 1;
        match res {
            Ok(_) => {
                ctx.sample(|| case.clone());
                true
            }
            Err(d) => {
                ctx.violation(case, d);
                !ctx.full()
            }
        }
    };
    'outer: for k in 0..per_type {
        for ops in &fam {
            let vseed = r.next();
            for _ in 0..2 {
                let ci = r.below(cfgs.len());
                if !do_case(ctx, &mut loc, ops.name, true, ops.gen.unwrap(), vseed, &cfgs[ci], ci) {
                    break 'outer;
                }
            }
            // the other serializer entry points, also into a sink that is too small
            if k % 4 == 1 {
                let v = (ops.gen.unwrap())(&mut Rng::new(vseed));
                let case = json!({"type": ops.name, "family": true, "value_seed": vseed, "entry_points": true});
                ctx.eval(H::new().str(ops.name).u64(vseed).u64(0xE9).finish(), true);
                if let Err(d) = guarded(|| check_entry_points(v.as_ref(), &mut loc, &mut r)).unwrap_or_else(Err) {
                    ctx.violation(case, d);
                    if ctx.full() {
                        break 'outer;
                    }
                }
            }
            // arbitrary root names (not for the top-level enum, whose root is the variant)
            if k % 4 == 0 {
                let mut cfg = cfgs[r.below(cfgs.len())].clone();
                cfg.root = Some(r.pick(ROOT_POOL).to_string());
                if !is_xml_name(cfg.root.as_deref().unwrap()) {
                    loc.bad_roots += 1;
                }
                if !do_case(ctx, &mut loc, ops.name, true, ops.gen.unwrap(), vseed, &cfg, 0) {
                    break 'outer;
                }
            }
        }
        for s in &so {
            let vseed = r.next();
            let ci = r.below(cfgs.len());
            let mut cfg = cfgs[ci].clone();
            if r.chance(1, 3) {
                cfg.root = Some(r.pick(ROOT_POOL).to_string());
                if !is_xml_name(cfg.root.as_deref().unwrap()) {
                    loc.bad_roots += 1;
                }
            } else if cfg.root.is_none() && r.bool() {
                cfg.root = Some("root".into());
            }
            if !do_case(ctx, &mut loc, s.name, false, s.gen, vseed, &cfg, ci) {
                break 'outer;
            }
        }
    }
    ctx.add("ser.ok", loc.ok);
    ctx.add("ser.err", loc.err);
    ctx.add("ser.hostile_err_but_standin_ok", loc.hostile_err_benign_ok);
    ctx.add("names_validated", loc.names);
    ctx.add("names_rejected_by_serializer", loc.rejected);
    ctx.add("slots_compared", loc.slots);
    ctx.add("slots.list_items", loc.list_items);
    ctx.add("skeletons_compared", loc.skeletons);
    ctx.add("bad_root_names_tried", loc.bad_roots);
    ctx.add("entry_points_compared", loc.entry_points);
    ctx.add("write_serializable_compared", loc.write_serializable);
    ctx.add("limited_sinks_tried", loc.limited_sinks);
    for (k, v) in &loc.types {
        ctx.add(&format!("type.{}", k), *v);
    }
    for (k, v) in &loc.cfgs {
        ctx.add(&format!("cfg.{:02}", k), *v);
    }
}

fn replay(case: &Value, _ctx: &mut Ctx) -> Option<String> {
    let name = case["type"].as_str().unwrap_or("");
    if case.get("entry_points").is_some() {
        let fam = family();
        let ops = fam.iter().find(|o| o.name == name)?;
        let v = (ops.gen.unwrap())(&mut Rng::new(case["value_seed"].as_u64().unwrap_or(0)));
        let mut loc = Local::default();
        // the sink capacity is drawn from a fresh generator: try a spread of capacities
        for k in 0..64u64 {
            if let Err(d) = check_entry_points(v.as_ref(), &mut loc, &mut Rng::new(k)) {
                return Some(d);
            }
        }
        return None;
    }
    let cfg = SerCfg::from_json(&case["cfg"]);
    let vseed = case["value_seed"].as_u64().unwrap_or(0);
    let mut loc = Local::default();
    let r = if case["family"].as_bool().unwrap_or(true) {
        let fam = family();
        let ops = fam.iter().find(|o| o.name == name)?;
        check_family(ops.gen.unwrap(), ops.name, vseed, &cfg, &mut loc)
    } else {
        let so = ser_only();
        let s = so.iter().find(|o| o.name == name)?;
        check_ser_only(s.gen, vseed, &cfg, &mut loc)
    };
    set_mode(MODE_DOMAIN);
    r.err()
}
