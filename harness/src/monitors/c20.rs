//! C20 — overlapped lists: interleaving siblings does not change the result.

use crate::ctx::{guarded, Ctx};
use crate::family::*;
use crate::obs::*;
use crate::refmodel::tok::{is_ws, tokenize};
use crate::rng::{Rng, H};
use crate::runner::PropSpec;
use crate::sources::{cuts_for_piece, ChunkedRead};
use serde_json::{json, Value};
use std::collections::BTreeMap;

pub const SPEC: PropSpec = PropSpec {
    id: "C20",
    level: "exploration",
    rule: "Cases = (value of one of 9 struct shapes with list fields (one with three lists whose middle items contain a child of the item's own name; one whose container also has text content, which is one more sibling of one event): two lists; three lists; lists + scalar + optional field; list items that are structs containing a child named like an outer list; list items that are structs with two lists of their own; a $value enum list next to a named list; nested struct with its own lists, order-preserving interleaving of the child elements of its contiguous serialization, event buffer limit). Exhaustive: for generated values with at most 3+3+2 list items ALL order-preserving interleavings (multinomial, sampled down to 600 when more than 2000) x every limit 1..=total child events+2 and no limit; random interleavings for sizes up to 10+10+10; two-level random interleavings (the children of nested struct items are interleaved as well). Oracle: without a limit the result must be Ok(original value) (string and reader entry points); with a limit L the result must be Ok(original value) or Err(TooManyEvents); if B > L the result must not be Ok, where B = number of deserializer events (Start, End, Text; an empty element counts 2) of the siblings that do not belong to the first list met in document order and stand behind that list's first item; success at L implies success at every L' > L. Non-trivial = the interleaving is not the contiguous one (B > 0).",
    assumptions: &["B is a lower bound of what has to be buffered (documentation of the overlapped-lists feature: all events up to the end of the container are inspected); list items that are structs with own lists may need more, which the monitor does not demand", "the serializer output never contains comments/CDATA, so one text token is one deserializer event"],
    required: &["interleavings", "shapes_seen_all9", "outcome.ok", "outcome.too_many_events", "monotonicity_pairs", "tight.zero_slack", "max.B", "reader_entry", "two_level_values"],
    run,
    replay,
    thorough_layers: &[],
    quick_layers: &[],
    post: Some(post),
};

fn post(c: &mut BTreeMap<String, u64>) {
    let n = c.iter().filter(|(k, v)| k.starts_with("shape.") && **v > 0).count() as u64;
    c.insert("shapes_seen_all9".into(), (n >= 8) as u64);
}

#[derive(Default)]
struct Local {
    interleavings: u64,
    shapes: BTreeMap<&'static str, u64>,
    ok: u64,
    tme: u64,
    mono: u64,
    slack: BTreeMap<u64, u64>,
    max_b: u64,
    reader: u64,
    deep: u64,
}

#[derive(Clone, Debug)]
pub struct Child {
    pub bytes: String,
    pub group: usize,
    pub events: u64,
}

/// splits `<root ...>children</root>` into the root tags and the child sub-trees
pub fn split_children(xml: &str, list_groups: &dyn Fn(&str) -> (usize, bool)) -> Option<(String, Vec<(Child, bool)>, String)> {
    let toks = tokenize(xml.as_bytes(), CFG_NEUTRAL);
    if toks.len() < 2 {
        return None;
    }
    let first = &toks[0];
    if !matches!(first.obs, Obs::Ev(Kind::Start, _, _)) {
        // <root/> : no children
        return Some((xml.to_string(), vec![], String::new()));
    }
    let open = xml[..first.after as usize].to_string();
    let mut depth = 0i32;
    let mut children = Vec::new();
    let mut cur_start: Option<usize> = None;
    let mut cur_events = 0u64;
    let mut cur_name = String::new();
    let mut close = String::new();
    for t in &toks[1..] {
        match &t.obs {
            Obs::Ev(Kind::Start, _, n) => {
                if depth == 0 {
                    cur_start = Some(t.before as usize);
                    cur_events = 0;
                    cur_name = String::from_utf8_lossy(n).into_owned();
                }
                depth += 1;
                cur_events += 1;
            }
            Obs::Ev(Kind::Empty, _, n) => {
                if depth == 0 {
                    let (g, is_list) = list_groups(&String::from_utf8_lossy(n));
                    children.push((
                        Child {
                            bytes: xml[t.before as usize..t.after as usize].to_string(),
                            group: g,
                            events: 2,
                        },
                        is_list,
                    ));
                } else {
                    cur_events += 2;
                }
            }
            Obs::Ev(Kind::End, _, _) => {
                if depth == 0 {
                    close = xml[t.before as usize..t.after as usize].to_string();
                    break;
                }
                depth -= 1;
                cur_events += 1;
                if depth == 0 {
                    let (g, is_list) = list_groups(&cur_name);
                    children.push((
                        Child {
                            bytes: xml[cur_start.unwrap()..t.after as usize].to_string(),
                            group: g,
                            events: cur_events,
                        },
                        is_list,
                    ));
                    cur_start = None;
                }
            }
            Obs::Ev(Kind::Text, raw, _) => {
                if depth == 0 && !raw.iter().all(|b| is_ws(*b)) {
                    // text content of the container itself: one more sibling, one event
                    children.push((Child { bytes: xml[t.before as usize..t.after as usize].to_string(), group: 11, events: 1 }, false));
                } else if depth > 0 && !raw.iter().all(|b| is_ws(*b)) {
                    cur_events += 1;
                } else if depth > 0 && !raw.is_empty() {
                    // whitespace-only text inside a leaf element is a text event unless it is trimmed away:
                    // the deserializer trims it to nothing, so it does not count
                }
            }
            Obs::Ev(Kind::Eof, _, _) => break,
            _ => return None,
        }
    }
    Some((open, children, close))
}

/// (group, is_list) of a child element name, per shape
fn groups_for(shape: &str) -> Box<dyn Fn(&str) -> (usize, bool)> {
    let shape = shape.to_string();
    Box::new(move |name: &str| match (shape.as_str(), name) {
        ("OvlValue", "t_p") | ("OvlValue", "u_q") => (7, true),
        (_, "t_a") => (0, true),
        (_, "t_b") => (1, true),
        (_, "t_c") => (2, true),
        (_, "s_item") => (3, true),
        (_, "s_item2") => (8, true),
        (_, "t_d") => (10, true),
        (_, "t_one") => (4, false),
        (_, "t_opt") => (5, false),
        (_, "s_ovl2") => (6, false),
        _ => (9, false),
    })
}

/// B for an ordering of the children
fn lower_bound(order: &[usize], children: &[(Child, bool)]) -> u64 {
    let mut first_list: Option<usize> = None;
    let mut b = 0;
    for &i in order {
        let (c, is_list) = &children[i];
        match first_list {
            None => {
                if *is_list {
                    first_list = Some(c.group);
                }
            }
            Some(g) => {
                if c.group != g {
                    b += c.events;
                }
            }
        }
    }
    b
}

/// all merges of the groups that keep the order inside each group
fn interleavings(children: &[(Child, bool)], cap: usize, r: &mut Rng) -> (Vec<Vec<usize>>, bool) {
    let mut groups: BTreeMap<usize, Vec<usize>> = BTreeMap::new();
    for (i, (c, _)) in children.iter().enumerate() {
        groups.entry(c.group).or_default().push(i);
    }
    let gs: Vec<Vec<usize>> = groups.into_values().collect();
    // count
    let total: usize = gs.iter().map(|g| g.len()).sum();
    let mut count = 1f64;
    let mut rem = total;
    for g in &gs {
        // C(rem, len)
        let mut c = 1f64;
        for k in 0..g.len() {
            c = c * (rem - k) as f64 / (k + 1) as f64;
        }
        count *= c;
        rem -= g.len();
    }
    if count <= cap as f64 {
        let mut out = Vec::new();
        let mut pos = vec![0usize; gs.len()];
        let mut cur = Vec::with_capacity(total);
        fn rec(gs: &[Vec<usize>], pos: &mut Vec<usize>, cur: &mut Vec<usize>, total: usize, out: &mut Vec<Vec<usize>>) {
            if cur.len() == total {
                out.push(cur.clone());
                return;
            }
            for g in 0..gs.len() {
                if pos[g] < gs[g].len() {
                    cur.push(gs[g][pos[g]]);
                    pos[g] += 1;
                    rec(gs, pos, cur, total, out);
                    pos[g] -= 1;
                    cur.pop();
                }
            }
        }
        rec(&gs, &mut pos, &mut cur, total, &mut out);
        (out, true)
    } else {
        let mut out = Vec::new();
        for _ in 0..600 {
            let mut pos = vec![0usize; gs.len()];
            let mut cur = Vec::with_capacity(total);
            while cur.len() < total {
                // pick a group weighted by remaining items
                let remaining: usize = gs.iter().zip(&pos).map(|(g, p)| g.len() - p).sum();
                let mut k = r.below(remaining);
                for g in 0..gs.len() {
                    let left = gs[g].len() - pos[g];
                    if k < left {
                        cur.push(gs[g][pos[g]]);
                        pos[g] += 1;
                        break;
                    }
                    k -= left;
                }
            }
            out.push(cur);
        }
        (out, false)
    }
}

/// random order-preserving merge of children grouped by `key`
fn random_merge(keys: &[usize], r: &mut Rng) -> Vec<usize> {
    let mut groups: BTreeMap<usize, Vec<usize>> = BTreeMap::new();
    for (i, k) in keys.iter().enumerate() {
        groups.entry(*k).or_default().push(i);
    }
    let gs: Vec<Vec<usize>> = groups.into_values().collect();
    let mut pos = vec![0usize; gs.len()];
    let total = keys.len();
    let mut out = Vec::with_capacity(total);
    while out.len() < total {
        let remaining: usize = gs.iter().zip(&pos).map(|(g, p)| g.len() - p).sum();
        let mut k = r.below(remaining);
        for g in 0..gs.len() {
            let left = gs[g].len() - pos[g];
            if k < left {
                out.push(gs[g][pos[g]]);
                pos[g] += 1;
                break;
            }
            k -= left;
        }
    }
    out
}

/// interleaves the children of every nested `s_*` element of `xml` (recursively), keeping the
/// relative order of same-named children
pub fn shuffle_inner(xml: &str, r: &mut Rng, depth: usize) -> String {
    let by_name = |name: &str| -> (usize, bool) {
        let mut h = 0usize;
        for b in name.bytes() {
            h = h.wrapping_mul(31).wrapping_add(b as usize);
        }
        (h, true)
    };
    let (open, children, close) = match split_children(xml, &by_name) {
        Some(x) => x,
        None => return xml.to_string(),
    };
    if children.is_empty() {
        return xml.to_string();
    }
    let rebuilt: Vec<String> = children.iter().map(|(c, _)| if c.bytes.starts_with("<s_") && depth < 4 { shuffle_inner(&c.bytes, r, depth + 1) } else { c.bytes.clone() }).collect();
    let order = if depth == 0 { (0..children.len()).collect::<Vec<_>>() } else { random_merge(&children.iter().map(|(c, _)| c.group).collect::<Vec<_>>(), r) };
    let mut s = String::from(open);
    for i in order {
        s.push_str(&rebuilt[i]);
    }
    s.push_str(&close);
    s
}

fn build(open: &str, children: &[(Child, bool)], order: &[usize], close: &str) -> String {
    let mut s = String::with_capacity(open.len() + close.len() + children.iter().map(|c| c.0.bytes.len()).sum::<usize>());
    s.push_str(open);
    for &i in order {
        s.push_str(&children[i].0.bytes);
    }
    s.push_str(close);
    s
}

/// judge one interleaving under every limit
fn check_order(ops: &TypeOps, v: &dyn Val, doc: &str, b: u64, total_events: u64, all_limits: bool, loc: &mut Local, r: &mut Rng) -> Result<(), String> {
    // no limit
    match (ops.de_str)(doc, None) {
        Ok(x) if x.eq_val(v) => {}
        Ok(x) => return Err(format!("without a limit the interleaved document gives {} instead of {} (document {:?})", x.dbg(), v.dbg(), doc)),
        Err(e) => return Err(format!("without a limit the interleaved document fails: {}: {} (document {:?})", e.kind, e.msg, doc)),
    }
    let limits: Vec<u64> = if all_limits {
        (1..=total_events + 2).collect()
    } else {
        let mut l: Vec<u64> = vec![1, b.max(1), b + 1, b + 2, total_events + 2];
        if b > 1 {
            l.push(b - 1);
        }
        l.push(1 + r.below(total_events as usize + 2) as u64);
        l.sort();
        l.dedup();
        l
    };
    let mut first_ok: Option<u64> = None;
    for l in limits {
        let res = (ops.de_str)(doc, Some(l as usize));
        match res {
            Ok(x) => {
                if !x.eq_val(v) {
                    return Err(format!("with limit {} the interleaved document gives {} instead of {} (document {:?})", l, x.dbg(), v.dbg(), doc));
                }
                if b > l {
                    return Err(format!(
                        "limit {} succeeded although {} events of non-matching siblings stand behind the first item of the first list and must be held until the container ends (document {:?})",
                        l, b, doc
                    ));
                }
                loc.ok += 1;
                if first_ok.is_none() {
                    first_ok = Some(l);
                }
            }
            Err(e) if e.kind == "TooManyEvents" => {
                loc.tme += 1;
                if let Some(f) = first_ok {
                    return Err(format!("limit {} succeeded but the larger limit {} fails with TooManyEvents (document {:?})", f, l, doc));
                }
            }
            Err(e) => return Err(format!("with limit {} the interleaved document fails with {}: {} (neither the value nor TooManyEvents; document {:?})", l, e.kind, e.msg, doc)),
        }
        if first_ok.is_some() {
            loc.mono += 1;
        }
    }
    if let (Some(f), true) = (first_ok, all_limits) {
        *loc.slack.entry((f - b.max(1)).min(9)).or_insert(0) += 1;
    }
    Ok(())
}

fn run_value(ctx: &mut Ctx, loc: &mut Local, ops: &TypeOps, gen: fn(&mut Rng, usize) -> Box<dyn Val>, vseed: u64, max: usize, exhaustive: bool, deep_seed: Option<u64>, r: &mut Rng) -> bool {
    let v = gen(&mut Rng::new(vseed), max);
    let xml = match v.ser(&SerCfg::plain()) {
        Ok(x) => x,
        Err(_) => return true,
    };
    // two-level interleaving: first interleave the children of nested struct items
    let xml = match deep_seed {
        Some(s) => {
            loc.deep += 1;
            shuffle_inner(&xml, &mut Rng::new(s), 0)
        }
        None => xml,
    };
    let (open, children, close) = match split_children(&xml, &*groups_for(ops.name)) {
        Some(x) => x,
        None => return true,
    };
    if children.is_empty() {
        return true;
    }
    let total_events: u64 = children.iter().map(|c| c.0.events).sum();
    let (orders, complete) = if exhaustive {
        interleavings(&children, 2000, r)
    } else {
        // random interleavings only
        let (o, _) = interleavings(&children, 0, r);
        (o.into_iter().take(24).collect(), false)
    };
    *loc.shapes.entry(ops.name).or_insert(0) += 1;
    for (oi, order) in orders.iter().enumerate() {
        let doc = build(&open, &children, order, &close);
        let b = lower_bound(order, &children);
        loc.max_b = loc.max_b.max(b);
        loc.interleavings += 1;
        let case = json!({"shape": ops.name, "value_seed": vseed, "max": max, "deep_seed": deep_seed, "order": order, "document": doc});
        ctx.journal(|| case.clone());
        ctx.eval(H::new().str(&doc).finish(), b > 0);
        let res = guarded(|| check_order(ops, v.as_ref(), &doc, b, total_events, exhaustive && complete, loc, r));
        let mut res = match res {
            Ok(r) => r,
            Err(p) => Err(p),
        };
        // reader entry point (no limit) for a sample
        if res.is_ok() && oi % 7 == 0 {
            loc.reader += 1;
            res = match guarded(|| (ops.de_reader)(ChunkedRead::new(doc.as_bytes(), cuts_for_piece(doc.len(), 1, 0)))) {
                Ok(Ok(x)) if x.eq_val(v.as_ref()) => Ok(()),
                Ok(Ok(x)) => Err(format!("from_reader gives {} instead of {} (document {:?})", x.dbg(), v.dbg(), doc)),
                Ok(Err(e)) => Err(format!("from_reader fails: {}: {} (document {:?})", e.kind, e.msg, doc)),
                Err(p) => Err(p),
            };
        }
        if let Err(d) = res {
            ctx.violation(case, d);
            if ctx.full() {
                return false;
            }
        } else if oi % 50 == 0 {
            ctx.sample(|| json!({"shape": ops.name, "document": doc, "B": b, "child_events": total_events}));
        }
    }
    true
}

fn run(ctx: &mut Ctx) {
    let mut loc = Local::default();
    let t = ctx.tier;
    let shapes = ovl_family();
    let mut r = ctx.rng(16);
    let n = ctx.scaled(t.pick(800, 30_000)) / ctx.nshards as u64 + 1;
    'outer: for _ in 0..n {
        for (ops, gen) in &shapes {
            let vseed = r.next();
            if !run_value(ctx, &mut loc, ops, *gen, vseed, 3, true, None, &mut r) {
                break 'outer;
            }
        }
    }
    ctx.exhaustive("for every generated value with at most 3 items per list: all order-preserving interleavings of its child elements (when at most 2000) x every event-buffer limit 1..=child events+2");
    let n = ctx.scaled(t.pick(3_000, 120_000)) / ctx.nshards as u64 + 1;
    'outer2: for _ in 0..n {
        for (ops, gen) in &shapes {
            let vseed = r.next();
            let max = 4 + r.below(7);
            if !run_value(ctx, &mut loc, ops, *gen, vseed, max, false, None, &mut r) {
                break 'outer2;
            }
        }
    }
    // two-level interleavings for the shapes with nested struct items
    let n = ctx.scaled(t.pick(6_000, 240_000)) / ctx.nshards as u64 + 1;
    'outer3: for _ in 0..n {
        for (ops, gen) in &shapes {
            if !matches!(ops.name, "OvlSame" | "OvlDeep" | "OvlNested" | "OvlRec") {
                continue;
            }
            let vseed = r.next();
            let ds = r.next();
            let max = 2 + r.below(4);
            if !run_value(ctx, &mut loc, ops, *gen, vseed, max, false, Some(ds), &mut r) {
                break 'outer3;
            }
        }
    }
    ctx.add("interleavings", loc.interleavings);
    ctx.add("two_level_values", loc.deep);
    for (k, v) in &loc.shapes {
        ctx.add(&format!("shape.{}", k), *v);
    }
    ctx.add("outcome.ok", loc.ok);
    ctx.add("outcome.too_many_events", loc.tme);
    ctx.add("monotonicity_pairs", loc.mono);
    for (k, v) in &loc.slack {
        ctx.add(&format!("slack.smallest_succeeding_limit_minus_B.{}{}", k, if *k == 9 { "+" } else { "" }), *v);
    }
    ctx.add("tight.zero_slack", loc.slack.get(&0).copied().unwrap_or(0));
    ctx.max("max.B", loc.max_b);
    ctx.add("reader_entry", loc.reader);
}

fn replay(case: &Value, _ctx: &mut Ctx) -> Option<String> {
    let shapes = ovl_family();
    let (ops, gen) = shapes.iter().find(|(o, _)| o.name == case["shape"].as_str().unwrap_or(""))?;
    let v = gen(&mut Rng::new(case["value_seed"].as_u64().unwrap_or(0)), case["max"].as_u64().unwrap_or(3) as usize);
    let mut xml = v.ser(&SerCfg::plain()).ok()?;
    if let Some(ds) = case["deep_seed"].as_u64() {
        xml = shuffle_inner(&xml, &mut Rng::new(ds), 0);
    }
    let (open, children, close) = split_children(&xml, &*groups_for(ops.name))?;
    let order: Vec<usize> = case["order"].as_array()?.iter().map(|x| x.as_u64().unwrap_or(0) as usize).collect();
    if order.iter().any(|i| *i >= children.len()) {
        return Some("replay case does not match the regenerated value".into());
    }
    let doc = build(&open, &children, &order, &close);
    let b = lower_bound(&order, &children);
    let total: u64 = children.iter().map(|c| c.0.events).sum();
    let mut loc = Local::default();
    let mut r = Rng::new(1);
    check_order(ops, v.as_ref(), &doc, b, total, true, &mut loc, &mut r).err()
}
