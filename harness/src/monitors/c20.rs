//! C20 — overlapped lists: interleaving siblings does not change the result.

use crate::ctx::{guarded, Ctx};
use crate::family::*;
use crate::obs::*;
use crate::refmodel::tok::{is_ws, tokenize};
use crate::rng::{Rng, H};
use crate::runner::PropSpec;
use crate::sources::{cuts_for_piece, ChunkedRead};
use serde_json::{json, Value};
use std::collections::BTreeMap;

pub const SPEC: PropSpec = PropSpec {
    id: "C20",
    level: "exploration",
    rule: "Cases = (value of one of 9 struct shapes with list fields (one with three lists whose middle items contain a child of the item's own name; one whose container also has text content, which is one more sibling of one event): two lists; three lists; lists + scalar + optional field; list items that are structs containing a child named like an outer list; list items that are structs with two lists of their own; a $value enum list next to a named list; nested struct with its own lists, order-preserving interleaving of the child elements of its contiguous serialization, event buffer limit). Exhaustive: for generated values with at most 3+3+2 list items ALL order-preserving interleavings (multinomial, sampled down to 600 when more than 2000) x every limit 1..=total child events+2 and no limit; random interleavings for sizes up to 10+10+10; two-level random interleavings (the children of nested struct items are interleaved as well). Oracle: without a limit the result must be Ok(original value) (string and reader entry points); with a limit L the result must be Ok(original value) or Err(TooManyEvents); if B > L the result must not be Ok, where B = number of deserializer events (Start, End, Text; an empty element counts 2) of the siblings that do not belong to the first list met in document order and stand behind that list's first item; success at L implies success at every L' > L. Non-trivial = the interleaving is not the contiguous one (B > 0).",
    assumptions: &["B is a lower bound of what has to be buffered (documentation of the overlapped-lists feature: all events up to the end of the container are inspected); list items that are structs with own lists may need more, which the monitor does not demand", "the serializer output never contains comments/CDATA, so one text token is one deserializer event"],
    required: &["interleavings", "shapes_seen_all9", "decorated.documents_judged", "decorated.documents_with_xsi_nil", "decorated.documents_with_xsi_nil_declared_on_an_ancestor", "decorated.documents_with_prefixed_names", "outcome.ok", "outcome.too_many_events", "monotonicity_pairs", "tight.zero_slack", "max.B", "reader_entry", "two_level_values"],
    run,
    replay,
    thorough_layers: &[],
    quick_layers: &[],
    post: Some(post),
};

fn post(c: &mut BTreeMap<String, u64>) {
    let n = c.iter().filter(|(k, v)| k.starts_with("shape.") && **v > 0).count() as u64;
    c.insert("shapes_seen_all9".into(), (n >= 8) as u64);
}

#[derive(Default)]
struct Local {
    interleavings: u64,
    shapes: BTreeMap<&'static str, u64>,
    ok: u64,
    tme: u64,
    mono: u64,
    slack: BTreeMap<u64, u64>,
    max_b: u64,
    reader: u64,
    deep: u64,
    decor_docs: u64,
    decor_differs: u64,
    decor_fails: u64,
    decor_interleavings: u64,
    decor_nil_docs: u64,
    decor_nil_docs_ancestor: u64,
    decor_prefixed_docs: u64,
    decor_kinds: BTreeMap<&'static str, u64>,
}

#[derive(Clone, Debug)]
pub struct Child {
    pub bytes: String,
    pub group: usize,
    pub events: u64,
}

fn local(n: &[u8]) -> String {
    let s = String::from_utf8_lossy(n).into_owned();
    match s.rfind(':') {
        Some(i) => s[i + 1..].to_string(),
        None => s,
    }
}

/// splits `<root ...>children</root>` into the root tags and the child sub-trees. Names are taken
/// without their namespace prefix (the deserializer maps elements to fields by local name).
/// Comments and processing instructions between two children travel with the child that follows
/// them (they are no deserializer events); inside a child a run of text and CDATA pieces, also
/// when comments stand between the pieces, is one event.
pub fn split_children(xml: &str, list_groups: &dyn Fn(&str) -> (usize, bool)) -> Option<(String, Vec<(Child, bool)>, String)> {
    let toks = tokenize(xml.as_bytes(), CFG_NEUTRAL);
    if toks.len() < 2 {
        return None;
    }
    let first = &toks[0];
    if !matches!(first.obs, Obs::Ev(Kind::Start, _, _)) {
        // <root/> : no children
        return Some((xml.to_string(), vec![], String::new()));
    }
    let open = xml[..first.after as usize].to_string();
    let mut depth = 0i32;
    let mut children = Vec::new();
    let mut cur_start: Option<usize> = None;
    let mut cur_events = 0u64;
    let mut cur_name = String::new();
    let mut close = String::new();
    // start of comments / PIs that stand in front of the next child
    let mut lead: Option<usize> = None;
    let mut prev_text = false;
    for t in &toks[1..] {
        match &t.obs {
            Obs::Ev(Kind::Start, _, n) => {
                if depth == 0 {
                    cur_start = Some(lead.take().unwrap_or(t.before as usize));
                    cur_events = 0;
                    cur_name = local(n);
                }
                depth += 1;
                cur_events += 1;
                prev_text = false;
            }
            Obs::Ev(Kind::Empty, _, n) => {
                if depth == 0 {
                    let (g, is_list) = list_groups(&local(n));
                    children.push((
                        Child {
                            bytes: xml[lead.take().unwrap_or(t.before as usize)..t.after as usize].to_string(),
                            group: g,
                            events: 2,
                        },
                        is_list,
                    ));
                } else {
                    cur_events += 2;
                }
                prev_text = false;
            }
            Obs::Ev(Kind::End, _, _) => {
                prev_text = false;
                if depth == 0 {
                    close = xml[lead.take().unwrap_or(t.before as usize)..t.after as usize].to_string();
                    break;
                }
                depth -= 1;
                cur_events += 1;
                if depth == 0 {
                    let (g, is_list) = list_groups(&cur_name);
                    children.push((
                        Child {
                            bytes: xml[cur_start.unwrap()..t.after as usize].to_string(),
                            group: g,
                            events: cur_events,
                        },
                        is_list,
                    ));
                    cur_start = None;
                }
            }
            Obs::Ev(k @ (Kind::Text | Kind::CData), raw, _) => {
                let blank = *k == Kind::Text && raw.iter().all(|b| is_ws(*b));
                if depth == 0 && !blank {
                    // text content of the container itself: one more sibling, one event
                    children.push((Child { bytes: xml[lead.take().unwrap_or(t.before as usize)..t.after as usize].to_string(), group: 11, events: 1 }, false));
                } else if depth > 0 && !blank {
                    if !prev_text {
                        cur_events += 1;
                    }
                    prev_text = true;
                }
                // whitespace-only text inside a leaf element is trimmed to nothing by the
                // deserializer, so it does not count
            }
            Obs::Ev(Kind::Comment | Kind::PI, _, _) => {
                if depth == 0 && lead.is_none() {
                    lead = Some(t.before as usize);
                }
            }
            Obs::Ev(Kind::Eof, _, _) => break,
            _ => return None,
        }
    }
    Some((open, children, close))
}


// ---- hand-written presentation of the same document -------------------------------------------
// The serializer writes neither namespace prefixes, nor `xsi:nil`, comments, CDATA or elements the
// type does not know. A document written by hand may have all of them, and the statement speaks
// about "any interleaving of its child elements", so the contiguous serialization is also
// decorated first (seeded), accepted only if the decorated contiguous document still gives the
// original value, and then interleaved.
pub const D_NS: u8 = 1;
pub const D_NIL: u8 = 2;
pub const D_UNKNOWN: u8 = 4;
pub const D_COMMENT: u8 = 8;
pub const D_CDATA: u8 = 16;
pub const D_ATTR: u8 = 32;

const UNKNOWN_BLOBS: &[&str] = &[
    "<zz/>",
    "<zz>junk</zz>",
    "<zz><t_a>x</t_a><zz><zz/></zz>tail</zz>",
    "<zz a=\"1\"><t_b>5</t_b><zz a=\"2\"/></zz>",
    "<yy><zz>1</zz><yy>2</yy></yy>",
    "<zz><s_item2><t_a>q</t_a></s_item2></zz>",
];
const UNKNOWN_BLOBS_NS: &[&str] = &["<p:zz><q:zz>t</q:zz><zz/><p:zz/></p:zz>", "<q:zz><p:zz><q:zz>u</q:zz></p:zz></q:zz>", "<p:t_zz><t_zz>1</t_zz><q:t_zz/></p:t_zz>"];
const NIL_STRING: &[&str] = &[
    "<t_opt xsi:nil=\"true\"/>",
    "<t_opt xsi:nil=\"true\"></t_opt>",
    "<t_opt xsi:nil=\"true\">ignored</t_opt>",
    "<t_opt xsi:nil=\"true\"><t_a>x</t_a><t_opt>y</t_opt>z</t_opt>",
    "<t_opt a=\"1\" xsi:nil=\"true\"><t_b>7</t_b></t_opt>",
];
const NIL_STRUCT: &[&str] = &[
    "<s_item2 xsi:nil=\"true\"/>",
    "<s_item2 xsi:nil=\"true\"><t_a>x</t_a><t_b>1</t_b></s_item2>",
    "<s_item2 xsi:nil=\"true\"><s_item2><t_a>y</t_a></s_item2><t_b>2</t_b>w</s_item2>",
];

/// optional fields per shape: (element name, nil blobs)
fn optional_fields(shape: &str) -> &'static [(&'static str, &'static [&'static str])] {
    match shape {
        "OvlScalar" => &[("t_opt", NIL_STRING)],
        "OvlOpt" => &[("t_opt", NIL_STRING), ("s_item2", NIL_STRUCT)],
        _ => &[],
    }
}

pub fn decorate(xml: &str, shape: &str, flags: u8, decl_on_root: bool, r: &mut Rng) -> Option<String> {
    let toks = tokenize(xml.as_bytes(), CFG_NEUTRAL);
    if toks.is_empty() || !matches!(toks[0].obs, Obs::Ev(Kind::Start, _, _)) {
        return None;
    }
    // top-level children present (for the nil decoration) and number of insertion points
    let mut present: Vec<String> = Vec::new();
    let mut points = 1usize;
    {
        let mut depth = 0;
        for t in &toks {
            match &t.obs {
                Obs::Ev(Kind::Start, _, n) => {
                    if depth == 1 {
                        present.push(local(n));
                        points += 1;
                    }
                    depth += 1;
                }
                Obs::Ev(Kind::Empty, _, n) => {
                    if depth == 1 {
                        present.push(local(n));
                        points += 1;
                    }
                }
                Obs::Ev(Kind::End, _, _) => depth -= 1,
                _ => {}
            }
        }
    }
    // where the nil elements go: (insertion point, blob)
    let mut nils: Vec<(usize, &'static str)> = Vec::new();
    if flags & D_NIL != 0 {
        for (name, blobs) in optional_fields(shape) {
            if !present.iter().any(|p| p == name) && r.below(4) != 0 {
                nils.push((r.below(points), blobs[r.below(blobs.len())]));
            }
        }
    }
    let prefixes: &[&str] = if flags & D_NS != 0 { &["", "", "p:", "q:"] } else { &[""] };
    // siblings with the same local name form one list only if their qualified names are equal, so the
    // prefix is a function of (local name, depth); nested elements of the same local name may differ
    let salt = r.next();
    let mut out = String::with_capacity(xml.len() * 2);
    let mut stack: Vec<&str> = Vec::new();
    let mut point = 0usize;
    let mut fresh = 0u32;
    let between = |out: &mut String, point: &mut usize, r: &mut Rng| {
        for (at, blob) in &nils {
            if *at == *point {
                out.push_str(blob);
            }
        }
        if flags & D_COMMENT != 0 && r.below(4) == 0 {
            out.push_str(["<!--t_a-->", "<?pi t_b?>", "<!-- <t_a>x</t_a> -->", "<!---->"][r.below(4)]);
        }
        if flags & D_UNKNOWN != 0 && shape != "OvlValue" && shape != "OvlMap" && r.below(4) == 0 {
            if flags & D_NS != 0 && r.bool() {
                out.push_str(UNKNOWN_BLOBS_NS[r.below(UNKNOWN_BLOBS_NS.len())]);
            } else {
                out.push_str(UNKNOWN_BLOBS[r.below(UNKNOWN_BLOBS.len())]);
            }
        }
        *point += 1;
    };
    for (ti, t) in toks.iter().enumerate() {
        let src = &xml[t.before as usize..t.after as usize];
        match &t.obs {
            Obs::Ev(k @ (Kind::Start | Kind::Empty), _, n) => {
                if stack.len() == 1 {
                    between(&mut out, &mut point, r);
                }
                let pre = prefixes[(H::new().bytes(n).u64(stack.len() as u64).u64(salt).finish() % prefixes.len() as u64) as usize];
                let tail = if *k == Kind::Empty { "/>" } else { ">" };
                let body = &src[1..src.len() - tail.len()];
                out.push('<');
                out.push_str(pre);
                out.push_str(body);
                if ti == 0 {
                    if decl_on_root {
                        out.push_str(NS_DECLS);
                    }
                } else if flags & D_ATTR != 0 && r.below(5) == 0 {
                    fresh += 1;
                    out.push_str(&format!(" zz_u{}=\"{}\"", fresh, ["", "1", "t_a", "<", "true"][r.below(5)].replace('<', "&lt;")));
                }
                out.push_str(tail);
                if *k == Kind::Start {
                    stack.push(pre);
                }
            }
            Obs::Ev(Kind::End, _, _) => {
                if stack.len() == 1 {
                    between(&mut out, &mut point, r);
                }
                let pre = stack.pop()?;
                out.push_str("</");
                out.push_str(pre);
                out.push_str(&src[2..]);
            }
            Obs::Ev(Kind::Text, raw, _) => {
                let plain = !raw.is_empty() && !raw.contains(&b'&') && !raw.windows(3).any(|w| w == b"]]>") && !raw.iter().all(|b| is_ws(*b));
                if flags & D_CDATA != 0 && plain && stack.len() >= 1 && r.below(3) == 0 {
                    // split only inside a leaf element, and never so that whitespace lands on an edge of a piece
                    let cut = if stack.len() >= 2 && src.len() >= 2 && r.bool() { 1 + r.below(src.len() - 1) } else { 0 };
                    let ok = src.is_char_boundary(cut) && (cut == 0 || (!is_ws(src.as_bytes()[cut - 1]) && !is_ws(src.as_bytes()[cut])));
                    let cut = if ok { cut } else { 0 };
                    out.push_str(&src[..cut]);
                    if cut > 0 && flags & D_COMMENT != 0 && r.bool() {
                        out.push_str("<!--c-->");
                    }
                    out.push_str("<![CDATA[");
                    out.push_str(&src[cut..]);
                    out.push_str("]]>");
                } else {
                    out.push_str(src);
                }
            }
            Obs::Ev(Kind::Eof, _, _) => break,
            Obs::Ev(_, _, _) => out.push_str(src),
            _ => return None,
        }
    }
    Some(out)
}

/// (group, is_list) of a child element name, per shape
fn groups_for(shape: &str) -> Box<dyn Fn(&str) -> (usize, bool)> {
    let shape = shape.to_string();
    Box::new(move |name: &str| match (shape.as_str(), name) {
        ("OvlValue", "t_p") | ("OvlValue", "u_q") => (7, true),
        ("OvlOpt", "s_item2") => (8, false),
        (_, "t_a") => (0, true),
        (_, "t_b") => (1, true),
        (_, "t_c") => (2, true),
        (_, "s_item") => (3, true),
        (_, "s_item2") => (8, true),
        (_, "t_d") => (10, true),
        (_, "t_one") => (4, false),
        (_, "t_opt") => (5, false),
        (_, "s_ovl2") => (6, false),
        _ => (9, false),
    })
}

/// B for an ordering of the children
fn lower_bound(order: &[usize], children: &[(Child, bool)]) -> u64 {
    let mut first_list: Option<usize> = None;
    let mut b = 0;
    for &i in order {
        let (c, is_list) = &children[i];
        match first_list {
            None => {
                if *is_list {
                    first_list = Some(c.group);
                }
            }
            Some(g) => {
                if c.group != g {
                    b += c.events;
                }
            }
        }
    }
    b
}

/// all merges of the groups that keep the order inside each group
fn interleavings(children: &[(Child, bool)], cap: usize, r: &mut Rng) -> (Vec<Vec<usize>>, bool) {
    let mut groups: BTreeMap<usize, Vec<usize>> = BTreeMap::new();
    for (i, (c, _)) in children.iter().enumerate() {
        groups.entry(c.group).or_default().push(i);
    }
    let gs: Vec<Vec<usize>> = groups.into_values().collect();
    // count
    let total: usize = gs.iter().map(|g| g.len()).sum();
    let mut count = 1f64;
    let mut rem = total;
    for g in &gs {
        // C(rem, len)
        let mut c = 1f64;
        for k in 0..g.len() {
            c = c * (rem - k) as f64 / (k + 1) as f64;
        }
        count *= c;
        rem -= g.len();
    }
    if count <= cap as f64 {
        let mut out = Vec::new();
        let mut pos = vec![0usize; gs.len()];
        let mut cur = Vec::with_capacity(total);
        fn rec(gs: &[Vec<usize>], pos: &mut Vec<usize>, cur: &mut Vec<usize>, total: usize, out: &mut Vec<Vec<usize>>) {
            if cur.len() == total {
                out.push(cur.clone());
                return;
            }
            for g in 0..gs.len() {
                if pos[g] < gs[g].len() {
                    cur.push(gs[g][pos[g]]);
                    pos[g] += 1;
                    rec(gs, pos, cur, total, out);
                    pos[g] -= 1;
                    cur.pop();
                }
            }
        }
        rec(&gs, &mut pos, &mut cur, total, &mut out);
        (out, true)
    } else {
        let mut out = Vec::new();
        for _ in 0..600 {
            let mut pos = vec![0usize; gs.len()];
            let mut cur = Vec::with_capacity(total);
            while cur.len() < total {
                // pick a group weighted by remaining items
                let remaining: usize = gs.iter().zip(&pos).map(|(g, p)| g.len() - p).sum();
                let mut k = r.below(remaining);
                for g in 0..gs.len() {
                    let left = gs[g].len() - pos[g];
                    if k < left {
                        cur.push(gs[g][pos[g]]);
                        pos[g] += 1;
                        break;
                    }
                    k -= left;
                }
            }
            out.push(cur);
        }
        (out, false)
    }
}

/// random order-preserving merge of children grouped by `key`
fn random_merge(keys: &[usize], r: &mut Rng) -> Vec<usize> {
    let mut groups: BTreeMap<usize, Vec<usize>> = BTreeMap::new();
    for (i, k) in keys.iter().enumerate() {
        groups.entry(*k).or_default().push(i);
    }
    let gs: Vec<Vec<usize>> = groups.into_values().collect();
    let mut pos = vec![0usize; gs.len()];
    let total = keys.len();
    let mut out = Vec::with_capacity(total);
    while out.len() < total {
        let remaining: usize = gs.iter().zip(&pos).map(|(g, p)| g.len() - p).sum();
        let mut k = r.below(remaining);
        for g in 0..gs.len() {
            let left = gs[g].len() - pos[g];
            if k < left {
                out.push(gs[g][pos[g]]);
                pos[g] += 1;
                break;
            }
            k -= left;
        }
    }
    out
}

/// interleaves the children of every nested `s_*` element of `xml` (recursively), keeping the
/// relative order of same-named children
pub fn shuffle_inner(xml: &str, r: &mut Rng, depth: usize) -> String {
    let by_name = |name: &str| -> (usize, bool) {
        let mut h = 0usize;
        for b in name.bytes() {
            h = h.wrapping_mul(31).wrapping_add(b as usize);
        }
        (h, true)
    };
    let (open, children, close) = match split_children(xml, &by_name) {
        Some(x) => x,
        None => return xml.to_string(),
    };
    if children.is_empty() {
        return xml.to_string();
    }
    let rebuilt: Vec<String> = children.iter().map(|(c, _)| if c.bytes.starts_with("<s_") && depth < 4 { shuffle_inner(&c.bytes, r, depth + 1) } else { c.bytes.clone() }).collect();
    let order = if depth == 0 { (0..children.len()).collect::<Vec<_>>() } else { random_merge(&children.iter().map(|(c, _)| c.group).collect::<Vec<_>>(), r) };
    let mut s = String::from(open);
    for i in order {
        s.push_str(&rebuilt[i]);
    }
    s.push_str(&close);
    s
}

fn build(open: &str, children: &[(Child, bool)], order: &[usize], close: &str) -> String {
    let mut s = String::with_capacity(open.len() + close.len() + children.iter().map(|c| c.0.bytes.len()).sum::<usize>());
    s.push_str(open);
    for &i in order {
        s.push_str(&children[i].0.bytes);
    }
    s.push_str(close);
    s
}

/// F12 (known finding): with overlapped lists a buffered element is examined for `xsi:nil` only when it
/// is replayed, against the namespace scope the reader has reached by then. When the `xsi` prefix is
/// declared on the container itself that scope is already closed (the list read ahead to the
/// container's end tag), so the attribute is not recognised. Signature: the document carries
/// `xsi:nil="true"` with the declaration on the container, and the outcome is exactly the outcome of
/// the same document without the `xsi:nil` attributes.
fn nil_not_honoured(ops: &TypeOps, doc: &str, limit: Option<usize>, got: &DeResult, decl_on_container: bool) -> bool {
    const ATTR: &str = " xsi:nil=\"true\"";
    if !decl_on_container {
        return false;
    }
    let at: Vec<usize> = doc.match_indices(ATTR).map(|(i, _)| i).collect();
    if at.is_empty() || at.len() > 4 {
        return false;
    }
    // some of the nil attributes (the ones on buffered elements) are not honoured, the others are
    for mask in 1u32..(1 << at.len()) {
        let mut without = String::with_capacity(doc.len());
        let mut from = 0;
        for (k, i) in at.iter().enumerate() {
            if mask & (1 << k) != 0 {
                without.push_str(&doc[from..*i]);
                from = *i + ATTR.len();
            }
        }
        without.push_str(&doc[from..]);
        let same = match (guarded(|| (ops.de_str)(&without, limit)), got) {
            (Ok(Ok(a)), Ok(b)) => a.eq_val(b.as_ref()),
            (Ok(Err(a)), Err(b)) => a.kind == b.kind,
            _ => false,
        };
        if same {
            return true;
        }
    }
    false
}

struct Judge<'a> {
    ops: &'a TypeOps,
    v: &'a dyn Val,
    /// the namespace declarations stand on the container whose children are interleaved
    decl_on_container: bool,
    known_f12: bool,
}

/// judge one interleaving under every limit; Ok(number of F12 signature hits)
fn check_order(j: &Judge, doc: &str, b: u64, total_events: u64, all_limits: bool, loc: &mut Local, r: &mut Rng) -> Result<u64, String> {
    let (ops, v) = (j.ops, j.v);
    let mut f12 = 0u64;
    // no limit
    let res = (ops.de_str)(doc, None);
    match &res {
        Ok(x) if x.eq_val(v) => {}
        _ if j.known_f12 && nil_not_honoured(ops, doc, None, &res, j.decl_on_container) => {
            // the limits are judged on documents where nil is honoured
            return Ok(1);
        }
        Ok(x) => return Err(format!("without a limit the interleaved document gives {} instead of {} (document {:?})", x.dbg(), v.dbg(), doc)),
        Err(e) => return Err(format!("without a limit the interleaved document fails: {}: {} (document {:?})", e.kind, e.msg, doc)),
    }
    let limits: Vec<u64> = if all_limits {
        (1..=total_events + 2).collect()
    } else {
        let mut l: Vec<u64> = vec![1, b.max(1), b + 1, b + 2, total_events + 2];
        if b > 1 {
            l.push(b - 1);
        }
        l.push(1 + r.below(total_events as usize + 2) as u64);
        l.sort();
        l.dedup();
        l
    };
    let mut first_ok: Option<u64> = None;
    for l in limits {
        let res = (ops.de_str)(doc, Some(l as usize));
        match &res {
            Ok(x) => {
                if !x.eq_val(v) {
                    if j.known_f12 && nil_not_honoured(ops, doc, Some(l as usize), &res, j.decl_on_container) {
                        f12 += 1;
                        continue;
                    }
                    return Err(format!("with limit {} the interleaved document gives {} instead of {} (document {:?})", l, x.dbg(), v.dbg(), doc));
                }
                if b > l {
                    return Err(format!(
                        "limit {} succeeded although {} events of non-matching siblings stand behind the first item of the first list and must be held until the container ends (document {:?})",
                        l, b, doc
                    ));
                }
                loc.ok += 1;
                if first_ok.is_none() {
                    first_ok = Some(l);
                }
            }
            Err(e) if e.kind == "TooManyEvents" => {
                loc.tme += 1;
                if let Some(f) = first_ok {
                    return Err(format!("limit {} succeeded but the larger limit {} fails with TooManyEvents (document {:?})", f, l, doc));
                }
            }
            Err(e) => {
                if j.known_f12 && nil_not_honoured(ops, doc, Some(l as usize), &res, j.decl_on_container) {
                    f12 += 1;
                    continue;
                }
                return Err(format!("with limit {} the interleaved document fails with {}: {} (neither the value nor TooManyEvents; document {:?})", l, e.kind, e.msg, doc));
            }
        }
        if first_ok.is_some() {
            loc.mono += 1;
        }
    }
    if let (Some(f), true) = (first_ok, all_limits) {
        *loc.slack.entry((f - b.max(1)).min(9)).or_insert(0) += 1;
    }
    Ok(f12)
}

const NS_DECLS: &str = " xmlns:p=\"urn:p\" xmlns:q=\"urn:q\" xmlns:xsi=\"http://www.w3.org/2001/XMLSchema-instance\"";

struct Prepared {
    v: Box<dyn Val>,
    /// everything in front of the children (for a wrapped shape: the wrapper's and the container's start tags)
    open: String,
    children: Vec<(Child, bool)>,
    close: String,
    /// the contiguous document (decorated if asked for)
    contiguous: String,
    wrapped: bool,
}

/// value -> contiguous serialization -> (two-level shuffle) -> (decoration) -> children
fn prepare(ops: &TypeOps, gen: fn(&mut Rng, usize) -> Box<dyn Val>, vseed: u64, max: usize, deep_seed: Option<u64>, decor: Option<(u8, u64)>) -> Option<Prepared> {
    let v = gen(&mut Rng::new(vseed), max);
    let xml = v.ser(&SerCfg::plain()).ok()?;
    let wrapped = ops.name.starts_with("Wrap");
    // a wrapped shape is `<s_ovlwrap><w_inner>children</w_inner></s_ovlwrap>`: the container is w_inner
    let (outer_open, xml, outer_close) = if wrapped {
        let toks = tokenize(xml.as_bytes(), CFG_NEUTRAL);
        let first = toks.first()?;
        if !matches!(first.obs, Obs::Ev(Kind::Start, _, _)) {
            return None;
        }
        let last = toks.iter().rev().find(|t| matches!(t.obs, Obs::Ev(Kind::End, _, _)))?;
        (xml[..first.after as usize].to_string(), xml[first.after as usize..last.before as usize].to_string(), xml[last.before as usize..].to_string())
    } else {
        (String::new(), xml, String::new())
    };
    let shape = ops.name.trim_start_matches("Wrap");
    let xml = match deep_seed {
        Some(s) => shuffle_inner(&xml, &mut Rng::new(s), 0),
        None => xml,
    };
    let (outer_open, xml) = match decor {
        Some((flags, dseed)) => {
            let d = decorate(&xml, shape, flags, !wrapped, &mut Rng::new(dseed))?;
            let oo = if wrapped { format!("{}{}>", &outer_open[..outer_open.len() - 1], NS_DECLS) } else { outer_open };
            (oo, d)
        }
        None => (outer_open, xml),
    };
    let (open, children, close) = split_children(&xml, &*groups_for(shape))?;
    Some(Prepared { v, open: format!("{}{}", outer_open, open), children, close: format!("{}{}", close, outer_close), contiguous: format!("{}{}{}", outer_open, xml, outer_close), wrapped })
}

fn run_value(ctx: &mut Ctx, loc: &mut Local, ops: &TypeOps, gen: fn(&mut Rng, usize) -> Box<dyn Val>, vseed: u64, max: usize, exhaustive: bool, deep_seed: Option<u64>, decor: Option<(u8, u64)>, r: &mut Rng) -> bool {
    let p = match prepare(ops, gen, vseed, max, deep_seed, decor) {
        Some(p) => p,
        None => return true,
    };
    let v = &p.v;
    if deep_seed.is_some() {
        loc.deep += 1;
    }
    // hand-written presentation: the decorated contiguous document is in the domain only if it
    // still gives the original value
    if let Some((flags, dseed)) = decor {
        let d = &p.contiguous;
        match guarded(|| (ops.de_str)(d, None)) {
            Ok(Ok(x)) if x.eq_val(v.as_ref()) => {}
            Ok(Ok(x)) => {
                loc.decor_differs += 1;
                if std::env::var("VERIF_DEBUG_C20").is_ok() && loc.decor_differs < 4 {
                    eprintln!("DECOR-DIFF {} flags={} got {} want {} doc={}", ops.name, flags, x.dbg(), v.dbg(), d);
                }
                return true;
            }
            Ok(Err(e)) => {
                loc.decor_fails += 1;
                if std::env::var("VERIF_DEBUG_C20").is_ok() && loc.decor_fails < 6 {
                    eprintln!("DECOR-FAIL {} flags={} {}: {} doc={}", ops.name, flags, e.kind, e.msg, d);
                }
                return true;
            }
            Err(pn) => {
                ctx.violation(json!({"shape": ops.name, "value_seed": vseed, "max": max, "deep_seed": deep_seed, "decor": [flags, dseed], "order": [], "document": d}), pn);
                return !ctx.full();
            }
        }
        loc.decor_docs += 1;
        for (bit, name) in [(D_NS, "ns_prefixes"), (D_NIL, "xsi_nil"), (D_UNKNOWN, "unknown_children"), (D_COMMENT, "comments_pis"), (D_CDATA, "cdata"), (D_ATTR, "unknown_attributes")] {
            if flags & bit != 0 {
                *loc.decor_kinds.entry(name).or_insert(0) += 1;
            }
        }
        if d.contains("xsi:nil=\"true\"") {
            loc.decor_nil_docs += 1;
            if p.wrapped {
                loc.decor_nil_docs_ancestor += 1;
            }
        }
        if d.contains("<p:") || d.contains("<q:") {
            loc.decor_prefixed_docs += 1;
        }
    }
    let (open, children, close) = (&p.open, &p.children, &p.close);
    if children.is_empty() {
        return true;
    }
    let total_events: u64 = children.iter().map(|c| c.0.events).sum();
    let (orders, complete) = if exhaustive {
        interleavings(children, 2000, r)
    } else {
        // random interleavings only
        let (o, _) = interleavings(children, 0, r);
        (o.into_iter().take(24).collect(), false)
    };
    *loc.shapes.entry(ops.name).or_insert(0) += 1;
    let judge = Judge { ops, v: v.as_ref(), decl_on_container: decor.is_some() && !p.wrapped, known_f12: ctx.is_known("F12") };
    for (oi, order) in orders.iter().enumerate() {
        let doc = build(open, children, order, close);
        let b = lower_bound(order, children);
        loc.max_b = loc.max_b.max(b);
        loc.interleavings += 1;
        let case = json!({"shape": ops.name, "value_seed": vseed, "max": max, "deep_seed": deep_seed, "decor": decor.map(|(f, d)| vec![f as u64, d]), "order": order, "document": doc});
        if decor.is_some() {
            loc.decor_interleavings += 1;
        }
        ctx.journal(|| case.clone());
        ctx.eval(H::new().str(&doc).finish(), b > 0);
        let res = guarded(|| check_order(&judge, &doc, b, total_events, exhaustive && complete, loc, r));
        let mut res = match res {
            Ok(Ok(n)) => {
                for _ in 0..n {
                    ctx.known_hit("F12");
                }
                if n > 0 {
                    Err(String::new())
                } else {
                    Ok(())
                }
            }
            Ok(Err(d)) => Err(d),
            Err(pn) => Err(pn),
        };
        let f12 = matches!(&res, Err(d) if d.is_empty());
        if f12 {
            res = Ok(());
        }
        // reader entry point (no limit) for a sample
        if res.is_ok() && !f12 && oi % 7 == 0 {
            loc.reader += 1;
            res = match guarded(|| (ops.de_reader)(ChunkedRead::new(doc.as_bytes(), cuts_for_piece(doc.len(), 1, 0)))) {
                Ok(Ok(x)) if x.eq_val(v.as_ref()) => Ok(()),
                Ok(Ok(x)) => Err(format!("from_reader gives {} instead of {} (document {:?})", x.dbg(), v.dbg(), doc)),
                Ok(Err(e)) => Err(format!("from_reader fails: {}: {} (document {:?})", e.kind, e.msg, doc)),
                Err(pn) => Err(pn),
            };
        }
        if let Err(d) = res {
            ctx.violation(case, d);
            if ctx.full() {
                return false;
            }
        } else if oi % 50 == 0 {
            ctx.sample(|| json!({"shape": ops.name, "document": doc, "B": b, "child_events": total_events}));
        }
    }
    true
}

fn run(ctx: &mut Ctx) {
    let mut loc = Local::default();
    let t = ctx.tier;
    let shapes = ovl_family();
    let mut r = ctx.rng(16);
    let n = ctx.scaled(t.pick(800, 30_000)) / ctx.nshards as u64 + 1;
    'outer: for _ in 0..n {
        for (ops, gen) in &shapes {
            let vseed = r.next();
            if !run_value(ctx, &mut loc, ops, *gen, vseed, 3, true, None, None, &mut r) {
                break 'outer;
            }
        }
    }
    ctx.exhaustive("for every generated value with at most 3 items per list: all order-preserving interleavings of its child elements (when at most 2000) x every event-buffer limit 1..=child events+2");
    let n = ctx.scaled(t.pick(3_000, 120_000)) / ctx.nshards as u64 + 1;
    'outer2: for _ in 0..n {
        for (ops, gen) in &shapes {
            let vseed = r.next();
            let max = 4 + r.below(7);
            if !run_value(ctx, &mut loc, ops, *gen, vseed, max, false, None, None, &mut r) {
                break 'outer2;
            }
        }
    }
    // two-level interleavings for the shapes with nested struct items
    let n = ctx.scaled(t.pick(6_000, 240_000)) / ctx.nshards as u64 + 1;
    'outer3: for _ in 0..n {
        for (ops, gen) in &shapes {
            if !matches!(ops.name, "OvlSame" | "OvlDeep" | "OvlNested" | "OvlRec") {
                continue;
            }
            let vseed = r.next();
            let ds = r.next();
            let max = 2 + r.below(4);
            if !run_value(ctx, &mut loc, ops, *gen, vseed, max, false, Some(ds), None, &mut r) {
                break 'outer3;
            }
        }
    }
    // hand-written presentations of the contiguous document, then interleaved
    let n = ctx.scaled(t.pick(1_200, 50_000)) / ctx.nshards as u64 + 1;
    'outer4: for i in 0..n {
        for (ops, gen) in &shapes {
            let vseed = r.next();
            let dseed = r.next();
            // single decorations and random combinations
            let flags = if i % 3 == 0 { 1u8 << r.below(6) } else { (r.next() & 63) as u8 };
            let small = i % 2 == 0;
            let max = if small { 2 } else { 3 + r.below(4) };
            let deep = if matches!(ops.name, "OvlSame" | "OvlDeep" | "OvlNested" | "OvlRec") && r.bool() { Some(r.next()) } else { None };
            if !run_value(ctx, &mut loc, ops, *gen, vseed, max, small, deep, Some((flags, dseed)), &mut r) {
                break 'outer4;
            }
        }
    }
    ctx.add("decorated.documents_judged", loc.decor_docs);
    ctx.add("decorated.interleavings", loc.decor_interleavings);
    ctx.add("decorated.contiguous_form_gives_another_value_not_judged", loc.decor_differs);
    ctx.add("decorated.contiguous_form_fails_not_judged", loc.decor_fails);
    ctx.add("decorated.documents_with_xsi_nil", loc.decor_nil_docs);
    ctx.add("decorated.documents_with_xsi_nil_declared_on_an_ancestor", loc.decor_nil_docs_ancestor);
    ctx.add("decorated.documents_with_prefixed_names", loc.decor_prefixed_docs);
    for (k, v) in &loc.decor_kinds {
        ctx.add(&format!("decorated.kind.{}", k), *v);
    }
    ctx.add("interleavings", loc.interleavings);
    ctx.add("two_level_values", loc.deep);
    for (k, v) in &loc.shapes {
        ctx.add(&format!("shape.{}", k), *v);
    }
    ctx.add("outcome.ok", loc.ok);
    ctx.add("outcome.too_many_events", loc.tme);
    ctx.add("monotonicity_pairs", loc.mono);
    for (k, v) in &loc.slack {
        ctx.add(&format!("slack.smallest_succeeding_limit_minus_B.{}{}", k, if *k == 9 { "+" } else { "" }), *v);
    }
    ctx.add("tight.zero_slack", loc.slack.get(&0).copied().unwrap_or(0));
    ctx.max("max.B", loc.max_b);
    ctx.add("reader_entry", loc.reader);
}

fn replay(case: &Value, ctx: &mut Ctx) -> Option<String> {
    let shapes = ovl_family();
    let (ops, gen) = shapes.iter().find(|(o, _)| o.name == case["shape"].as_str().unwrap_or(""))?;
    let decor = case["decor"].as_array().and_then(|d| Some((d.first()?.as_u64()? as u8, d.get(1)?.as_u64()?)));
    let p = prepare(ops, *gen, case["value_seed"].as_u64().unwrap_or(0), case["max"].as_u64().unwrap_or(3) as usize, case["deep_seed"].as_u64(), decor)?;
    let order: Vec<usize> = case["order"].as_array()?.iter().map(|x| x.as_u64().unwrap_or(0) as usize).collect();
    if order.is_empty() && decor.is_some() {
        return guarded(|| (ops.de_str)(&p.contiguous, None)).err();
    }
    if order.iter().any(|i| *i >= p.children.len()) {
        return Some("replay case does not match the regenerated value".into());
    }
    let doc = build(&p.open, &p.children, &order, &p.close);
    let b = lower_bound(&order, &p.children);
    let total: u64 = p.children.iter().map(|c| c.0.events).sum();
    let mut loc = Local::default();
    let mut r = Rng::new(1);
    let judge = Judge { ops, v: p.v.as_ref(), decl_on_container: decor.is_some() && !p.wrapped, known_f12: ctx.is_known("F12") };
    match guarded(|| check_order(&judge, &doc, b, total, true, &mut loc, &mut r)) {
        Ok(Ok(_)) => None,
        Ok(Err(d)) => Some(d),
        Err(pn) => Some(pn),
    }
}
