//! C02 — events are independent of the source type and of how input is chunked.
//! Relational monitor: slice trace (baseline) vs. buffered trace over ChunkedRead vs.
//! async trace over AsyncChunked with Pending scripts — identical entry by entry
//! (event / error, position before, position after, error position).

use super::common::*;
use crate::ctx::{guarded, show, Ctx};
use crate::obs::*;
use crate::refmodel::tok::tokenize;
use crate::rng::{Rng, H};
use crate::runner::PropSpec;
use crate::sources::*;
use serde_json::{json, Value};

pub const SPEC: PropSpec = PropSpec {
    id: "C02",
    level: "exploration",
    rule: "Cases = (input bytes, configuration, cut set, pending script). For each case the trace of Reader::read_event over the slice is the baseline and the traces of read_event_into over a BufRead that delivers the pieces given by the cut set, and of read_event_into_async over an AsyncBufRead that additionally answers Poll::Pending according to the script, must be identical entry by entry (event or error compared structurally, buffer_position before and after, error_position), including 3 calls after Eof; in a third of the random cases (and once per exhaustively chunked input) raw reads through Reader::stream() are interleaved between events and must return the same bytes and leave the same positions. Exhaustive: every byte string up to length N over the 13 markup bytes with piece size 1 and one random cut set; ALL 2^(n-1) cut sets for every atom sequence (<= 3 atoms) and pool document of at most 11-13 bytes; all pending scripts with <= 2 Pendings per piece for inputs of <= 4 pieces. Random: grammar documents, mutants, corpus with piece sizes 1,2,3,7 and random cut sets/scripts; 4 configurations. When the input starts with a possible BOM / UTF-16 signature byte the first piece is forced to >= 4 bytes. Non-trivial = input contains '<' and at least one cut.",
    assumptions: &[
        "the slice trace is the baseline (it is judged against R_tok by C01)",
        "ChunkedRead/AsyncChunked (harness/src/sources.rs) implement the BufRead/AsyncBufRead contracts",
        "a future that returns Pending is re-polled immediately (the adapter wakes its waker before returning Pending)",
    ],
    required: &[
        "cut.in_comment_open", "cut.in_comment_close_1", "cut.in_comment_close_2", "cut.in_cdata_open", "cut.in_cdata_close_1",
        "cut.in_cdata_close_2", "cut.in_pi_close", "cut.in_quoted_value", "cut.in_doctype_brackets", "cut.between_slash_gt",
        "cut.after_lt", "cut.in_bom_exception_inputs", "pendings_delivered", "async_runs", "buffered_runs", "exhaustive_cutset_inputs", "raw_stream_reads",
    ],
    run,
    replay,
    thorough_layers: &[("miri", 1), ("asan", 10), ("fuzz", 60)],
    quick_layers: &[],
    post: None,
};

#[derive(Default)]
pub struct Local {
    cut: std::collections::BTreeMap<&'static str, u64>,
    pendings: u64,
    polls: u64,
    async_runs: u64,
    buffered_runs: u64,
    exh_inputs: u64,
    max_cutsets: u64,
    bom_exc: u64,
    raw_reads: u64,
    long_piece_runs: u64,
}

fn first_min(input: &[u8]) -> usize {
    match input.first() {
        Some(0xEF) | Some(0xFE) | Some(0xFF) | Some(0x00) => 4,
        Some(b'<') if input.get(1) == Some(&0) => 4,
        _ => 0,
    }
}

/// classify where the cut offsets fall, using R_tok's token spans (as a tool)
fn classify_cuts(input: &[u8], cuts: &[usize], loc: &mut Local) {
    if cuts.is_empty() {
        return;
    }
    let toks = tokenize(input, CFG_NEUTRAL);
    let mut bump = |k: &'static str| *loc.cut.entry(k).or_insert(0) += 1;
    for &c in cuts {
        if c == 0 || c >= input.len() {
            continue;
        }
        if input[c - 1] == b'<' {
            bump("cut.after_lt");
        }
        // token containing the cut strictly inside
        for t in &toks {
            let (s, e) = (t.before as usize, t.after as usize);
            if !(s < c && c < e) {
                continue;
            }
            // skip a leading BOM inside the first span
            match &t.obs {
                Obs::Ev(Kind::Comment, _, _) => {
                    if c <= s + 3 {
                        bump("cut.in_comment_open");
                    } else if c == e - 2 {
                        bump("cut.in_comment_close_1");
                    } else if c == e - 1 {
                        bump("cut.in_comment_close_2");
                    } else {
                        bump("cut.in_comment_body");
                    }
                }
                Obs::Ev(Kind::CData, _, _) => {
                    if c <= s + 8 {
                        bump("cut.in_cdata_open");
                    } else if c == e - 2 {
                        bump("cut.in_cdata_close_1");
                    } else if c == e - 1 {
                        bump("cut.in_cdata_close_2");
                    } else {
                        bump("cut.in_cdata_body");
                    }
                }
                Obs::Ev(Kind::PI, _, _) | Obs::Ev(Kind::Decl, _, _) => {
                    if c == e - 1 {
                        bump("cut.in_pi_close");
                    } else {
                        bump("cut.in_pi_body");
                    }
                }
                Obs::Ev(Kind::DocType, _, _) => {
                    let body = &input[s..c];
                    let opens = body.iter().filter(|&&b| b == b'<').count();
                    let closes = body.iter().filter(|&&b| b == b'>').count();
                    if opens > closes + 0 && opens >= 2 {
                        bump("cut.in_doctype_brackets");
                    } else {
                        bump("cut.in_doctype");
                    }
                }
                Obs::Ev(Kind::Start, _, _) | Obs::Ev(Kind::Empty, _, _) | Obs::Ev(Kind::End, _, _) => {
                    // inside a quoted value?
                    let mut q = 0u8;
                    for &b in &input[s..c] {
                        if q == 0 {
                            if b == b'"' || b == b'\'' {
                                q = b;
                            }
                        } else if b == q {
                            q = 0;
                        }
                    }
                    if q != 0 {
                        bump("cut.in_quoted_value");
                    } else if c == e - 1 && input[c - 1] == b'/' {
                        bump("cut.between_slash_gt");
                    } else {
                        bump("cut.in_tag");
                    }
                }
                Obs::Ev(Kind::Text, _, _) => bump("cut.in_text"),
                _ => {}
            }
        }
    }
}

pub fn check_buffered(input: &[u8], cfg: &CfgHist, cuts: &[usize], base: &Trace) -> Result<(), String> {
    let (t, _src) = trace_buffered(ChunkedRead::new(input, cuts.to_vec()), cfg);
    if &t != base {
        return Err(format!(
            "buffered source with cuts {:?}: {}",
            cuts,
            describe_diff("slice", base, "buffered", &t)
        ));
    }
    Ok(())
}

pub fn check_async(input: &[u8], cfg: &CfgHist, cuts: &[usize], pending: &[u8], base: &Trace, loc: &mut Local) -> Result<(), String> {
    let (t, src, polls) = trace_async(AsyncChunked::new(input, cuts.to_vec(), pending.to_vec()), cfg)?;
    loc.pendings += src.pendings_delivered;
    loc.polls += polls;
    if &t != base {
        return Err(format!(
            "async source with cuts {:?} and pending script {:?}: {}",
            cuts,
            pending,
            describe_diff("slice", base, "async", &t)
        ));
    }
    Ok(())
}

fn case_json(input: &[u8], cfg: &CfgHist, cuts: &[usize], pending: Option<&[u8]>) -> Value {
    json!({"input": input_json(input), "cfg": cfg.to_json(), "cuts": cuts, "pending": pending})
}

/// one (input, cfg, cuts, pending?) case
fn run_case(
    ctx: &mut Ctx,
    loc: &mut Local,
    input: &[u8],
    cfg: &CfgHist,
    cuts: &[usize],
    pending: Option<&[u8]>,
    base: &Trace,
    src: Src,
) -> bool {
    ctx.journal(|| case_json(input, cfg, cuts, pending));
    let mut h = H::new().bytes(input).u64(cfg.base as u64);
    for (i, n) in &cfg.raw {
        h = h.u64(0x5700 + ((*i as u64) << 8) + *n as u64);
        loc.raw_reads += 1;
    }
    for c in cuts {
        h = h.u64(*c as u64);
    }
    if let Some(p) = pending {
        h = h.bytes(p).u64(0xA5);
    }
    ctx.eval(h.finish(), input.contains(&b'<') && !cuts.is_empty());
    let r = guarded(|| match pending {
        None => {
            loc.buffered_runs += 1;
            check_buffered(input, cfg, cuts, base)
        }
        Some(p) => {
            loc.async_runs += 1;
            check_async(input, cfg, cuts, p, base, loc)
        }
    });
    let r = match r {
        Ok(r) => r,
        Err(p) => Err(p),
    };
    if let Err(d) = r {
        ctx.violation(case_json(input, cfg, cuts, pending), d);
        return !ctx.full();
    }
    ctx.sample(|| json!({"input": show(input), "config": cfg_show(cfg.base), "cuts": cuts, "pending": pending, "source": src.name()}));
    true
}

fn random_cuts(r: &mut Rng, len: usize, fmin: usize) -> Vec<usize> {
    let mut cuts = Vec::new();
    if len < 2 {
        return cuts;
    }
    let density = 1 + r.below(6);
    let mut p = fmin.max(1);
    if fmin == 0 && r.bool() {
        p = 1 + r.below(3);
    }
    while p < len {
        if r.below(density) == 0 || cuts.is_empty() {
            cuts.push(p);
        }
        p += 1 + r.below(density);
    }
    cuts
}

fn random_pending(r: &mut Rng, pieces: usize) -> Vec<u8> {
    (0..pieces.max(1).min(64)).map(|_| if r.bool() { 0 } else { r.below(4) as u8 }).collect()
}

const CONFIGS: [u8; 3] = [CFG_NEUTRAL, CFG_DEFAULT, CFG_ALL_ON];

fn run(ctx: &mut Ctx) {
    let mut loc = Local::default();
    let t = ctx.tier;

    // (a) enumerated inputs: piece size 1 and one random cut set, neutral + one random configuration
    let plan = Plan {
        bytes_n: t.pick(6, 7),
        tokens_k: t.pick(4, 4),
        ..Plan::default()
    };
    for_each_input(ctx, &plan, &mut |ctx, input, src, r| {
        if input.len() < 2 {
            return true;
        }
        let cfg = CfgHist::fixed(if r.chance(1, 3) { (r.next() & 0x7F) as u8 } else { CFG_NEUTRAL });
        let base = trace_slice(input, &cfg);
        let fmin = first_min(input);
        let c1 = cuts_for_piece(input.len(), 1, fmin);
        if !run_case(ctx, &mut loc, input, &cfg, &c1, None, &base, src) {
            return false;
        }
        let c2 = random_cuts(r, input.len(), fmin);
        if !run_case(ctx, &mut loc, input, &cfg, &c2, None, &base, src) {
            return false;
        }
        if r.chance(1, 8) {
            let p = random_pending(r, c1.len() + 1);
            if !run_case(ctx, &mut loc, input, &cfg, &c1, Some(&p), &base, src) {
                return false;
            }
        }
        true
    });

    // (b) ALL cut sets for short inputs
    let max_len_tok = t.pick(10, 12);
    let max_len_pool = t.pick(13, 15);
    let plan = Plan {
        tokens_k: 3,
        pool: true,
        ..Plan::default()
    };
    for_each_input(ctx, &plan, &mut |ctx, input, src, _r| {
        let mut lim: usize = if src == Src::Pool { max_len_pool } else { max_len_tok };
        // sanitizer layers: exhaustive cut sets only for the shortest inputs
        if ctx.scale_pct <= 2 {
            lim = if src == Src::Pool { 6 } else { 0 };
        } else if ctx.scale_pct < 100 {
            lim = lim.saturating_sub(3);
        }
        if input.len() < 2 || input.len() > lim {
            return true;
        }
        let fmin = first_min(input);
        loc.exh_inputs += 1;
        let n = input.len() - 1;
        let all: Vec<usize> = (1..input.len()).filter(|c| *c >= fmin).collect();
        classify_cuts(input, &all, &mut loc);
        if fmin > 0 {
            loc.bom_exc += 1;
        }
        for (ci, cb) in CONFIGS.into_iter().chain([CFG_DEFAULT]).enumerate() {
            let mut cfg = CfgHist::fixed(cb);
            if ci == 3 {
                // the same enumeration once more with a raw stream() read of 3 bytes after the first event
                cfg.raw = vec![(0, 3)];
            }
            let base = trace_slice(input, &cfg);
            let mut count = 0u64;
            for mask in 0u64..(1u64 << n) {
                let cuts: Vec<usize> = cuts_from_mask(input.len(), mask);
                if fmin > 0 && cuts.first().map_or(false, |c| *c < fmin) {
                    continue;
                }
                count += 1;
                if !run_case(ctx, &mut loc, input, &cfg, &cuts, None, &base, src) {
                    return false;
                }
                // async with the same cuts: all pending scripts for <= 4 pieces, one fixed script otherwise
                let pieces = cuts.len() + 1;
                if pieces <= 4 && input.len() <= 9 && ctx.scale_pct > 2 {
                    let total = 3u32.pow(pieces as u32);
                    for code in 0..total {
                        let mut p = Vec::with_capacity(pieces);
                        let mut x = code;
                        for _ in 0..pieces {
                            p.push((x % 3) as u8);
                            x /= 3;
                        }
                        if !run_case(ctx, &mut loc, input, &cfg, &cuts, Some(&p), &base, src) {
                            return false;
                        }
                    }
                } else if mask % 8 == 1 {
                    let p: Vec<u8> = (0..pieces).map(|i| ((i as u64 + mask) % 3) as u8).collect();
                    if !run_case(ctx, &mut loc, input, &cfg, &cuts, Some(&p), &base, src) {
                        return false;
                    }
                }
            }
            loc.max_cutsets = loc.max_cutsets.max(count);
        }
        true
    });
    ctx.exhaustive(&format!(
        "all 2^(n-1) cut sets for every sequence of <= 3 atoms of length <= {} bytes and every pool document of length <= {} bytes, under 3 configurations; all pending scripts with <= 2 Pendings per piece for <= 4 pieces",
        max_len_tok, max_len_pool
    ));

    // (c)+(d) random exploration on longer inputs
    let plan = Plan {
        pool: true,
        grammar_docs: t.pick(20_000, 300_000),
        mutants_per_doc: 2,
        truncate_all: false,
        bom_share: 6,
        corpus: true,
        corpus_truncs: 2,
        corpus_max_len: t.pick(16 << 10, 256 << 10),
        random_atoms: t.pick(100_000, 1_500_000),
        random_bytes: t.pick(100_000, 1_500_000),
        scale_max: t.pick(1024, 8192),
        ..Plan::default()
    };
    for_each_input(ctx, &plan, &mut |ctx, input, src, r| {
        if input.len() < 2 {
            return true;
        }
        let fmin = first_min(input);
        if fmin > 0 {
            loc.bom_exc += 1;
        }
        let cb = match r.below(4) {
            0 => CFG_NEUTRAL,
            1 => CFG_DEFAULT,
            2 => CFG_ALL_ON,
            _ => (r.next() & 0x7F) as u8,
        };
        let mut cfg = CfgHist::fixed(cb);
        if r.chance(1, 3) {
            // raw reads through Reader::stream() between events (1-2 reads of 1-9 bytes)
            for _ in 0..1 + r.below(2) {
                cfg.raw.push((r.below(6) as u32, 1 + r.below(9) as u8));
            }
            cfg.raw.sort();
            cfg.raw.dedup_by_key(|x| x.0);
        }
        let base = trace_slice(input, &cfg);
        let big = input.len() > 4096;
        let tiny = ctx.scale_pct <= 2;
        if tiny && (input.len() > 300 || (src == Src::Pool && r.chance(3, 4))) {
            return true;
        }
        for piece in [1usize, 2, 3, 7] {
            if (big && piece < 3) || (tiny && piece != 1 && piece != 7) {
                continue;
            }
            let cuts = cuts_for_piece(input.len(), piece, fmin);
            if !big {
                classify_cuts(input, &cuts, &mut loc);
            }
            if !run_case(ctx, &mut loc, input, &cfg, &cuts, None, &base, src) {
                return false;
            }
            if piece == 1 || piece == 3 {
                let p = random_pending(r, 7);
                if !run_case(ctx, &mut loc, input, &cfg, &cuts, Some(&p), &base, src) {
                    return false;
                }
            }
        }
        // long pieces: whole pieces inside one value / text / comment
        if input.len() > 40 {
            let mut sets: Vec<Vec<usize>> = vec![crate::sources::big_random_cuts(r, input.len(), fmin)];
            if src == Src::Scale {
                for piece in crate::gen::SCALE_PIECES {
                    if *piece < input.len() && !(tiny && *piece > 64) {
                        sets.push(cuts_for_piece(input.len(), *piece, fmin));
                    }
                }
                sets.push(crate::sources::big_random_cuts(r, input.len(), fmin));
            }
            for cuts in sets {
                loc.long_piece_runs += 1;
                if !run_case(ctx, &mut loc, input, &cfg, &cuts, None, &base, src) {
                    return false;
                }
                if r.chance(1, 3) {
                    let p = random_pending(r, cuts.len() + 1);
                    if !run_case(ctx, &mut loc, input, &cfg, &cuts, Some(&p), &base, src) {
                        return false;
                    }
                }
            }
        }
        for _ in 0..if big || tiny { 1 } else { 4 } {
            let cuts = random_cuts(r, input.len(), fmin);
            if !big {
                classify_cuts(input, &cuts, &mut loc);
            }
            if !run_case(ctx, &mut loc, input, &cfg, &cuts, None, &base, src) {
                return false;
            }
            let p = random_pending(r, cuts.len() + 1);
            if !run_case(ctx, &mut loc, input, &cfg, &cuts, Some(&p), &base, src) {
                return false;
            }
        }
        true
    });

    for (k, v) in &loc.cut {
        ctx.add(k, *v);
    }
    ctx.add("cut.in_bom_exception_inputs", loc.bom_exc);
    ctx.add("pendings_delivered", loc.pendings);
    ctx.add("async_polls", loc.polls);
    ctx.add("async_runs", loc.async_runs);
    ctx.add("buffered_runs", loc.buffered_runs);
    ctx.add("runs_with_pieces_of_8_to_8192_bytes", loc.long_piece_runs);
    ctx.add("exhaustive_cutset_inputs", loc.exh_inputs);
    ctx.add("raw_stream_reads", loc.raw_reads);
    ctx.max("max.cutsets_per_input", loc.max_cutsets);
}

fn replay(case: &Value, _ctx: &mut Ctx) -> Option<String> {
    if let Some(h) = case.get("fuzz").and_then(|v| v.as_str()) {
        return fuzz_entry(&crate::ctx::unhex(h)).err();
    }
    let input = input_from_json(&case["input"]);
    let cfg = CfgHist::from_json(&case["cfg"]);
    let cuts: Vec<usize> = case["cuts"]
        .as_array()
        .map(|a| a.iter().map(|x| x.as_u64().unwrap_or(0) as usize).collect())
        .unwrap_or_default();
    let base = trace_slice(&input, &cfg);
    let mut loc = Local::default();
    match case["pending"].as_array() {
        None => check_buffered(&input, &cfg, &cuts, &base).err(),
        Some(p) => {
            let p: Vec<u8> = p.iter().map(|x| x.as_u64().unwrap_or(0) as u8).collect();
            check_async(&input, &cfg, &cuts, &p, &base, &mut loc).err()
        }
    }
}

/// libFuzzer entry: byte 0 = configuration, bytes 1..3 = cut mask / pending seed, rest = input
pub fn fuzz_entry(data: &[u8]) -> Result<(), String> {
    if data.len() < 4 {
        return Ok(());
    }
    let cfg = CfgHist::fixed(data[0] & 0x7F);
    let input = &data[3..];
    if input.len() < 2 {
        return Ok(());
    }
    let fmin = first_min(input);
    let mut r = Rng::new(((data[1] as u64) << 8) | data[2] as u64);
    let cuts: Vec<usize> = if data[1] & 1 == 0 { cuts_for_piece(input.len(), 1 + (data[2] % 4) as usize, fmin) } else { random_cuts(&mut r, input.len(), fmin) };
    let base = trace_slice(input, &cfg);
    check_buffered(input, &cfg, &cuts, &base)?;
    let mut loc = Local::default();
    let pend = random_pending(&mut r, cuts.len() + 1);
    check_async(input, &cfg, &cuts, &pend, &base, &mut loc)
}
