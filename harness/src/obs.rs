//! Structural observations of the real reader at its public API boundary.

use crate::sources::{block_on, AsyncChunked, ChunkedRead};
use quick_xml::errors::{Error, IllFormedError, SyntaxError};
use quick_xml::events::Event;
use quick_xml::reader::{Config, Reader};
use serde_json::{json, Value};

#[derive(Clone, Copy, PartialEq, Eq, Debug, Hash, PartialOrd, Ord)]
pub enum Kind {
    Start,
    End,
    Empty,
    Text,
    CData,
    Comment,
    Decl,
    PI,
    DocType,
    Eof,
}
pub const ALL_KINDS: [Kind; 10] = [
    Kind::Start,
    Kind::End,
    Kind::Empty,
    Kind::Text,
    Kind::CData,
    Kind::Comment,
    Kind::Decl,
    Kind::PI,
    Kind::DocType,
    Kind::Eof,
];
impl Kind {
    pub fn name(self) -> &'static str {
        match self {
            Kind::Start => "Start",
            Kind::End => "End",
            Kind::Empty => "Empty",
            Kind::Text => "Text",
            Kind::CData => "CData",
            Kind::Comment => "Comment",
            Kind::Decl => "Decl",
            Kind::PI => "PI",
            Kind::DocType => "DocType",
            Kind::Eof => "Eof",
        }
    }
    pub fn idx(self) -> usize {
        self as usize
    }
}

#[derive(Clone, Copy, PartialEq, Eq, Debug, Hash)]
pub enum Syn {
    InvalidBangMarkup,
    UnclosedPIOrXmlDecl,
    UnclosedComment,
    UnclosedDoctype,
    UnclosedCData,
    UnclosedTag,
}
impl Syn {
    pub fn name(self) -> &'static str {
        match self {
            Syn::InvalidBangMarkup => "InvalidBangMarkup",
            Syn::UnclosedPIOrXmlDecl => "UnclosedPIOrXmlDecl",
            Syn::UnclosedComment => "UnclosedComment",
            Syn::UnclosedDoctype => "UnclosedDoctype",
            Syn::UnclosedCData => "UnclosedCData",
            Syn::UnclosedTag => "UnclosedTag",
        }
    }
}

#[derive(Clone, PartialEq, Eq, Debug, Hash)]
pub enum ErrObs {
    Syntax(Syn),
    MissingDoctypeName,
    Mismatched { expected: String, found: String },
    Unmatched(String),
    DoubleHyphen,
    MissingEndTag(String),
    IllFormedOther(String),
    Io(std::io::ErrorKind),
    /// any other error class, with its class name only
    Other(&'static str),
}
impl ErrObs {
    pub fn name(&self) -> String {
        match self {
            ErrObs::Syntax(s) => format!("Syntax::{}", s.name()),
            ErrObs::MissingDoctypeName => "IllFormed::MissingDoctypeName".into(),
            ErrObs::Mismatched { .. } => "IllFormed::MismatchedEndTag".into(),
            ErrObs::Unmatched(_) => "IllFormed::UnmatchedEndTag".into(),
            ErrObs::DoubleHyphen => "IllFormed::DoubleHyphenInComment".into(),
            ErrObs::MissingEndTag(_) => "IllFormed::MissingEndTag".into(),
            ErrObs::IllFormedOther(_) => "IllFormed::other".into(),
            ErrObs::Io(k) => format!("Io::{:?}", k),
            ErrObs::Other(n) => n.to_string(),
        }
    }
    pub fn is_syntax(&self) -> bool {
        matches!(self, ErrObs::Syntax(_))
    }
    pub fn is_illformed(&self) -> bool {
        matches!(
            self,
            ErrObs::MissingDoctypeName
                | ErrObs::Mismatched { .. }
                | ErrObs::Unmatched(_)
                | ErrObs::DoubleHyphen
                | ErrObs::MissingEndTag(_)
                | ErrObs::IllFormedOther(_)
        )
    }
}

pub fn err_obs(e: &Error) -> ErrObs {
    match e {
        Error::Syntax(s) => ErrObs::Syntax(match s {
            SyntaxError::InvalidBangMarkup => Syn::InvalidBangMarkup,
            SyntaxError::UnclosedPIOrXmlDecl => Syn::UnclosedPIOrXmlDecl,
            SyntaxError::UnclosedComment => Syn::UnclosedComment,
            SyntaxError::UnclosedDoctype => Syn::UnclosedDoctype,
            SyntaxError::UnclosedCData => Syn::UnclosedCData,
            SyntaxError::UnclosedTag => Syn::UnclosedTag,
        }),
        Error::IllFormed(i) => match i {
            IllFormedError::MissingDoctypeName => ErrObs::MissingDoctypeName,
            IllFormedError::MismatchedEndTag { expected, found } => ErrObs::Mismatched {
                expected: expected.clone(),
                found: found.clone(),
            },
            IllFormedError::UnmatchedEndTag(n) => ErrObs::Unmatched(n.clone()),
            IllFormedError::DoubleHyphenInComment => ErrObs::DoubleHyphen,
            IllFormedError::MissingEndTag(n) => ErrObs::MissingEndTag(n.clone()),
            other => ErrObs::IllFormedOther(format!("{:?}", other)),
        },
        Error::Io(e) => ErrObs::Io(e.kind()),
        Error::InvalidAttr(_) => ErrObs::Other("InvalidAttr"),
        Error::Encoding(_) => ErrObs::Other("Encoding"),
        Error::Escape(_) => ErrObs::Other("Escape"),
        Error::Namespace(_) => ErrObs::Other("Namespace"),
    }
}

#[derive(Clone, PartialEq, Eq, Debug, Hash)]
pub enum Obs {
    /// kind, raw bytes via Deref, name()/target() bytes (empty where not applicable)
    Ev(Kind, Vec<u8>, Vec<u8>),
    Err(ErrObs),
    /// bytes obtained by a raw read through `Reader::stream()` between two events
    Raw(Vec<u8>),
}
impl Obs {
    pub fn kind(&self) -> Option<Kind> {
        match self {
            Obs::Ev(k, _, _) => Some(*k),
            _ => None,
        }
    }
    pub fn is_eof(&self) -> bool {
        matches!(self, Obs::Ev(Kind::Eof, _, _))
    }
    pub fn is_empty_text(&self) -> bool {
        matches!(self, Obs::Ev(Kind::Text, raw, _) if raw.is_empty())
    }
    pub fn show(&self) -> String {
        match self {
            Obs::Ev(k, raw, name) => {
                if name.is_empty() {
                    format!("{}({:?})", k.name(), crate::ctx::show(raw))
                } else {
                    format!(
                        "{}({:?}, name={:?})",
                        k.name(),
                        crate::ctx::show(raw),
                        crate::ctx::show(name)
                    )
                }
            }
            Obs::Err(e) => format!("Err({:?})", e),
            Obs::Raw(b) => format!("RawStreamRead({:?})", crate::ctx::show(b)),
        }
    }
}

pub fn event_obs(ev: &Event) -> Obs {
    match ev {
        Event::Start(e) => Obs::Ev(Kind::Start, e.to_vec(), e.name().as_ref().to_vec()),
        Event::Empty(e) => Obs::Ev(Kind::Empty, e.to_vec(), e.name().as_ref().to_vec()),
        Event::End(e) => Obs::Ev(Kind::End, e.to_vec(), e.name().as_ref().to_vec()),
        Event::Text(e) => Obs::Ev(Kind::Text, e.to_vec(), vec![]),
        Event::CData(e) => Obs::Ev(Kind::CData, e.to_vec(), vec![]),
        Event::Comment(e) => Obs::Ev(Kind::Comment, e.to_vec(), vec![]),
        Event::Decl(e) => Obs::Ev(Kind::Decl, e.to_vec(), vec![]),
        Event::PI(e) => Obs::Ev(Kind::PI, e.to_vec(), e.target().to_vec()),
        Event::DocType(e) => Obs::Ev(Kind::DocType, e.to_vec(), vec![]),
        Event::Eof => Obs::Ev(Kind::Eof, vec![], vec![]),
    }
}

pub fn result_obs(r: &Result<Event, Error>) -> Obs {
    match r {
        Ok(ev) => event_obs(ev),
        Err(e) => Obs::Err(err_obs(e)),
    }
}

// ---------------------------------------------------------------------------
// configuration as 7 bits
// ---------------------------------------------------------------------------

pub const C_ALLOW_UNMATCHED: u8 = 1;
pub const C_CHECK_COMMENTS: u8 = 2;
pub const C_CHECK_END_NAMES: u8 = 4;
pub const C_EXPAND_EMPTY: u8 = 8;
pub const C_TRIM_NAMES: u8 = 16;
pub const C_TRIM_START: u8 = 32;
pub const C_TRIM_END: u8 = 64;
/// nothing checked, nothing trimmed, nothing expanded, nothing rejected
pub const CFG_NEUTRAL: u8 = C_ALLOW_UNMATCHED;
/// Config::default()
pub const CFG_DEFAULT: u8 = C_CHECK_END_NAMES | C_TRIM_NAMES;
pub const CFG_ALL_ON: u8 = 0x7F & !C_ALLOW_UNMATCHED;

pub fn apply_cfg(c: &mut Config, bits: u8) {
    c.allow_unmatched_ends = bits & C_ALLOW_UNMATCHED != 0;
    c.check_comments = bits & C_CHECK_COMMENTS != 0;
    c.check_end_names = bits & C_CHECK_END_NAMES != 0;
    c.expand_empty_elements = bits & C_EXPAND_EMPTY != 0;
    c.trim_markup_names_in_closing_tags = bits & C_TRIM_NAMES != 0;
    c.trim_text_start = bits & C_TRIM_START != 0;
    c.trim_text_end = bits & C_TRIM_END != 0;
}
pub fn cfg_bits(c: &Config) -> u8 {
    (c.allow_unmatched_ends as u8) * C_ALLOW_UNMATCHED
        | (c.check_comments as u8) * C_CHECK_COMMENTS
        | (c.check_end_names as u8) * C_CHECK_END_NAMES
        | (c.expand_empty_elements as u8) * C_EXPAND_EMPTY
        | (c.trim_markup_names_in_closing_tags as u8) * C_TRIM_NAMES
        | (c.trim_text_start as u8) * C_TRIM_START
        | (c.trim_text_end as u8) * C_TRIM_END
}
pub fn cfg_show(bits: u8) -> String {
    let mut v = Vec::new();
    for (b, n) in [
        (C_ALLOW_UNMATCHED, "allow_unmatched_ends"),
        (C_CHECK_COMMENTS, "check_comments"),
        (C_CHECK_END_NAMES, "check_end_names"),
        (C_EXPAND_EMPTY, "expand_empty_elements"),
        (C_TRIM_NAMES, "trim_markup_names_in_closing_tags"),
        (C_TRIM_START, "trim_text_start"),
        (C_TRIM_END, "trim_text_end"),
    ] {
        if bits & b != 0 {
            v.push(n);
        }
    }
    if v.is_empty() {
        "none".into()
    } else {
        v.join("+")
    }
}

// ---------------------------------------------------------------------------
// traces
// ---------------------------------------------------------------------------

#[derive(Clone, PartialEq, Eq, Debug)]
pub struct Entry {
    pub obs: Obs,
    pub before: u64,
    pub after: u64,
    pub err_pos: u64,
}
impl Entry {
    pub fn show(&self) -> String {
        format!(
            "{} @{}..{} errpos={}",
            self.obs.show(),
            self.before,
            self.after,
            self.err_pos
        )
    }
}
pub type Trace = Vec<Entry>;

pub fn show_trace(t: &Trace) -> Vec<String> {
    t.iter().take(40).map(|e| e.show()).collect()
}
pub fn trace_json(t: &Trace) -> Value {
    json!(show_trace(t))
}

/// Configuration history: the configuration in force for call number `i`
/// (0-based). `flips` is sorted by call index.
#[derive(Clone, Debug, PartialEq, Eq)]
pub struct CfgHist {
    pub base: u8,
    pub flips: Vec<(u32, u8)>,
    /// raw reads through `Reader::stream()`: after call number `.0` read `.1` bytes
    pub raw: Vec<(u32, u8)>,
}
impl CfgHist {
    pub fn fixed(base: u8) -> Self {
        CfgHist { base, flips: vec![], raw: vec![] }
    }
    #[inline]
    pub fn at(&self, call: u32) -> u8 {
        let mut c = self.base;
        for (i, b) in &self.flips {
            if *i <= call {
                c = *b;
            } else {
                break;
            }
        }
        c
    }
    pub fn to_json(&self) -> Value {
        json!({"base": self.base, "base_show": cfg_show(self.base),
               "flips": self.flips.iter().map(|(i,b)| json!([i, b, cfg_show(*b)])).collect::<Vec<_>>(),
               "raw_stream_reads": self.raw.iter().map(|(i,n)| json!([i, n])).collect::<Vec<_>>()})
    }
    pub fn from_json(v: &Value) -> Self {
        let base = v["base"].as_u64().unwrap_or(CFG_NEUTRAL as u64) as u8;
        let mut flips = vec![];
        if let Some(a) = v["flips"].as_array() {
            for f in a {
                flips.push((f[0].as_u64().unwrap_or(0) as u32, f[1].as_u64().unwrap_or(0) as u8));
            }
        }
        let mut raw = vec![];
        if let Some(a) = v["raw_stream_reads"].as_array() {
            for f in a {
                raw.push((f[0].as_u64().unwrap_or(0) as u32, f[1].as_u64().unwrap_or(0) as u8));
            }
        }
        CfgHist { base, flips, raw }
    }
    pub fn raw_after(&self, call: u32) -> Option<usize> {
        self.raw.iter().find(|(i, _)| *i == call).map(|(_, n)| *n as usize)
    }
}

/// How many calls after the first Eof / terminal error are still observed
pub const EXTRA_CALLS: usize = 3;

/// Upper bound on calls for an input of `len` bytes (C03's linear bound)
#[inline]
pub fn call_bound(len: usize) -> usize {
    2 * len + 3
}

/// Trace of `Reader<&[u8]>::read_event`. Stops `EXTRA_CALLS` calls after the first Eof,
/// or when `call_bound + EXTRA_CALLS` calls were made (the caller checks the bound).
pub fn trace_slice(input: &[u8], cfg: &CfgHist) -> Trace {
    let mut r = Reader::from_reader(input);
    let mut t = Vec::new();
    let mut after_eof = 0usize;
    let limit = call_bound(input.len()) + EXTRA_CALLS + 1;
    for call in 0..limit {
        apply_cfg(r.config_mut(), cfg.at(call as u32));
        let before = r.buffer_position();
        let res = r.read_event();
        let obs = result_obs(&res);
        let e = Entry {
            obs,
            before,
            after: r.buffer_position(),
            err_pos: r.error_position(),
        };
        let eof = e.obs.is_eof();
        t.push(e);
        if let Some(n) = cfg.raw_after(call as u32).filter(|_| !t.iter().any(|e| matches!(&e.obs, Obs::Err(x) if x.is_syntax()))) {
            use std::io::Read;
            let before = r.buffer_position();
            let mut b = vec![0u8; n];
            let got = read_stream(&mut r.stream(), &mut b);
            b.truncate(got);
            t.push(Entry { obs: Obs::Raw(b), before, after: r.buffer_position(), err_pos: r.error_position() });
        }
        if eof || after_eof > 0 {
            after_eof += 1;
            if after_eof > EXTRA_CALLS {
                break;
            }
        }
    }
    t
}

/// Raw read of up to `buf.len()` bytes through `Reader::stream()`: through `Read::read` for
/// even lengths, through `BufRead::fill_buf` + `consume` for odd ones.
pub fn read_stream<R: std::io::BufRead>(r: &mut R, buf: &mut [u8]) -> usize {
    if buf.len() % 2 == 0 {
        return read_up_to(r, buf);
    }
    let mut got = 0;
    while got < buf.len() {
        let avail = match r.fill_buf() {
            Ok(a) if !a.is_empty() => a,
            _ => break,
        };
        let k = avail.len().min(buf.len() - got);
        buf[got..got + k].copy_from_slice(&avail[..k]);
        r.consume(k);
        got += k;
    }
    got
}

/// read until `buf` is full or the source is exhausted (errors end the read)
pub fn read_up_to<R: std::io::Read>(r: &mut R, buf: &mut [u8]) -> usize {
    let mut got = 0;
    while got < buf.len() {
        match r.read(&mut buf[got..]) {
            Ok(0) | Err(_) => break,
            Ok(n) => got += n,
        }
    }
    got
}

pub fn trace_buffered<'a>(src: ChunkedRead<'a>, cfg: &CfgHist) -> (Trace, ChunkedRead<'a>) {
    let len = src.data.len();
    let mut r = Reader::from_reader(src);
    let mut t = Vec::new();
    let mut after_eof = 0usize;
    let mut buf = Vec::new();
    let limit = call_bound(len) + EXTRA_CALLS + 1 + 4;
    for call in 0..limit {
        apply_cfg(r.config_mut(), cfg.at(call as u32));
        let before = r.buffer_position();
        // the caller's buffer may be reused without clearing it (it only grows): every third call here
        if (call + len) % 3 != 0 {
            buf.clear();
        }
        let res = r.read_event_into(&mut buf);
        let obs = result_obs(&res);
        drop(res);
        let e = Entry {
            obs,
            before,
            after: r.buffer_position(),
            err_pos: r.error_position(),
        };
        let eof = e.obs.is_eof();
        t.push(e);
        if let Some(n) = cfg.raw_after(call as u32).filter(|_| !t.iter().any(|e| matches!(&e.obs, Obs::Err(x) if x.is_syntax()))) {
            let before = r.buffer_position();
            let mut b = vec![0u8; n];
            let got = read_stream(&mut r.stream(), &mut b);
            b.truncate(got);
            t.push(Entry { obs: Obs::Raw(b), before, after: r.buffer_position(), err_pos: r.error_position() });
        }
        if eof || after_eof > 0 {
            after_eof += 1;
            if after_eof > EXTRA_CALLS {
                break;
            }
        }
    }
    (t, r.into_inner())
}

/// Returns (trace, source, total polls)
pub fn trace_async<'a>(src: AsyncChunked<'a>, cfg: &CfgHist) -> Result<(Trace, AsyncChunked<'a>, u64), String> {
    let len = src.inner.data.len();
    let mut r = Reader::from_reader(src);
    let mut t = Vec::new();
    let mut after_eof = 0usize;
    let mut buf = Vec::new();
    let mut polls_total = 0u64;
    let limit = call_bound(len) + EXTRA_CALLS + 1 + 4;
    for call in 0..limit {
        apply_cfg(r.config_mut(), cfg.at(call as u32));
        let before = r.buffer_position();
        if (call + len) % 3 != 0 {
            buf.clear();
        }
        let max_polls = 64 + 300 * (len as u64 + 2);
        let (obs, polls) = {
            let fut = r.read_event_into_async(&mut buf);
            let (res, polls) = block_on(fut, max_polls)?;
            (result_obs(&res), polls)
        };
        polls_total += polls;
        let e = Entry {
            obs,
            before,
            after: r.buffer_position(),
            err_pos: r.error_position(),
        };
        let eof = e.obs.is_eof();
        t.push(e);
        if let Some(n) = cfg.raw_after(call as u32).filter(|_| !t.iter().any(|e| matches!(&e.obs, Obs::Err(x) if x.is_syntax()))) {
            use tokio::io::AsyncReadExt;
            let before = r.buffer_position();
            let mut b = vec![0u8; n];
            // read_exact re-polls with a partially filled buffer when the source delivers pieces
            let got = if n % 2 == 0 {
                let mut st = r.stream();
                let (res, polls) = block_on(st.read_exact(&mut b), max_polls)?;
                polls_total += polls;
                match res {
                    Ok(k) => k,
                    Err(_) => usize::MAX,
                }
            } else {
                // odd lengths go through AsyncBufRead::poll_fill_buf + consume
                use tokio::io::AsyncBufReadExt;
                let mut st = r.stream();
                let bref = &mut b;
                let fut = async move {
                    let mut got = 0;
                    while got < bref.len() {
                        let k = match st.fill_buf().await {
                            Ok(a) if !a.is_empty() => {
                                let k = a.len().min(bref.len() - got);
                                bref[got..got + k].copy_from_slice(&a[..k]);
                                k
                            }
                            _ => break,
                        };
                        st.consume(k);
                        got += k;
                    }
                    got
                };
                let (got, polls) = block_on(fut, max_polls)?;
                polls_total += polls;
                if got < n {
                    usize::MAX
                } else {
                    got
                }
            };
            if got == usize::MAX {
                // fewer than n bytes were left: what was consumed is still reflected in the position
                b.truncate((r.buffer_position() - before) as usize);
            }
            t.push(Entry { obs: Obs::Raw(b), before, after: r.buffer_position(), err_pos: r.error_position() });
        }
        if eof || after_eof > 0 {
            after_eof += 1;
            if after_eof > EXTRA_CALLS {
                break;
            }
        }
    }
    Ok((t, r.into_inner(), polls_total))
}

/// first index at which two traces differ
pub fn first_diff(a: &Trace, b: &Trace) -> Option<usize> {
    let n = a.len().min(b.len());
    for i in 0..n {
        if a[i] != b[i] {
            return Some(i);
        }
    }
    if a.len() != b.len() {
        Some(n)
    } else {
        None
    }
}

pub fn describe_diff(la: &str, a: &Trace, lb: &str, b: &Trace) -> String {
    match first_diff(a, b) {
        None => "no difference".into(),
        Some(i) => format!(
            "first difference at call {}: {} = {} ; {} = {}",
            i,
            la,
            a.get(i).map(|e| e.show()).unwrap_or_else(|| "<no more calls>".into()),
            lb,
            b.get(i).map(|e| e.show()).unwrap_or_else(|| "<no more calls>".into())
        ),
    }
}
