//! R_tok — an index-based reference tokenizer for the lexical grammar that
//! quick-xml documents (and `tests/reader-errors.rs` pins). It shares no code
//! with quick-xml: no memchr, no chunk carry state, whole input in memory.
//!
//! One `step` = one `read_event` call. Positions are literal offsets into the
//! input (a leading byte-order mark counts).

use crate::obs::*;

#[inline]
pub fn is_ws(b: u8) -> bool {
    b == b' ' || b == b'\t' || b == b'\r' || b == b'\n'
}

pub struct TokModel<'a> {
    input: &'a [u8],
    /// index of the next unread byte
    pos: usize,
    /// what `buffer_position()` would report now
    rp: u64,
    started: bool,
    done: bool,
    pending_end: Option<Vec<u8>>,
    stack: Vec<Vec<u8>>,
    err_pos: u64,
    /// set once something was seen that may switch the decoder away from UTF-8;
    /// from then on the strings inside name-mismatch errors are not predicted
    pub maybe_not_utf8: bool,
    /// statistics for the monitors: hostile neighbourhoods met
    pub stats: TokStats,
}

#[derive(Default, Clone, Debug)]
pub struct TokStats {
    pub gt_in_quoted: u64,
    pub other_quote_in_quoted: u64,
    pub gt_in_cdata: u64,
    pub brackets_in_cdata: u64,
    pub gt_in_comment: u64,
    pub dash_in_comment: u64,
    pub q_in_pi: u64,
    pub gt_in_pi: u64,
    pub nested_in_doctype: u64,
    pub eof_in_construct: u64,
    pub max_depth: u64,
}

pub struct Step {
    pub obs: Obs,
    pub before: u64,
    pub after: u64,
    pub err_pos: u64,
    /// true if `after` is predicted exactly (false after syntax errors where the
    /// properties say nothing about the position)
    pub after_exact: bool,
    /// the strings inside a Mismatched/Unmatched error are predicted
    pub strings_exact: bool,
}

fn lossy_default(b: &[u8]) -> String {
    String::from_utf8(b.to_vec()).unwrap_or_default()
}

/// first `>` outside `'…'` / `"…"` at or after `from`; also reports hostile content
fn find_tag_end(input: &[u8], from: usize, stats: &mut TokStats) -> Option<usize> {
    let mut q: u8 = 0;
    let mut i = from;
    while i < input.len() {
        let b = input[i];
        if q == 0 {
            if b == b'>' {
                return Some(i);
            }
            if b == b'"' || b == b'\'' {
                q = b;
            }
        } else if b == q {
            q = 0;
        } else if b == b'>' {
            stats.gt_in_quoted += 1;
        } else if b == b'"' || b == b'\'' {
            stats.other_quote_in_quoted += 1;
        }
        i += 1;
    }
    None
}

impl<'a> TokModel<'a> {
    pub fn new(input: &'a [u8]) -> Self {
        TokModel {
            input,
            pos: 0,
            rp: 0,
            started: false,
            done: false,
            pending_end: None,
            stack: Vec::new(),
            err_pos: 0,
            maybe_not_utf8: false,
            stats: TokStats::default(),
        }
    }

    pub fn depth(&self) -> usize {
        self.stack.len()
    }

    fn ev(&mut self, before: u64, kind: Kind, raw: &[u8], name: &[u8]) -> Step {
        Step {
            obs: Obs::Ev(kind, raw.to_vec(), name.to_vec()),
            before,
            after: self.rp,
            err_pos: self.err_pos,
            after_exact: true,
            strings_exact: true,
        }
    }
    fn syntax(&mut self, before: u64, s: Syn, at: usize, rp_after: usize) -> Step {
        self.done = true;
        self.err_pos = at as u64;
        self.rp = rp_after as u64;
        Step {
            obs: Obs::Err(ErrObs::Syntax(s)),
            before,
            after: self.rp,
            err_pos: self.err_pos,
            after_exact: false,
            strings_exact: true,
        }
    }
    fn illformed(&mut self, before: u64, e: ErrObs, at: usize) -> Step {
        self.err_pos = at as u64;
        Step {
            obs: Obs::Err(e),
            before,
            after: self.rp,
            err_pos: self.err_pos,
            after_exact: true,
            strings_exact: !self.maybe_not_utf8,
        }
    }

    /// Known finding F6 (judged by C16): with `trim_text_end` on and `trim_text_start` off a
    /// whitespace-only text that is followed by markup is returned as an *empty* Text event
    /// instead of being dropped. Returns true -- and consumes the run, as the reader did --
    /// when the next call under `cfg` is at exactly such a site.
    pub fn accept_f6_empty_text(&mut self, cfg: u8) -> bool {
        if self.done || self.pending_end.is_some() || cfg & C_TRIM_END == 0 || cfg & C_TRIM_START != 0 {
            return false;
        }
        let input = self.input;
        self.begin();
        let mut p = self.pos;
        let start = p;
        while p < input.len() && is_ws(input[p]) {
            p += 1;
        }
        if p == start || p >= input.len() || input[p] != b'<' {
            return false;
        }
        self.pos = p;
        self.rp = p as u64;
        true
    }

    /// The first call consumes a byte-order mark.
    fn begin(&mut self) {
        let input = self.input;
        if !self.started {
            self.started = true;
            if input.starts_with(&[0xEF, 0xBB, 0xBF]) {
                self.pos = 3;
            } else if input.starts_with(&[0xFE, 0xFF]) || input.starts_with(&[0xFF, 0xFE]) {
                self.pos = 2;
                self.maybe_not_utf8 = true;
            } else if input.starts_with(&[0x00, b'<', 0x00, b'?']) || input.starts_with(&[b'<', 0x00, b'?', 0x00]) {
                self.maybe_not_utf8 = true;
            }
        }
    }

    /// One `read_event` call under configuration `cfg`.
    pub fn step(&mut self, cfg: u8) -> Step {
        let input = self.input;
        let len = input.len();
        let before = self.rp;
        if self.done {
            return self.ev(before, Kind::Eof, &[], &[]);
        }
        if let Some(name) = self.pending_end.take() {
            self.stack.pop();
            return self.ev(before, Kind::End, &name, &name);
        }
        self.begin();
        // ---- text ----
        if cfg & C_TRIM_START != 0 {
            while self.pos < len && is_ws(input[self.pos]) {
                self.pos += 1;
            }
        }
        if self.pos >= len {
            self.done = true;
            self.rp = len as u64;
            return self.ev(before, Kind::Eof, &[], &[]);
        }
        if input[self.pos] != b'<' {
            let start = self.pos;
            let mut j = start;
            while j < len && input[j] != b'<' {
                j += 1;
            }
            let mut end = j;
            if cfg & C_TRIM_END != 0 {
                while end > start && is_ws(input[end - 1]) {
                    end -= 1;
                }
            }
            self.pos = j;
            self.rp = j as u64;
            if j == len {
                self.done = true;
                if end == start {
                    return self.ev(before, Kind::Eof, &[], &[]);
                }
                return self.ev(before, Kind::Text, &input[start..end], &[]);
            }
            if end > start {
                return self.ev(before, Kind::Text, &input[start..end], &[]);
            }
            // a text that became empty is dropped: fall through to the markup
        }
        // ---- markup at self.pos ----
        let lt = self.pos;
        debug_assert_eq!(input[lt], b'<');
        if lt + 1 >= len {
            self.stats.eof_in_construct += 1;
            return self.syntax(before, Syn::UnclosedTag, lt, len);
        }
        match input[lt + 1] {
            b'!' => self.bang(before, cfg, lt),
            b'/' => {
                let g = match find_tag_end(input, lt + 1, &mut self.stats) {
                    Some(g) => g,
                    None => {
                        self.stats.eof_in_construct += 1;
                        return self.syntax(before, Syn::UnclosedTag, lt, len);
                    }
                };
                let content = &input[lt + 2..g];
                let mut name = content;
                if cfg & C_TRIM_NAMES != 0 {
                    let mut e = content.len();
                    while e > 0 && is_ws(content[e - 1]) {
                        e -= 1;
                    }
                    if e > 0 {
                        name = &content[..e];
                    }
                }
                self.pos = g + 1;
                self.rp = (g + 1) as u64;
                match self.stack.pop() {
                    Some(expected) => {
                        if cfg & C_CHECK_END_NAMES != 0 && name != &expected[..] {
                            let e = ErrObs::Mismatched {
                                expected: lossy_default(&expected),
                                found: lossy_default(name),
                            };
                            return self.illformed(before, e, lt);
                        }
                    }
                    None => {
                        if cfg & C_ALLOW_UNMATCHED == 0 {
                            let e = ErrObs::Unmatched(lossy_default(name));
                            return self.illformed(before, e, lt);
                        }
                    }
                }
                self.ev(before, Kind::End, name, name)
            }
            b'?' => {
                // first `?>` whose `?` is not the `?` of `<?` itself... the scan starts at the
                // `?` of `<?`, so `<?>` is "found" with a one-byte body and then rejected.
                let mut g = None;
                let mut i = lt + 2;
                while i < len {
                    if input[i] == b'>' {
                        if input[i - 1] == b'?' {
                            g = Some(i);
                            break;
                        }
                        self.stats.gt_in_pi += 1;
                    }
                    i += 1;
                }
                let g = match g {
                    Some(g) => g,
                    None => {
                        self.stats.eof_in_construct += 1;
                        return self.syntax(before, Syn::UnclosedPIOrXmlDecl, lt, len);
                    }
                };
                if g == lt + 2 {
                    // `<?>`
                    return self.syntax(before, Syn::UnclosedPIOrXmlDecl, lt, g + 1);
                }
                let content = &input[lt + 2..g - 1];
                if content.iter().any(|&b| b == b'?') {
                    self.stats.q_in_pi += 1;
                }
                self.pos = g + 1;
                self.rp = (g + 1) as u64;
                let is_decl = content.starts_with(b"xml") && (content.len() == 3 || is_ws(content[3]));
                if is_decl {
                    if find_sub(content, b"encoding").is_some() {
                        self.maybe_not_utf8 = true;
                    }
                    self.ev(before, Kind::Decl, content, &[])
                } else {
                    let mut n = 0;
                    while n < content.len() && !is_ws(content[n]) {
                        n += 1;
                    }
                    self.ev(before, Kind::PI, content, &content[..n])
                }
            }
            _ => {
                let g = match find_tag_end(input, lt + 1, &mut self.stats) {
                    Some(g) => g,
                    None => {
                        self.stats.eof_in_construct += 1;
                        return self.syntax(before, Syn::UnclosedTag, lt, len);
                    }
                };
                let buf = &input[lt + 1..g];
                self.pos = g + 1;
                self.rp = (g + 1) as u64;
                let (content, empty) = if buf.last() == Some(&b'/') {
                    (&buf[..buf.len() - 1], true)
                } else {
                    (buf, false)
                };
                let mut n = 0;
                while n < content.len() && !is_ws(content[n]) {
                    n += 1;
                }
                let name = &content[..n];
                if empty {
                    if cfg & C_EXPAND_EMPTY != 0 {
                        self.stack.push(name.to_vec());
                        self.stats.max_depth = self.stats.max_depth.max(self.stack.len() as u64);
                        self.pending_end = Some(name.to_vec());
                        self.ev(before, Kind::Start, content, name)
                    } else {
                        self.ev(before, Kind::Empty, content, name)
                    }
                } else {
                    self.stack.push(name.to_vec());
                    self.stats.max_depth = self.stats.max_depth.max(self.stack.len() as u64);
                    self.ev(before, Kind::Start, content, name)
                }
            }
        }
    }

    fn bang(&mut self, before: u64, cfg: u8, lt: usize) -> Step {
        let input = self.input;
        let len = input.len();
        if lt + 2 >= len {
            return self.syntax(before, Syn::InvalidBangMarkup, lt, lt + 1);
        }
        match input[lt + 2] {
            b'[' => {
                // first `>` preceded by `]]`
                let mut g = None;
                let mut i = lt + 3;
                while i < len {
                    if input[i] == b'>' {
                        if i >= lt + 5 && input[i - 1] == b']' && input[i - 2] == b']' {
                            g = Some(i);
                            break;
                        }
                        self.stats.gt_in_cdata += 1;
                    }
                    i += 1;
                }
                let g = match g {
                    Some(g) => g,
                    None => {
                        self.stats.eof_in_construct += 1;
                        return self.syntax(before, Syn::UnclosedCData, lt, len);
                    }
                };
                let buf = &input[lt + 1..g];
                if !buf.starts_with(b"![CDATA[") {
                    return self.syntax(before, Syn::UnclosedCData, lt, g + 1);
                }
                let body = &buf[8..buf.len() - 2];
                if body.iter().any(|&b| b == b']') {
                    self.stats.brackets_in_cdata += 1;
                }
                self.pos = g + 1;
                self.rp = (g + 1) as u64;
                self.ev(before, Kind::CData, body, &[])
            }
            b'-' => {
                // first `-->` whose `--` lies completely behind `<!--`
                let mut g = None;
                let mut i = lt + 3;
                while i < len {
                    if input[i] == b'>' {
                        if i >= lt + 6 && input[i - 1] == b'-' && input[i - 2] == b'-' {
                            g = Some(i);
                            break;
                        }
                        self.stats.gt_in_comment += 1;
                    }
                    i += 1;
                }
                let g = match g {
                    Some(g) => g,
                    None => {
                        self.stats.eof_in_construct += 1;
                        return self.syntax(before, Syn::UnclosedComment, lt, len);
                    }
                };
                let buf = &input[lt + 1..g];
                if !buf.starts_with(b"!--") {
                    return self.syntax(before, Syn::UnclosedComment, lt, g + 1);
                }
                let body = &buf[3..buf.len() - 2];
                if body.iter().any(|&b| b == b'-') {
                    self.stats.dash_in_comment += 1;
                }
                self.pos = g + 1;
                self.rp = (g + 1) as u64;
                if cfg & C_CHECK_COMMENTS != 0 {
                    let bad = find_sub(body, b"--").is_some() || body.last() == Some(&b'-');
                    if bad {
                        // position of the error inside the comment is not part of any property
                        let mut s = self.illformed(before, ErrObs::DoubleHyphen, lt);
                        s.err_pos = u64::MAX;
                        self.err_pos = u64::MAX;
                        return s;
                    }
                }
                self.ev(before, Kind::Comment, body, &[])
            }
            b'D' | b'd' => {
                let mut bal: i64 = 0;
                let mut g = None;
                let mut i = lt + 1;
                while i < len {
                    if input[i] == b'<' {
                        bal += 1;
                        self.stats.nested_in_doctype += 1;
                    } else if input[i] == b'>' {
                        if bal == 0 {
                            g = Some(i);
                            break;
                        }
                        bal -= 1;
                    }
                    i += 1;
                }
                let g = match g {
                    Some(g) => g,
                    None => {
                        self.stats.eof_in_construct += 1;
                        return self.syntax(before, Syn::UnclosedDoctype, lt, len);
                    }
                };
                let buf = &input[lt + 1..g];
                if !(buf.len() >= 8 && buf[..8].eq_ignore_ascii_case(b"!DOCTYPE")) {
                    return self.syntax(before, Syn::UnclosedDoctype, lt, g + 1);
                }
                self.pos = g + 1;
                self.rp = (g + 1) as u64;
                let rest = &buf[8..];
                match rest.iter().position(|&b| !is_ws(b)) {
                    Some(s) => self.ev(before, Kind::DocType, &rest[s..], &[]),
                    None => self.illformed(before, ErrObs::MissingDoctypeName, g),
                }
            }
            _ => self.syntax(before, Syn::InvalidBangMarkup, lt, lt + 1),
        }
    }
}

pub fn find_sub(h: &[u8], n: &[u8]) -> Option<usize> {
    if n.is_empty() || h.len() < n.len() {
        return None;
    }
    (0..=h.len() - n.len()).find(|&i| &h[i..i + n.len()] == n)
}

/// Whole-input tokenization under a fixed configuration, for monitors that use
/// R_tok as a *tool* (construct classification, token streams).
pub fn tokenize(input: &[u8], cfg: u8) -> Vec<Step> {
    let mut m = TokModel::new(input);
    let mut out = Vec::new();
    for _ in 0..(2 * input.len() + 4) {
        let s = m.step(cfg);
        let eof = s.obs.is_eof();
        let syn = matches!(&s.obs, Obs::Err(e) if e.is_syntax());
        out.push(s);
        if eof || syn {
            break;
        }
    }
    out
}
