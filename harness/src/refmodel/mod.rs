pub mod attr;
pub mod tok;
