pub mod tok;
