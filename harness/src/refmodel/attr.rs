//! R_attr — reference model of attribute iteration: the attribute grammar plus the
//! *documented* error positions and recovery points of `AttrError`
//! (doc comments in src/events/attributes.rs). Index based, no shared code.

use super::tok::is_ws;

#[derive(Clone, Debug, PartialEq, Eq)]
pub enum AItem {
    /// key range, value range (None for a key-only HTML attribute)
    Ok { key: (usize, usize), value: Option<(usize, usize)> },
    ExpectedEq(usize),
    ExpectedValue(usize),
    UnquotedValue(usize),
    ExpectedQuote(usize, u8),
    Duplicated(usize, usize),
}

#[derive(Default, Clone, Debug)]
pub struct AttrStats {
    /// a duplicate whose skipped value contained whitespace / a quote of the other kind / spaces around `=`
    pub dup_skipped_ws_in_value: u64,
    pub dup_skipped_other_quote: u64,
    pub dup_skipped_spaces_around_eq: u64,
    pub dup_skipped_unquoted: u64,
}

fn skip_ws(c: &[u8], mut i: usize) -> Option<usize> {
    while i < c.len() {
        if !is_ws(c[i]) {
            return Some(i);
        }
        i += 1;
    }
    None
}
fn find_ws(c: &[u8], mut i: usize) -> Option<usize> {
    while i < c.len() {
        if is_ws(c[i]) {
            return Some(i);
        }
        i += 1;
    }
    None
}

pub fn parse(c: &[u8], pos: usize, html: bool, checks: bool, stats: &mut AttrStats) -> Vec<AItem> {
    let len = c.len();
    let mut out = Vec::new();
    let mut keys: Vec<(usize, usize)> = Vec::new();
    let mut o = pos.min(len);
    // returns true when a duplicate was found (and reported)
    let mut dup = |keys: &mut Vec<(usize, usize)>, k: (usize, usize), out: &mut Vec<AItem>| -> bool {
        if !checks {
            return false;
        }
        if let Some(p) = keys.iter().find(|p| c[p.0..p.1] == c[k.0..k.1]) {
            out.push(AItem::Duplicated(k.0, p.0));
            return true;
        }
        keys.push(k);
        false
    };
    loop {
        let s = match skip_ws(c, o) {
            Some(s) => s,
            None => break,
        };
        // the key ends at the first `=` or whitespace *after* its first byte
        let mut e = s + 1;
        while e < len && c[e] != b'=' && !is_ws(c[e]) {
            e += 1;
        }
        let eq;
        if e == len {
            // key runs to the end of the tag
            if html {
                if !dup(&mut keys, (s, len), &mut out) {
                    out.push(AItem::Ok { key: (s, len), value: None });
                }
            } else {
                out.push(AItem::ExpectedEq(len));
            }
            break;
        } else if c[e] == b'=' {
            eq = e;
        } else {
            match skip_ws(c, e) {
                None => {
                    if html {
                        if !dup(&mut keys, (s, e), &mut out) {
                            out.push(AItem::Ok { key: (s, e), value: None });
                        }
                    } else {
                        out.push(AItem::ExpectedEq(len));
                    }
                    break;
                }
                Some(t) if c[t] == b'=' => eq = t,
                Some(t) => {
                    if html {
                        if !dup(&mut keys, (s, e), &mut out) {
                            out.push(AItem::Ok { key: (s, e), value: None });
                        }
                    } else {
                        out.push(AItem::ExpectedEq(t));
                    }
                    o = t;
                    continue;
                }
            }
        }
        if dup(&mut keys, (s, e), &mut out) {
            // documented recovery: the `=` and the whole value of the duplicate are skipped,
            // parsing of the next attribute is attempted behind the closing quote
            if eq > e {
                stats.dup_skipped_spaces_around_eq += 1;
            }
            let v = match skip_ws(c, eq + 1) {
                Some(v) => v,
                None => break,
            };
            if v > eq + 1 {
                stats.dup_skipped_spaces_around_eq += 1;
            }
            if c[v] == b'"' || c[v] == b'\'' {
                let q = c[v];
                match (v + 1..len).find(|&i| c[i] == q) {
                    Some(cl) => {
                        if c[v + 1..cl].iter().any(|b| is_ws(*b)) {
                            stats.dup_skipped_ws_in_value += 1;
                        }
                        if c[v + 1..cl].iter().any(|b| *b == b'"' || *b == b'\'') {
                            stats.dup_skipped_other_quote += 1;
                        }
                        o = cl + 1;
                        continue;
                    }
                    None => break,
                }
            } else {
                stats.dup_skipped_unquoted += 1;
                match find_ws(c, v) {
                    Some(w) => {
                        o = w;
                        continue;
                    }
                    None => break,
                }
            }
        }
        let v = match skip_ws(c, eq + 1) {
            Some(v) => v,
            None => {
                out.push(AItem::ExpectedValue(len));
                break;
            }
        };
        if c[v] == b'"' || c[v] == b'\'' {
            let q = c[v];
            match (v + 1..len).find(|&i| c[i] == q) {
                Some(cl) => {
                    out.push(AItem::Ok { key: (s, e), value: Some((v + 1, cl)) });
                    o = cl + 1;
                }
                None => {
                    out.push(AItem::ExpectedQuote(len, q));
                    break;
                }
            }
        } else if html {
            let end = find_ws(c, v).unwrap_or(len);
            out.push(AItem::Ok { key: (s, e), value: Some((v, end)) });
            o = end;
        } else {
            out.push(AItem::UnquotedValue(v));
            match find_ws(c, v) {
                Some(w) => o = w,
                None => break,
            }
        }
    }
    out
}
