//! Source adapters owned by the harness: they decide how the input is cut into
//! `fill_buf` pieces, when an async source answers `Pending`, and at which
//! refill call an I/O fault is delivered.

use std::future::Future;
use std::io::{self, BufRead, Read};
use std::pin::Pin;
use std::sync::atomic::{AtomicU64, Ordering};
use std::sync::Arc;
use std::task::{Context, Poll, Waker};
use tokio::io::{AsyncBufRead, AsyncRead, ReadBuf};

#[derive(Clone, Copy, Debug, PartialEq, Eq)]
pub enum Fault {
    Interrupted,
    Other(io::ErrorKind),
}
impl Fault {
    pub fn to_error(self) -> io::Error {
        match self {
            Fault::Interrupted => io::Error::new(io::ErrorKind::Interrupted, "injected interrupt"),
            Fault::Other(k) => io::Error::new(k, "injected fault"),
        }
    }
}

/// A `BufRead` over a byte slice that hands the data out in the pieces given
/// by `cuts` (sorted offsets strictly inside the input at which a piece ends).
#[derive(Clone, Debug)]
pub struct ChunkedRead<'a> {
    pub data: &'a [u8],
    pub cuts: Vec<usize>,
    pub pos: usize,
    /// sorted (refill call index, fault) pairs; call indices count every fill_buf call
    pub faults: Vec<(u64, Fault)>,
    pub calls: u64,
    pub faults_delivered: u64,
    /// position at each fill_buf call (only recorded when `record` is set)
    pub record: bool,
    pub call_positions: Vec<usize>,
    /// while set, the source reports end of input at this offset (a file that is still being written,
    /// a terminal); `release()` makes the rest available
    pub hold_at: Option<usize>,
}

impl<'a> ChunkedRead<'a> {
    pub fn release(&mut self) {
        self.hold_at = None;
    }
    pub fn new(data: &'a [u8], cuts: Vec<usize>) -> Self {
        ChunkedRead {
            data,
            cuts,
            pos: 0,
            faults: Vec::new(),
            calls: 0,
            faults_delivered: 0,
            record: false,
            call_positions: Vec::new(),
            hold_at: None,
        }
    }
    pub fn with_piece(data: &'a [u8], piece: usize) -> Self {
        Self::new(data, cuts_for_piece(data.len(), piece, 0))
    }
    #[inline]
    fn piece_end(&self) -> usize {
        // first cut greater than pos (cuts are sorted)
        let i = self.cuts.partition_point(|&c| c <= self.pos);
        let end = match self.hold_at {
            Some(h) if h >= self.pos => h.min(self.data.len()),
            _ => self.data.len(),
        };
        match self.cuts.get(i) {
            Some(&c) => c.min(end),
            None => end,
        }
    }
    #[inline]
    fn next_fault(&mut self) -> Option<Fault> {
        let idx = self.calls;
        self.calls += 1;
        if self.record {
            self.call_positions.push(self.pos);
        }
        if let Some(p) = self.faults.iter().position(|(i, _)| *i == idx) {
            self.faults_delivered += 1;
            return Some(self.faults[p].1);
        }
        None
    }
}

/// cut offsets for fixed piece size; `first_min` forces the first piece to be at least that long
pub fn cuts_for_piece(len: usize, piece: usize, first_min: usize) -> Vec<usize> {
    let mut cuts = Vec::new();
    let piece = piece.max(1);
    let mut p = piece.max(first_min);
    while p < len {
        cuts.push(p);
        p += piece;
    }
    cuts
}

/// cut set from a bit mask: bit i set = cut after byte i (offset i+1)
/// cut set with long pieces: piece lengths drawn from 8..=160, so that whole pieces lie inside one
/// attribute value, text, comment, ... of moderate length
pub fn big_random_cuts(r: &mut crate::rng::Rng, len: usize, first_min: usize) -> Vec<usize> {
    let mut cuts = Vec::new();
    let mut p = first_min.max(8 + r.below(153));
    while p < len {
        cuts.push(p);
        p += 8 + r.below(153);
    }
    cuts
}

pub fn cuts_from_mask(len: usize, mask: u64) -> Vec<usize> {
    let mut cuts = Vec::new();
    for i in 0..len.saturating_sub(1).min(63) {
        if mask >> i & 1 == 1 {
            cuts.push(i + 1);
        }
    }
    cuts
}

impl<'a> Read for ChunkedRead<'a> {
    fn read(&mut self, buf: &mut [u8]) -> io::Result<usize> {
        let avail = self.fill_buf()?;
        let n = avail.len().min(buf.len());
        buf[..n].copy_from_slice(&avail[..n]);
        self.consume(n);
        Ok(n)
    }
}

impl<'a> BufRead for ChunkedRead<'a> {
    fn fill_buf(&mut self) -> io::Result<&[u8]> {
        if let Some(f) = self.next_fault() {
            return Err(f.to_error());
        }
        let end = self.piece_end();
        Ok(&self.data[self.pos..end])
    }
    fn consume(&mut self, amt: usize) {
        self.pos = (self.pos + amt).min(self.data.len());
    }
}

/// The asynchronous twin, with a script of `Pending` answers.
#[derive(Clone, Debug)]
pub struct AsyncChunked<'a> {
    pub inner: ChunkedRead<'a>,
    /// number of Pending answers before the data starting at a piece boundary
    /// is delivered; indexed by piece number (cyclic)
    pub pending: Vec<u8>,
    pend_left: Option<(usize, u8)>,
    pub pendings_delivered: u64,
}

impl<'a> AsyncChunked<'a> {
    pub fn new(data: &'a [u8], cuts: Vec<usize>, pending: Vec<u8>) -> Self {
        AsyncChunked {
            inner: ChunkedRead::new(data, cuts),
            pending,
            pend_left: None,
            pendings_delivered: 0,
        }
    }
    fn piece_index(&self) -> usize {
        self.inner.cuts.partition_point(|&c| c <= self.inner.pos)
    }
}

impl<'a> AsyncRead for AsyncChunked<'a> {
    fn poll_read(self: Pin<&mut Self>, cx: &mut Context<'_>, buf: &mut ReadBuf<'_>) -> Poll<io::Result<()>> {
        let me = self.get_mut();
        match Pin::new(&mut *me).poll_fill_buf(cx) {
            Poll::Pending => Poll::Pending,
            Poll::Ready(Err(e)) => Poll::Ready(Err(e)),
            Poll::Ready(Ok(avail)) => {
                let n = avail.len().min(buf.remaining());
                buf.put_slice(&avail[..n]);
                me.inner.consume(n);
                Poll::Ready(Ok(()))
            }
        }
    }
}

impl<'a> AsyncBufRead for AsyncChunked<'a> {
    fn poll_fill_buf(self: Pin<&mut Self>, cx: &mut Context<'_>) -> Poll<io::Result<&[u8]>> {
        let me = self.get_mut();
        if !me.pending.is_empty() {
            let pi = me.piece_index();
            let at_piece_start = me.inner.pos == 0 || me.inner.cuts.binary_search(&me.inner.pos).is_ok();
            if at_piece_start {
                let left = match me.pend_left {
                    Some((p, l)) if p == pi => l,
                    _ => me.pending[pi % me.pending.len()],
                };
                if left > 0 {
                    me.pend_left = Some((pi, left - 1));
                    me.pendings_delivered += 1;
                    cx.waker().wake_by_ref();
                    return Poll::Pending;
                }
                me.pend_left = Some((pi, 0));
            }
        }
        if let Some(f) = me.inner.next_fault() {
            return Poll::Ready(Err(f.to_error()));
        }
        let end = me.inner.piece_end();
        Poll::Ready(Ok(&me.inner.data[me.inner.pos..end]))
    }
    fn consume(self: Pin<&mut Self>, amt: usize) {
        let me = self.get_mut();
        me.inner.consume(amt);
    }
}

// ---------------------------------------------------------------------------
// a minimal executor: no runtime, no threads; counts polls and wake-ups
// ---------------------------------------------------------------------------

struct WakeCount(AtomicU64);
impl std::task::Wake for WakeCount {
    fn wake(self: Arc<Self>) {
        self.0.fetch_add(1, Ordering::Relaxed);
    }
    fn wake_by_ref(self: &Arc<Self>) {
        self.0.fetch_add(1, Ordering::Relaxed);
    }
}

/// Polls the future to completion. Returns (output, number of polls).
/// A future that returns Pending without having woken the waker would spin
/// forever in a real executor; here it is reported as `Err` after `max_polls`.
pub fn block_on<F: Future>(fut: F, max_polls: u64) -> Result<(F::Output, u64), String> {
    let wc = Arc::new(WakeCount(AtomicU64::new(0)));
    let waker = Waker::from(wc.clone());
    let mut cx = Context::from_waker(&waker);
    let mut fut = Box::pin(fut);
    let mut polls = 0u64;
    loop {
        polls += 1;
        match fut.as_mut().poll(&mut cx) {
            Poll::Ready(v) => return Ok((v, polls)),
            Poll::Pending => {
                if polls >= max_polls {
                    return Err(format!("future still pending after {} polls", polls));
                }
            }
        }
    }
}

/// `io::Write` sink that records the length before each write (for C19) — plain Vec is enough
/// for most monitors; this one can inject errors.
pub struct VecWrite {
    pub data: Vec<u8>,
}
impl io::Write for VecWrite {
    fn write(&mut self, buf: &[u8]) -> io::Result<usize> {
        self.data.extend_from_slice(buf);
        Ok(buf.len())
    }
    fn flush(&mut self) -> io::Result<()> {
        Ok(())
    }
}

// ---------------------------------------------------------------------------
// sinks
// ---------------------------------------------------------------------------

/// A sink that accepts at most `max` bytes per `write` / `poll_write` call (the contract of
/// `io::Write::write` allows any short count), and answers `Pending` once before every
/// `pending_every`-th asynchronous write. Everything accepted is kept in `out`.
pub struct ShortSink {
    pub out: Vec<u8>,
    pub max: usize,
    pub calls: u64,
    pub short: u64,
    pub pending_every: u64,
    armed: bool,
}
impl ShortSink {
    pub fn new(max: usize) -> Self {
        ShortSink { out: Vec::new(), max: max.max(1), calls: 0, short: 0, pending_every: 0, armed: true }
    }
    pub fn with_pending(max: usize, every: u64) -> Self {
        let mut s = Self::new(max);
        s.pending_every = every;
        s
    }
    fn accept(&mut self, buf: &[u8]) -> usize {
        self.calls += 1;
        let n = buf.len().min(self.max);
        if n < buf.len() {
            self.short += 1;
        }
        self.out.extend_from_slice(&buf[..n]);
        n
    }
}
impl io::Write for ShortSink {
    fn write(&mut self, buf: &[u8]) -> io::Result<usize> {
        Ok(self.accept(buf))
    }
    /// a real vectored write: takes bytes from as many of the buffers as fit into `max`, so a short
    /// count can end inside any of them
    fn write_vectored(&mut self, bufs: &[io::IoSlice<'_>]) -> io::Result<usize> {
        self.calls += 1;
        let total: usize = bufs.iter().map(|b| b.len()).sum();
        let mut left = self.max;
        for b in bufs {
            let n = b.len().min(left);
            self.out.extend_from_slice(&b[..n]);
            left -= n;
            if left == 0 {
                break;
            }
        }
        let n = self.max - left;
        if n < total {
            self.short += 1;
        }
        Ok(n)
    }
    fn flush(&mut self) -> io::Result<()> {
        Ok(())
    }
}
impl tokio::io::AsyncWrite for ShortSink {
    fn poll_write(mut self: Pin<&mut Self>, cx: &mut Context<'_>, buf: &[u8]) -> Poll<io::Result<usize>> {
        if self.pending_every > 0 && self.armed && (self.calls + 1) % self.pending_every == 0 {
            self.armed = false;
            cx.waker().wake_by_ref();
            return Poll::Pending;
        }
        self.armed = true;
        Poll::Ready(Ok(self.accept(buf)))
    }
    fn poll_flush(self: Pin<&mut Self>, _cx: &mut Context<'_>) -> Poll<io::Result<()>> {
        Poll::Ready(Ok(()))
    }
    fn poll_shutdown(self: Pin<&mut Self>, _cx: &mut Context<'_>) -> Poll<io::Result<()>> {
        Poll::Ready(Ok(()))
    }
}

/// A sink whose `fail_at`-th write call (0-based) fails with an I/O error and accepts nothing;
/// every other call accepts everything.
pub struct FailOnceSink {
    pub out: Vec<u8>,
    pub fail_at: u64,
    pub calls: u64,
    pub failed: bool,
}
impl FailOnceSink {
    pub fn new(fail_at: u64) -> Self {
        FailOnceSink { out: Vec::new(), fail_at, calls: 0, failed: false }
    }
}
impl io::Write for FailOnceSink {
    fn write(&mut self, buf: &[u8]) -> io::Result<usize> {
        let i = self.calls;
        self.calls += 1;
        if i == self.fail_at {
            self.failed = true;
            return Err(io::Error::new(io::ErrorKind::Other, "injected sink failure"));
        }
        self.out.extend_from_slice(buf);
        Ok(buf.len())
    }
    fn flush(&mut self) -> io::Result<()> {
        Ok(())
    }
}
