//! Parent process: shards a check over worker processes, merges what they
//! observed, writes the evidence file and prints the verdict.

use crate::ctx::{bitmap_log2, Ctx, Tier};
use serde_json::{json, Value};
use std::collections::BTreeMap;
use std::path::{Path, PathBuf};
use std::process::{Child, Command, Stdio};
use std::time::{Duration, Instant};

/// Miri interprets the harness for this target instead of the host: on x86_64 the dependencies
/// (encoding_rs / simdutf8 / memchr) select SIMD code through `cpuid` inline assembly, which Miri
/// does not support ("unsupported operation", e.g. for any UTF-8 payload of 64 bytes or more).
/// A 64-bit little-endian target without such dispatch makes the same Rust code take its
/// portable paths. The sysroot is built on first use from the installed rust-src (offline, ~20 s).
pub const MIRI_TARGET: &str = "riscv64gc-unknown-linux-gnu";

pub struct PropSpec {
    pub id: &'static str,
    pub level: &'static str,
    pub rule: &'static str,
    pub assumptions: &'static [&'static str],
    /// counters that must be non-zero, otherwise the run is inconclusive
    pub required: &'static [&'static str],
    pub run: fn(&mut Ctx),
    /// re-execute one recorded case; Some(detail) = still violated
    pub replay: fn(&Value, &mut Ctx) -> Option<String>,
    /// extra sanitizer / build layers for the thorough tier: (layer, scale percent)
    pub thorough_layers: &'static [(&'static str, u64)],
    /// extra layers for the quick tier
    pub quick_layers: &'static [(&'static str, u64)],
    /// derive counters from the merged ones (e.g. "all 128 configurations seen")
    pub post: Option<fn(&mut BTreeMap<String, u64>)>,
}

pub const EXIT_HELD: i32 = 0;
pub const EXIT_VIOLATION: i32 = 1;
pub const EXIT_INCONCLUSIVE: i32 = 3;

fn harness_dir() -> PathBuf {
    PathBuf::from(crate::verif_root()).join("harness")
}

struct KnownEntry {
    id: String,
    status: String,
    what: String,
}

fn load_known(prop: &str) -> Vec<KnownEntry> {
    let path = PathBuf::from(crate::verif_root()).join("known_findings.json");
    let mut out = Vec::new();
    if let Ok(text) = std::fs::read_to_string(&path) {
        if let Ok(v) = serde_json::from_str::<Value>(&text) {
            if let Some(arr) = v.get("findings").and_then(|a| a.as_array()) {
                for e in arr {
                    if e.get("property").and_then(|p| p.as_str()) == Some(prop) {
                        out.push(KnownEntry {
                            id: e["id"].as_str().unwrap_or("").to_string(),
                            status: e["status"].as_str().unwrap_or("").to_string(),
                            what: e["what"].as_str().unwrap_or("").to_string(),
                        });
                    }
                }
            }
        }
    }
    out
}

pub fn known_active_for(prop: &str) -> BTreeMap<String, String> {
    load_known(prop)
        .into_iter()
        .filter(|e| e.status == "known")
        .map(|e| (e.id, e.what))
        .collect()
}

fn run_cmd(mut c: Command, what: &str) -> Result<(), String> {
    let out = c
        .stdin(Stdio::null())
        .output()
        .map_err(|e| format!("{}: cannot start: {}", what, e))?;
    if !out.status.success() {
        let mut s = String::from_utf8_lossy(&out.stderr).to_string();
        if s.len() > 3000 {
            s = s[s.len() - 3000..].to_string();
        }
        return Err(format!("{} failed ({}): {}", what, out.status, s));
    }
    Ok(())
}

/// Build (if needed) and return the command prefix that runs a worker in `layer`.
fn layer_command(layer: &str) -> Result<Vec<String>, String> {
    let h = harness_dir();
    match layer {
        "primary" => Ok(vec![std::env::current_exe()
            .map_err(|e| e.to_string())?
            .to_string_lossy()
            .to_string()]),
        "plain" => {
            let mut c = Command::new("cargo");
            c.current_dir(&h)
                .args(["build", "--profile", "plain", "--offline", "-q"])
                .env("CARGO_NET_OFFLINE", "true");
            run_cmd(c, "cargo build --profile plain")?;
            Ok(vec![h.join("target/plain/qxcheck").to_string_lossy().to_string()])
        }
        "novl" => {
            // the harness without quick-xml's overlapped-lists feature
            let mut c = Command::new("cargo");
            c.current_dir(&h)
                .args(["build", "--release", "--offline", "-q", "--no-default-features", "--target-dir", "target-novl"])
                .env("CARGO_NET_OFFLINE", "true");
            run_cmd(c, "cargo build --no-default-features (novl)")?;
            Ok(vec![h.join("target-novl/release/qxcheck").to_string_lossy().to_string()])
        }
        "asan" => {
            let mut c = Command::new("cargo");
            c.current_dir(&h)
                .args([
                    "+nightly",
                    "build",
                    "--release",
                    "--offline",
                    "-q",
                    "--target",
                    "x86_64-unknown-linux-gnu",
                    "--target-dir",
                    "target-asan",
                ])
                .env("CARGO_NET_OFFLINE", "true")
                .env("RUSTFLAGS", "-Zsanitizer=address -Cforce-frame-pointers=yes");
            run_cmd(c, "cargo +nightly build (asan)")?;
            Ok(vec![h
                .join("target-asan/x86_64-unknown-linux-gnu/release/qxcheck")
                .to_string_lossy()
                .to_string()])
        }
        "valgrind" => {
            // plain-release binary under memcheck
            let plain = layer_command("plain")?;
            Ok(vec![
                "valgrind".into(),
                "-q".into(),
                "--error-exitcode=97".into(),
                "--leak-check=no".into(),
                plain[0].clone(),
            ])
        }
        "miri" => {
            // build once so that the parallel `miri run`s do not race on the build
            let mut c = Command::new("cargo");
            c.current_dir(&h)
                .args([
                    "+nightly", "miri", "run", "--offline", "-q", "--target", MIRI_TARGET, "--target-dir", "target-miri", "--bin",
                    "qxcheck", "--", "--noop",
                ])
                .env("CARGO_NET_OFFLINE", "true")
                .env("MIRIFLAGS", "-Zmiri-disable-isolation");
            run_cmd(c, "cargo +nightly miri run (warm-up build)")?;
            Ok(vec![
                "cargo".into(),
                "+nightly".into(),
                "miri".into(),
                "run".into(),
                "--offline".into(),
                "-q".into(),
                "--target".into(),
                MIRI_TARGET.into(),
                "--target-dir".into(),
                "target-miri".into(),
                "--bin".into(),
                "qxcheck".into(),
                "--".into(),
            ])
        }
        other => Err(format!("unknown layer {}", other)),
    }
}

struct Worker {
    shard: u32,
    layer: String,
    out: PathBuf,
    child: Child,
    log: PathBuf,
}

#[derive(Default)]
struct Merged {
    evaluations: u64,
    counters: BTreeMap<String, u64>,
    samples: Vec<Value>,
    violations: Vec<Value>,
    known_hits: BTreeMap<String, u64>,
    exhaustive_parts: Vec<String>,
    bitmap: Vec<u64>,
    inconclusive: Vec<String>,
    layer_evals: BTreeMap<String, u64>,
}

fn spawn_worker(
    prefix: &[String],
    spec_id: &str,
    tier: Tier,
    seed: u64,
    shard: u32,
    nshards: u32,
    layer: &str,
    scale: u64,
    out: &Path,
    journal: Option<&Path>,
) -> Result<Child, String> {
    let mut c = Command::new(&prefix[0]);
    c.args(&prefix[1..]);
    c.current_dir(harness_dir());
    c.args([
        "--worker",
        spec_id,
        tier.name(),
        &seed.to_string(),
        &shard.to_string(),
        &nshards.to_string(),
        &out.to_string_lossy(),
        layer,
        &scale.to_string(),
    ]);
    if let Some(j) = journal {
        c.arg(j.to_string_lossy().to_string());
    }
    c.env("CARGO_NET_OFFLINE", "true");
    c.env("VERIF_ROOT", crate::verif_root());
    if layer == "miri" {
        c.env("MIRIFLAGS", "-Zmiri-disable-isolation");
    }
    if layer == "asan" {
        c.env(
            "ASAN_OPTIONS",
            "halt_on_error=1:abort_on_error=0:detect_leaks=1:exitcode=98",
        );
    }
    let log = std::fs::File::create(out.with_extension("log")).map_err(|e| e.to_string())?;
    let log2 = log.try_clone().map_err(|e| e.to_string())?;
    c.stdin(Stdio::null()).stdout(log).stderr(log2);
    c.spawn().map_err(|e| format!("spawn {:?}: {}", prefix, e))
}

fn tail(path: &Path, n: usize) -> String {
    let s = std::fs::read_to_string(path).unwrap_or_default();
    let lines: Vec<&str> = s.lines().collect();
    let start = lines.len().saturating_sub(n);
    lines[start..].join("\n")
}

fn merge_output(m: &mut Merged, out: &Path, layer: &str) -> Result<(), String> {
    let text = std::fs::read_to_string(out).map_err(|e| format!("{}: {}", out.display(), e))?;
    let v: Value = serde_json::from_str(&text).map_err(|e| e.to_string())?;
    let ev = v["evaluations"].as_u64().unwrap_or(0);
    m.evaluations += ev;
    *m.layer_evals.entry(layer.to_string()).or_insert(0) += ev;
    if let Some(c) = v["counters"].as_object() {
        for (k, n) in c {
            let key = if layer == "primary" {
                k.clone()
            } else {
                format!("layer.{}.{}", layer, k)
            };
            let n = n.as_u64().unwrap_or(0);
            let e = m.counters.entry(key).or_insert(0);
            // max-type counters are prefixed "max." and are merged by max
            if k.starts_with("max.") {
                *e = (*e).max(n);
            } else {
                *e += n;
            }
        }
    }
    if let Some(s) = v["samples"].as_array() {
        for x in s {
            m.samples.push(x.clone());
        }
    }
    if let Some(s) = v["violations"].as_array() {
        for x in s {
            m.violations.push(x.clone());
        }
    }
    if let Some(c) = v["known_hits"].as_object() {
        for (k, n) in c {
            *m.known_hits.entry(k.clone()).or_insert(0) += n.as_u64().unwrap_or(0);
        }
    }
    if let Some(s) = v["exhaustive_parts"].as_array() {
        for x in s {
            let x = x.as_str().unwrap_or("").to_string();
            if layer == "primary" && !m.exhaustive_parts.contains(&x) {
                m.exhaustive_parts.push(x);
            }
        }
    }
    if let Some(p) = v["bitmap"].as_str() {
        if let Ok(bytes) = std::fs::read(p) {
            if m.bitmap.is_empty() {
                m.bitmap = vec![0u64; bytes.len() / 8];
            }
            for (i, ch) in bytes.chunks_exact(8).enumerate() {
                if i < m.bitmap.len() {
                    m.bitmap[i] |= u64::from_le_bytes(ch.try_into().unwrap());
                }
            }
        }
        let _ = std::fs::remove_file(p);
    }
    Ok(())
}

pub fn run_check(spec: &PropSpec, tier: Tier) -> i32 {
    let t0 = Instant::now();
    let seed: u64 = std::env::var("VERIF_SEED")
        .ok()
        .and_then(|s| s.trim().parse::<i64>().ok())
        .map(|v| v as u64)
        .unwrap_or(0);
    let known = load_known(spec.id);
    let ncpu = std::thread::available_parallelism()
        .map(|n| n.get())
        .unwrap_or(4)
        .min(16) as u32;
    let nshards: u32 = std::env::var("VERIF_SHARDS")
        .ok()
        .and_then(|s| s.parse().ok())
        .unwrap_or(ncpu)
        .max(1);
    let scratch = harness_dir()
        .join("target")
        .join("scratch")
        .join(format!("{}-{}-{}", spec.id, tier.name(), std::process::id()));
    let _ = std::fs::remove_dir_all(&scratch);
    std::fs::create_dir_all(&scratch).expect("scratch dir");
    // stale replays of this property are removed: a replay file always belongs to the run that wrote it
    let rdir = PathBuf::from(crate::verif_root()).join("replays").join(spec.id);
    let _ = std::fs::remove_dir_all(&rdir);

    let mut merged = Merged::default();
    let mut layers: Vec<(&str, u64)> = vec![("primary", 100)];
    let extra = match tier {
        Tier::Quick => spec.quick_layers,
        Tier::Thorough => spec.thorough_layers,
    };
    let skip_layers = std::env::var("VERIF_SKIP_LAYERS").unwrap_or_default();
    for l in extra {
        if !skip_layers.split(',').any(|s| s == l.0) {
            layers.push(*l);
        }
    }

    let watchdog = Duration::from_secs(match tier {
        Tier::Quick => 40 * 60,
        Tier::Thorough => 6 * 3600,
    });

    let mut layer_notes: BTreeMap<String, Value> = BTreeMap::new();
    for (layer, scale) in layers {
        let lt0 = Instant::now();
        if layer == "fuzz" {
            run_fuzz_layer(spec, tier, seed, scale, &scratch, &mut merged, &mut layer_notes);
            continue;
        }
        let prefix = match layer_command(layer) {
            Ok(p) => p,
            Err(e) => {
                merged.inconclusive.push(format!("layer {} unavailable: {}", layer, e));
                continue;
            }
        };
        let mut workers: Vec<Worker> = Vec::new();
        for shard in 0..nshards {
            let out = scratch.join(format!("{}-{}.json", layer, shard));
            match spawn_worker(&prefix, spec.id, tier, seed, shard, nshards, layer, scale, &out, None) {
                Ok(child) => workers.push(Worker {
                    shard,
                    layer: layer.to_string(),
                    log: out.with_extension("log"),
                    out,
                    child,
                }),
                Err(e) => merged.inconclusive.push(format!("cannot start worker: {}", e)),
            }
        }
        let deadline = Instant::now() + watchdog;
        let mut triaged = 0u32;
        for mut w in workers {
            // wait with watchdog
            let status = loop {
                match w.child.try_wait() {
                    Ok(Some(st)) => break Some(st),
                    Ok(None) => {
                        if Instant::now() > deadline {
                            let _ = w.child.kill();
                            let _ = w.child.wait();
                            break None;
                        }
                        std::thread::sleep(Duration::from_millis(20));
                    }
                    Err(_) => break None,
                }
            };
            match status {
                None => merged.inconclusive.push(format!(
                    "watchdog fired for layer {} shard {}",
                    w.layer, w.shard
                )),
                Some(st) if st.success() => {
                    if let Err(e) = merge_output(&mut merged, &w.out, &w.layer) {
                        merged.inconclusive.push(format!(
                            "layer {} shard {}: unreadable output: {}",
                            w.layer, w.shard, e
                        ));
                    }
                }
                Some(st) => {
                    // The worker died (abort, signal, sanitizer report, tool error).
                    let logtail = tail(&w.log, 30);
                    let code = st.code();
                    let sanitizer_report = (w.layer == "asan" && (code == Some(98) || logtail.contains("AddressSanitizer")))
                        || (w.layer == "valgrind" && code == Some(97))
                        || (w.layer == "miri" && logtail.contains("Undefined Behavior"));
                    // Miri stopped at something it cannot interpret (inline assembly, foreign call):
                    // a limit of the tool, neither a violation nor a verdict on the rest of the shard
                    if w.layer == "miri" && std::fs::read_to_string(&w.log).map(|t| t.contains("error: unsupported operation")).unwrap_or(false) {
                        *merged.counters.entry("layer.miri.shards_stopped_at_unsupported_operation".into()).or_insert(0) += 1;
                        eprintln!("note: Miri shard {} stopped at an operation Miri does not support; log tail:\n{}", w.shard, logtail);
                        continue;
                    }
                    // Re-running a shard in journal mode is slow (a stall needs 90 s to show again): after two
                    // deaths have been pinned to their cases, further dead workers of the same layer are
                    // counted, not triaged
                    if triaged >= 2 {
                        *merged.counters.entry(format!("layer.{}.workers_died_not_triaged", w.layer)).or_insert(0) += 1;
                        continue;
                    }
                    triaged += 1;
                    // triage: re-run this shard in journal mode to find the case
                    let jpath = scratch.join(format!("{}-{}.journal", w.layer, w.shard));
                    let out2 = scratch.join(format!("{}-{}-j.json", w.layer, w.shard));
                    let mut reproduced: Option<Value> = None;
                    if let Ok(mut ch) = spawn_worker(
                        &prefix, spec.id, tier, seed, w.shard, nshards, &w.layer, scale, &out2, Some(&jpath),
                    ) {
                        let st2 = ch.wait().ok();
                        if st2.map(|s| !s.success()).unwrap_or(false) {
                            if let Ok(t) = std::fs::read_to_string(&jpath) {
                                if let Ok(v) = serde_json::from_str::<Value>(&t) {
                                    reproduced = Some(v);
                                }
                            }
                        } else if st2.is_some() {
                            // second run succeeded: not reproducible; use its output
                            let _ = merge_output(&mut merged, &out2, &w.layer);
                        }
                    }
                    match reproduced {
                        Some(case) => {
                            // write a replay and count as violation
                            let mut c = Ctx::new(spec.id, tier, seed, w.shard, nshards);
                            c.layer = w.layer.clone();
                            c.violation(
                                case,
                                if code == Some(crate::ctx::EXIT_STALL) {
                                    format!("this case did not return: the worker made no progress for 30 s, and again for 90 s when the shard was re-run in journal mode (stall detector, exit status 77); log tail:\n{}", logtail)
                                } else {
                                    // an allocation failure under the address-space cap aborts the worker
                                    let oom = std::fs::read_to_string(&w.log)
                                        .ok()
                                        .and_then(|t| t.lines().find(|l| l.starts_with("memory allocation of ")).map(|l| l.to_string()));
                                    format!(
                                        "worker process died ({}{}{}) while executing this case; log tail:\n{}",
                                        st,
                                        if sanitizer_report { ", sanitizer report" } else { "" },
                                        match &oom {
                                            Some(l) => format!(", \"{}\": the case allocates without bound (address space of a worker is capped, VERIF_MEM_LIMIT_MB, default 4096)", l),
                                            None => String::new(),
                                        },
                                        logtail
                                    )
                                },
                            );
                            merged.violations.extend(c.violations);
                        }
                        None => merged.inconclusive.push(format!(
                            "layer {} shard {} died ({}) and the death was not reproducible in journal mode; log tail:\n{}",
                            w.layer, w.shard, st, logtail
                        )),
                    }
                }
            }
        }
        layer_notes.insert(
            layer.to_string(),
            json!({"scale_pct": scale, "wall_s": lt0.elapsed().as_secs_f64(),
                   "evaluations": merged.layer_evals.get(layer).copied().unwrap_or(0)}),
        );
    }

    if let Some(post) = spec.post {
        post(&mut merged.counters);
    }
    // required observations
    for r in spec.required {
        // a requirement "a|b" is met if any alternative is non-zero; "prefix*" sums over a prefix
        let ok = r.split('|').any(|alt| {
            if let Some(p) = alt.strip_suffix('*') {
                merged.counters.iter().any(|(k, v)| k.starts_with(p) && *v > 0)
            } else {
                merged.counters.get(alt).copied().unwrap_or(0) > 0
            }
        });
        if !ok {
            merged
                .inconclusive
                .push(format!("required observation counter '{}' is zero", r));
        }
    }

    let distinct: u64 = merged.bitmap.iter().map(|w| w.count_ones() as u64).sum();
    if distinct < 2 {
        merged
            .inconclusive
            .push("fewer than 2 distinct non-trivial cases were observed".into());
    }

    // keep a bounded, deterministic selection of samples
    let mut samples = merged.samples.clone();
    if samples.len() > 16 {
        let step = samples.len() / 16;
        samples = samples.into_iter().step_by(step.max(1)).take(16).collect();
    }

    let wall = t0.elapsed().as_secs_f64();
    let mut known_out: BTreeMap<String, Value> = BTreeMap::new();
    for k in &known {
        known_out.insert(
            k.id.clone(),
            json!({"status": k.status, "what": k.what,
                   "hits_this_run": merged.known_hits.get(&k.id).copied().unwrap_or(0)}),
        );
    }
    let verdict = if !merged.violations.is_empty() {
        "violated"
    } else if !merged.inconclusive.is_empty() {
        "inconclusive"
    } else {
        "held_on_observed"
    };
    let evidence = json!({
        "property_id": spec.id,
        "tier": tier.name(),
        "seed": seed as i64,
        "level": spec.level,
        "coverage": {
            "evaluations": merged.evaluations,
            "distinct_nontrivial": distinct,
            "rule": format!("{} [distinct_nontrivial is a lower bound: number of bits set in a 2^{}-bit bitmap indexed by a 64-bit hash of the whole case (input bytes + configuration + schedule), set only for cases that satisfy the non-triviality rule]", spec.rule, bitmap_log2(tier)),
            "samples": samples,
            "exhaustive": !merged.exhaustive_parts.is_empty(),
            "exhaustive_parts": merged.exhaustive_parts,
            "observed": merged.counters,
            "layers": layer_notes,
            "known_findings": known_out,
            "verdict": verdict,
            "inconclusive_reasons": merged.inconclusive,
            "workers": nshards,
        },
        "assumptions": spec.assumptions,
        "wall_s": wall,
        "violations": merged.violations.len(),
    });
    let edir = PathBuf::from(crate::verif_root()).join("evidence");
    let _ = std::fs::create_dir_all(&edir);
    std::fs::write(
        edir.join(format!("{}.json", spec.id)),
        serde_json::to_string_pretty(&evidence).unwrap(),
    )
    .expect("write evidence");
    let _ = std::fs::remove_dir_all(&scratch);

    println!(
        "{} {}: {} evaluations, {} distinct non-trivial (lower bound), {:.1}s, seed {}",
        spec.id,
        tier.name(),
        merged.evaluations,
        distinct,
        wall,
        seed
    );
    for (k, n) in &merged.known_hits {
        if *n > 0 {
            let what = known
                .iter()
                .find(|e| &e.id == k)
                .map(|e| e.what.clone())
                .unwrap_or_default();
            println!("KNOWN-FINDING: property={} {} {} (matched {} times in this run)", spec.id, k, what, n);
        }
    }
    if !merged.violations.is_empty() {
        for v in &merged.violations {
            println!(
                "VIOLATION property={} replay={}",
                spec.id,
                v["replay"].as_str().unwrap_or("?")
            );
            let d = v["detail"].as_str().unwrap_or("");
            let d: String = d.chars().take(600).collect();
            println!("  detail: {}", d.replace('\n', "\n          "));
        }
        return EXIT_VIOLATION;
    }
    if !merged.inconclusive.is_empty() {
        for r in &merged.inconclusive {
            println!("INCONCLUSIVE property={} reason={}", spec.id, r);
        }
        return EXIT_INCONCLUSIVE;
    }
    println!("HELD property={} on everything observed", spec.id);
    EXIT_HELD
}

/// Coverage-guided layer: the monitor of this property as a libFuzzer target (fuzz/fuzz_targets/fz_<id>.rs),
/// run for `secs` seconds on 16 forks. A saved crash input is replayed through the monitor's own
/// oracle; if it reproduces it is a violation, otherwise (timeouts, OOMs, flaky) inconclusive.
fn run_fuzz_layer(
    spec: &PropSpec,
    tier: Tier,
    seed: u64,
    secs: u64,
    scratch: &Path,
    merged: &mut Merged,
    notes: &mut BTreeMap<String, Value>,
) {
    let t0 = Instant::now();
    let h = harness_dir();
    let target = format!("fz_{}", spec.id.to_lowercase());
    let corpus = h.join("fuzz").join("corpus").join(&target);
    let _ = std::fs::create_dir_all(&corpus);
    crate::monitors::write_fuzz_seeds(spec.id, &corpus);
    let art = scratch.join("fuzz-artifacts");
    let _ = std::fs::create_dir_all(&art);
    let mut c = Command::new("cargo");
    c.current_dir(&h)
        .args(["+nightly", "fuzz", "run", "--fuzz-dir", "fuzz", &target, "--"])
        .arg(format!("-max_total_time={}", secs))
        .arg("-timeout=10")
        .arg(format!("-seed={}", (seed % 0x7FFF_FFFF) + 1))
        .arg("-fork=16")
        .arg("-print_final_stats=1")
        .arg(format!("-artifact_prefix={}/", art.display()))
        .env("CARGO_NET_OFFLINE", "true")
        .env("VERIF_ROOT", crate::verif_root())
        .stdin(Stdio::null());
    let out = match c.output() {
        Ok(o) => o,
        Err(e) => {
            merged.inconclusive.push(format!("fuzz layer: cannot start cargo fuzz: {}", e));
            return;
        }
    };
    let text = format!("{}{}", String::from_utf8_lossy(&out.stdout), String::from_utf8_lossy(&out.stderr));
    // last status line: "#N: cov: C ft: F corp: K ..."
    let (mut execs, mut cov, mut corp) = (0u64, 0u64, 0u64);
    for l in text.lines() {
        if l.starts_with('#') && l.contains(" cov: ") {
            let num = |key: &str| -> u64 {
                l.split(key).nth(1).and_then(|r| r.split_whitespace().next()).and_then(|x| x.parse().ok()).unwrap_or(0)
            };
            execs = l[1..].split(':').next().and_then(|x| x.trim().parse().ok()).unwrap_or(execs);
            cov = num(" cov: ");
            corp = num(" corp: ");
        }
    }
    *merged.counters.entry("layer.fuzz.executions".into()).or_insert(0) += execs;
    let e = merged.counters.entry("max.layer.fuzz.coverage_edges".into()).or_insert(0);
    *e = (*e).max(cov);
    *merged.counters.entry("layer.fuzz.corpus_inputs".into()).or_insert(0) += corp;
    merged.evaluations += execs;
    *merged.layer_evals.entry("fuzz".into()).or_insert(0) += execs;
    // artifacts
    let mut found = 0;
    if let Ok(rd) = std::fs::read_dir(&art) {
        for ent in rd.flatten() {
            let name = ent.file_name().to_string_lossy().to_string();
            let bytes = match std::fs::read(ent.path()) {
                Ok(b) => b,
                Err(_) => continue,
            };
            found += 1;
            let case = json!({"fuzz": crate::ctx::hex(&bytes), "fuzz_target": target, "artifact": name});
            let mut ctx = Ctx::new(spec.id, tier, seed, 0, 1);
            ctx.layer = "fuzz".into();
            ctx.known_active = known_active_for(spec.id);
            let verdict = crate::ctx::guarded(|| (spec.replay)(&case, &mut ctx));
            let detail = match verdict {
                Ok(Some(d)) => Some(d),
                Err(p) => Some(p),
                Ok(None) => None,
            };
            match detail {
                Some(d) if name.starts_with("crash") => {
                    ctx.violation(case, format!("found by the libFuzzer layer ({}): {}", name, d));
                    merged.violations.extend(ctx.violations);
                }
                _ => merged.inconclusive.push(format!("fuzz layer: artifact {} did not reproduce as a violation through the monitor", name)),
            }
        }
    }
    if !out.status.success() && found == 0 {
        let tailtxt: Vec<&str> = text.lines().rev().take(12).collect();
        merged.inconclusive.push(format!("fuzz layer: cargo fuzz exited with {} and left no artifact; tail: {}", out.status, tailtxt.into_iter().rev().collect::<Vec<_>>().join(" | ")));
    }
    if execs == 0 && out.status.success() {
        merged.inconclusive.push("fuzz layer: no executions reported".into());
    }
    notes.insert(
        "fuzz".into(),
        json!({"target": target, "seconds": secs, "wall_s": t0.elapsed().as_secs_f64(), "executions": execs, "coverage_edges": cov, "corpus_inputs": corp, "artifacts": found}),
    );
}

pub fn run_replay(specs: &[PropSpec], path: &str) -> i32 {
    let text = match std::fs::read_to_string(path) {
        Ok(t) => t,
        Err(e) => {
            println!("cannot read {}: {}", path, e);
            return 2;
        }
    };
    let v: Value = match serde_json::from_str(&text) {
        Ok(v) => v,
        Err(e) => {
            println!("bad replay file: {}", e);
            return 2;
        }
    };
    let prop = v["property"].as_str().unwrap_or("");
    let spec = match specs.iter().find(|s| s.id == prop) {
        Some(s) => s,
        None => {
            println!("unknown property {}", prop);
            return 2;
        }
    };
    let mut ctx = Ctx::new(prop, Tier::Quick, v["seed"].as_u64().unwrap_or(0), 0, 1);
    ctx.known_active = known_active_for(prop);
    let r = crate::ctx::guarded(|| (spec.replay)(&v["case"], &mut ctx));
    match r {
        Ok(None) => {
            println!("replay: property {} holds on this case now", prop);
            0
        }
        Ok(Some(d)) => {
            println!("VIOLATION property={} replay={}", prop, path);
            println!("  detail: {}", d);
            1
        }
        Err(p) => {
            println!("VIOLATION property={} replay={}", prop, path);
            println!("  detail: {}", p);
            1
        }
    }
}
