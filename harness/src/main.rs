//! qxcheck — runtime monitors for the quick-xml properties C01..C20.
//!
//!   qxcheck run <ID> <quick|thorough>      parent: shard, merge, evidence, verdict
//!   qxcheck replay <path>                  re-execute one recorded case
//!   qxcheck --worker ...                   (internal)

use qxverif::ctx::{self, Ctx, Tier};
use qxverif::{monitors, runner};

fn parse_tier(s: &str) -> Tier {
    match s {
        "thorough" => Tier::Thorough,
        _ => Tier::Quick,
    }
}

/// Caps the address space of this process, so that a case which allocates without bound ends
/// in an allocation failure (abort) of this worker, which the parent triages like any other
/// death, instead of exhausting the machine. Not for the sanitizer / interpreter layers,
/// which reserve huge address ranges themselves.
#[cfg(all(unix, not(miri)))]
fn cap_memory(layer: &str) {
    if layer != "primary" && layer != "plain" {
        return;
    }
    let mb: u64 = std::env::var("VERIF_MEM_LIMIT_MB").ok().and_then(|v| v.parse().ok()).unwrap_or(4096);
    if mb == 0 {
        return;
    }
    #[repr(C)]
    struct RLimit {
        cur: u64,
        max: u64,
    }
    extern "C" {
        fn setrlimit(resource: i32, rlim: *const RLimit) -> i32;
    }
    const RLIMIT_AS: i32 = 9;
    let l = RLimit { cur: mb << 20, max: mb << 20 };
    unsafe {
        setrlimit(RLIMIT_AS, &l);
    }
}
#[cfg(not(all(unix, not(miri))))]
fn cap_memory(_layer: &str) {}

fn main() {
    let args: Vec<String> = std::env::args().collect();
    let specs = monitors::registry();
    if args.len() >= 2 && args[1] == "--noop" {
        return;
    }
    if args.len() >= 10 && args[1] == "--worker" {
        // --worker ID tier seed shard nshards out layer scale [journal]
        ctx::install_panic_hook();
        let id = &args[2];
        let tier = parse_tier(&args[3]);
        let seed: u64 = args[4].parse().unwrap_or(0);
        let shard: u32 = args[5].parse().unwrap_or(0);
        let nshards: u32 = args[6].parse().unwrap_or(1);
        let out = &args[7];
        let spec = specs.iter().find(|s| s.id == id).expect("unknown property");
        let mut c = Ctx::new(id, tier, seed, shard, nshards);
        c.layer = args[8].clone();
        c.scale_pct = args[9].parse().unwrap_or(100);
        c.known_active = runner::known_active_for(id);
        cap_memory(&c.layer);
        if c.layer != "primary" {
            c.disable_distinct_tracking();
        }
        if let Some(j) = args.get(10) {
            c.journal = std::fs::OpenOptions::new()
                .create(true)
                .write(true)
                .truncate(true)
                .open(j)
                .ok();
        }
        // a case that does not return: 30 s without progress (90 s when re-run in journal mode)
        if c.layer != "miri" && c.layer != "valgrind" {
            ctx::start_stall_detector(c.tick.clone(), if c.journal.is_some() { 90 } else { 30 });
        }
        (spec.run)(&mut c);
        c.write_worker_output(out);
        return;
    }
    if args.len() >= 4 && args[1] == "run" {
        let spec = match specs.iter().find(|s| s.id == args[2]) {
            Some(s) => s,
            None => {
                eprintln!("unknown property {}", args[2]);
                std::process::exit(2);
            }
        };
        let tier = match std::env::var("VERIF_TIER") {
            Ok(t) if args.len() < 4 => parse_tier(&t),
            _ => parse_tier(&args[3]),
        };
        std::process::exit(runner::run_check(spec, tier));
    }
    if args.len() >= 3 && args[1] == "replay" {
        ctx::install_panic_hook();
        cap_memory("primary");
        std::process::exit(runner::run_replay(&specs, &args[2]));
    }
    if args.len() >= 2 && args[1] == "list" {
        for s in &specs {
            println!("{}", s.id);
        }
        return;
    }
    eprintln!("usage: qxcheck run <ID> <quick|thorough> | replay <path> | list");
    std::process::exit(2);
}
