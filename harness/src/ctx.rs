//! Per-worker monitor context: observation counters, distinct-case bitmap,
//! sample reservoir, violation / known-finding recording, panic capture.

use crate::rng::{Rng, H};
use serde_json::{json, Value};
use std::cell::RefCell;
use std::collections::BTreeMap;
use std::io::Write;
use std::panic::{self, AssertUnwindSafe};
use std::path::PathBuf;

#[derive(Clone, Copy, PartialEq, Eq, Debug)]
pub enum Tier {
    Quick,
    Thorough,
}
impl Tier {
    pub fn name(self) -> &'static str {
        match self {
            Tier::Quick => "quick",
            Tier::Thorough => "thorough",
        }
    }
    /// pick by tier
    pub fn pick<T>(self, quick: T, thorough: T) -> T {
        match self {
            Tier::Quick => quick,
            Tier::Thorough => thorough,
        }
    }
}

/// log2 of the number of bits in the distinct-case bitmap.
pub const BITMAP_LOG2: u32 = 27;
/// thorough runs judge up to ~10^9 cases; a larger bitmap keeps the lower bound meaningful
pub const BITMAP_LOG2_THOROUGH: u32 = 30;
pub fn bitmap_log2(tier: Tier) -> u32 {
    match tier {
        Tier::Quick => BITMAP_LOG2,
        Tier::Thorough => BITMAP_LOG2_THOROUGH,
    }
}

pub struct Ctx {
    pub prop: String,
    pub tier: Tier,
    pub seed: u64,
    pub shard: u32,
    pub nshards: u32,
    /// scale factor for workload sizes (percent); used by sanitizer layers to shrink
    pub scale_pct: u64,
    /// which build layer this worker runs in ("primary", "plain", "miri", "asan", "valgrind")
    pub layer: String,
    pub counters: BTreeMap<String, u64>,
    pub evaluations: u64,
    bitmap: Vec<u64>,
    pub samples: Vec<Value>,
    sample_seen: u64,
    sample_rng: Rng,
    pub violations: Vec<Value>,
    pub known_hits: BTreeMap<String, u64>,
    pub known_active: BTreeMap<String, String>,
    pub exhaustive_parts: Vec<String>,
    pub journal: Option<std::fs::File>,
    pub max_violations: usize,
    pub replay_dir: PathBuf,
    /// progress counter watched by the stall detector thread
    pub tick: std::sync::Arc<std::sync::atomic::AtomicU64>,
}

pub const MAX_SAMPLES: usize = 12;

impl Ctx {
    pub fn new(prop: &str, tier: Tier, seed: u64, shard: u32, nshards: u32) -> Ctx {
        Ctx {
            prop: prop.to_string(),
            tier,
            seed,
            shard,
            nshards,
            scale_pct: 100,
            layer: "primary".into(),
            counters: BTreeMap::new(),
            evaluations: 0,
            bitmap: vec![0u64; 1usize << (bitmap_log2(tier) - 6)],
            samples: Vec::new(),
            sample_seen: 0,
            sample_rng: Rng::derive(seed, prop, shard, 0x5A),
            violations: Vec::new(),
            known_hits: BTreeMap::new(),
            known_active: BTreeMap::new(),
            exhaustive_parts: Vec::new(),
            journal: None,
            max_violations: 5,
            replay_dir: PathBuf::from(crate::verif_root()).join("replays").join(prop),
            tick: std::sync::Arc::new(std::sync::atomic::AtomicU64::new(0)),
        }
    }

    pub fn rng(&self, stream: u64) -> Rng {
        Rng::derive(self.seed, &self.prop, self.shard, stream)
    }
    /// seed-independent rng (for deterministic pools)
    pub fn fixed_rng(&self, stream: u64) -> Rng {
        Rng::derive(0, &self.prop, 0, stream)
    }

    /// Scale a planned workload size by the layer's scale factor.
    pub fn scaled(&self, n: u64) -> u64 {
        (n.saturating_mul(self.scale_pct) / 100).max(1)
    }

    /// true iff index `i` of a partitioned enumeration belongs to this shard
    #[inline]
    pub fn owns(&self, i: u64) -> bool {
        (i % self.nshards as u64) == self.shard as u64
    }

    #[inline]
    pub fn count(&mut self, key: &str) {
        self.add(key, 1)
    }
    #[inline]
    pub fn add(&mut self, key: &str, n: u64) {
        if n == 0 {
            // still create the key so that the evidence shows a zero
            if !self.counters.contains_key(key) {
                self.counters.insert(key.to_string(), 0);
            }
            return;
        }
        if let Some(v) = self.counters.get_mut(key) {
            *v += n;
        } else {
            self.counters.insert(key.to_string(), n);
        }
    }
    pub fn max(&mut self, key: &str, n: u64) {
        let e = self.counters.entry(key.to_string()).or_insert(0);
        if n > *e {
            *e = n;
        }
    }

    /// Record one judged execution. `hash` identifies the full case.
    #[inline]
    pub fn eval(&mut self, hash: u64, nontrivial: bool) {
        self.evaluations += 1;
        self.tick.fetch_add(1, std::sync::atomic::Ordering::Relaxed);
        if nontrivial && self.bitmap.len() > 1 {
            let bit = hash >> (64 - bitmap_log2(self.tier));
            self.bitmap[(bit >> 6) as usize] |= 1u64 << (bit & 63);
        }
    }
    /// Record executions that are judged together with an already recorded case
    #[inline]
    pub fn eval_more(&mut self, n: u64) {
        self.evaluations += n;
    }

    /// Reservoir-sample a case for the evidence file; the closure is only
    /// called when the case is kept.
    #[inline]
    pub fn sample(&mut self, f: impl FnOnce() -> Value) {
        self.sample_seen += 1;
        if self.samples.len() < MAX_SAMPLES {
            self.samples.push(f());
        } else {
            // cheap test first
            let r = self.sample_rng.next();
            if (r % self.sample_seen) < MAX_SAMPLES as u64 {
                let slot = (r >> 32) as usize % MAX_SAMPLES;
                self.samples[slot] = f();
            }
        }
    }

    pub fn exhaustive(&mut self, part: &str) {
        if !self.exhaustive_parts.iter().any(|p| p == part) {
            self.exhaustive_parts.push(part.to_string());
        }
    }

    pub fn is_known(&self, id: &str) -> bool {
        self.known_active.contains_key(id)
    }
    pub fn known_hit(&mut self, id: &str) {
        *self.known_hits.entry(id.to_string()).or_insert(0) += 1;
    }

    pub fn full(&self) -> bool {
        self.violations.len() >= self.max_violations
    }

    /// Report a violation. `case` must be what `replay` of this property understands.
    pub fn violation(&mut self, case: Value, detail: String) {
        if self.full() {
            return;
        }
        let body = json!({
            "property": self.prop,
            "tier": self.tier.name(),
            "seed": self.seed,
            "layer": self.layer,
            "case": case,
            "detail": detail,
        });
        let text = serde_json::to_string_pretty(&body).unwrap();
        let h = H::new().str(&serde_json::to_string(&body["case"]).unwrap()).finish();
        let _ = std::fs::create_dir_all(&self.replay_dir);
        let path = self.replay_dir.join(format!("{:016x}.json", h));
        let _ = std::fs::write(&path, text);
        self.violations
            .push(json!({"replay": path.to_string_lossy(), "detail": detail}));
    }

    /// journal mode: note the case about to be executed
    #[inline]
    pub fn journal(&mut self, f: impl FnOnce() -> Value) {
        self.tick.fetch_add(1, std::sync::atomic::Ordering::Relaxed);
        if let Some(j) = self.journal.as_mut() {
            let v = f();
            let _ = j.set_len(0);
            use std::io::Seek;
            let _ = j.seek(std::io::SeekFrom::Start(0));
            let _ = j.write_all(serde_json::to_string(&v).unwrap().as_bytes());
            let _ = j.flush();
        }
    }

    /// Sanitizer layers (Miri, valgrind, ...) do not contribute to the distinct-case count: the 16 MB
    /// bitmap would dominate their run time. Call before the monitor runs.
    pub fn disable_distinct_tracking(&mut self) {
        self.bitmap = vec![0u64; 1];
    }

    pub fn write_worker_output(&self, out: &str) {
        let bm_path = format!("{}.bitmap", out);
        if self.bitmap.len() > 1 {
            let mut bytes = Vec::with_capacity(self.bitmap.len() * 8);
            for w in &self.bitmap {
                bytes.extend_from_slice(&w.to_le_bytes());
            }
            std::fs::write(&bm_path, bytes).expect("write bitmap");
        }
        let v = json!({
            "shard": self.shard,
            "evaluations": self.evaluations,
            "counters": self.counters,
            "samples": self.samples,
            "violations": self.violations,
            "known_hits": self.known_hits,
            "exhaustive_parts": self.exhaustive_parts,
            "bitmap": bm_path,
        });
        std::fs::write(out, serde_json::to_string(&v).unwrap()).expect("write worker output");
    }
}

// ---------------------------------------------------------------------------
// panic capture
// ---------------------------------------------------------------------------

thread_local! {
    static LAST_PANIC: RefCell<Option<String>> = RefCell::new(None);
    static GUARD_DEPTH: std::cell::Cell<u32> = std::cell::Cell::new(0);
}

pub fn install_panic_hook() {
    panic::set_hook(Box::new(|info| {
        let loc = info
            .location()
            .map(|l| format!("{}:{}", l.file(), l.line()))
            .unwrap_or_else(|| "?".into());
        let msg = if let Some(s) = info.payload().downcast_ref::<&str>() {
            s.to_string()
        } else if let Some(s) = info.payload().downcast_ref::<String>() {
            s.clone()
        } else {
            "<non-string panic>".to_string()
        };
        let mut m: String = msg.chars().take(200).collect();
        m = m.replace('\n', " ");
        if GUARD_DEPTH.with(|d| d.get()) == 0 {
            // a panic outside any guarded region is a harness bug: make it visible
            eprintln!("UNGUARDED panic at {}: {}", loc, m);
        }
        LAST_PANIC.with(|p| *p.borrow_mut() = Some(format!("panic at {}: {}", loc, m)));
    }));
}

/// Run `f`, turning a panic into `Err(signature)`.
pub fn guarded<T>(f: impl FnOnce() -> T) -> Result<T, String> {
    GUARD_DEPTH.with(|d| d.set(d.get() + 1));
    let r = panic::catch_unwind(AssertUnwindSafe(f));
    GUARD_DEPTH.with(|d| d.set(d.get().saturating_sub(1)));
    match r {
        Ok(v) => Ok(v),
        Err(_) => Err(LAST_PANIC
            .with(|p| p.borrow_mut().take())
            .unwrap_or_else(|| "panic (no message)".into())),
    }
}

// ---------------------------------------------------------------------------
// printable rendering of byte strings for samples / replays
// ---------------------------------------------------------------------------

pub fn show(b: &[u8]) -> String {
    let mut s = String::new();
    for &c in b.iter().take(400) {
        match c {
            b'\\' => s.push_str("\\\\"),
            0x20..=0x7E => s.push(c as char),
            b'\n' => s.push_str("\\n"),
            b'\t' => s.push_str("\\t"),
            b'\r' => s.push_str("\\r"),
            _ => s.push_str(&format!("\\x{:02x}", c)),
        }
    }
    if b.len() > 400 {
        s.push_str(&format!("…(+{} bytes)", b.len() - 400));
    }
    s
}

pub fn hex(b: &[u8]) -> String {
    let mut s = String::with_capacity(b.len() * 2);
    for c in b {
        s.push_str(&format!("{:02x}", c));
    }
    s
}
pub fn unhex(s: &str) -> Vec<u8> {
    let b = s.as_bytes();
    let mut out = Vec::with_capacity(b.len() / 2);
    let v = |c: u8| -> u8 {
        match c {
            b'0'..=b'9' => c - b'0',
            b'a'..=b'f' => c - b'a' + 10,
            b'A'..=b'F' => c - b'A' + 10,
            _ => 0,
        }
    };
    let mut i = 0;
    while i + 1 < b.len() {
        out.push(v(b[i]) * 16 + v(b[i + 1]));
        i += 2;
    }
    out
}

/// Exit code of a worker that made no progress for too long (a case that does not return).
pub const EXIT_STALL: i32 = 77;

/// Starts a thread that aborts the process with EXIT_STALL when the progress counter
/// does not move for `secs` seconds.
pub fn start_stall_detector(tick: std::sync::Arc<std::sync::atomic::AtomicU64>, secs: u64) {
    std::thread::spawn(move || {
        let mut last = tick.load(std::sync::atomic::Ordering::Relaxed);
        let mut still = 0u64;
        loop {
            std::thread::sleep(std::time::Duration::from_secs(1));
            let now = tick.load(std::sync::atomic::Ordering::Relaxed);
            if now == last {
                still += 1;
                if still >= secs {
                    eprintln!("STALL: no case finished for {} s", secs);
                    std::process::exit(EXIT_STALL);
                }
            } else {
                still = 0;
                last = now;
            }
        }
    });
}
